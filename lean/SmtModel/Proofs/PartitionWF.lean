/-
  Well-formedness of `CharPartition` and the set-theoretic reading of a partition
  (shared by C11 and C12; Mathlib-free).

  * `Sorted l`            every interval is WF and the intervals are strictly increasing with gaps
                          (`b_i < a_{i+1}`; stated pairwise, `sorted_iff_consecutive` gives the
                          consecutive reading)
  * `InList l x`          `x` lies in some interval of `l`       (the union of the intervals)
  * `IsCut l x`           `x` is the start of an interval or the successor of an end
  * `LeastNonMember l w`  `w ≤ MAX_CHAR+1`, `w` in no interval, every `x < w` in some interval
  * `WF p`                `Sorted p.list ∧ LeastNonMember p.list p.compWitness`
  * `cls p x`             set-theoretic class of `x` by linear scan (first interval containing `x`)
-/
import SmtModel.Model.CharPartition

namespace Smt.CharPartition
open Smt

/-! ### definitions -/

/-- every interval WF, and `s` before `t` in the list implies `s.stop < t.start` -/
def Sorted (l : List CharSet) : Prop :=
  (∀ s ∈ l, s.WF) ∧ l.Pairwise (fun s t => s.stop < t.start)

instance (l : List CharSet) : Decidable (Sorted l) := by unfold Sorted; infer_instance

/-- `x` belongs to the union of the intervals of `l` -/
def InList (l : List CharSet) (x : Nat) : Prop := ∃ s ∈ l, s.start ≤ x ∧ x ≤ s.stop

instance (l : List CharSet) (x : Nat) : Decidable (InList l x) := by unfold InList; infer_instance

/-- `x` is a cut point of `l`: a class boundary lies between `x-1` and `x` -/
def IsCut (l : List CharSet) (x : Nat) : Prop := ∃ s ∈ l, x = s.start ∨ x = s.stop + 1

instance (l : List CharSet) (x : Nat) : Decidable (IsCut l x) := by unfold IsCut; infer_instance

/-- `w` is the least natural that is in no interval of `l` (and `w ≤ MAX_CHAR + 1`) -/
def LeastNonMember (l : List CharSet) (w : Nat) : Prop :=
  w ≤ MAX_CHAR + 1 ∧ ¬ InList l w ∧ ∀ x, x < w → InList l x

instance (l : List CharSet) (w : Nat) : Decidable (LeastNonMember l w) := by
  unfold LeastNonMember
  have : Decidable (∀ x, x < w → InList l x) := Nat.decidableBallLT w (fun x _ => InList l x)
  infer_instance

/-- the invariant of `CharPartition` -/
def WF (p : CharPartition) : Prop := Sorted p.list ∧ LeastNonMember p.list p.compWitness

instance (p : CharPartition) : Decidable p.WF := by unfold WF; infer_instance

/-- set-theoretic class of `x`: the first interval that contains `x`, else the complement -/
def cls (p : CharPartition) (x : Nat) : ClassId :=
  match p.list.findIdx? (fun s => s.contains x) with
  | some i => .interval i
  | none => .complement

/-! ### `InList`, `IsCut`: structural lemmas -/

@[simp] theorem inList_nil (x : Nat) : InList [] x ↔ False := by simp [InList]

@[simp] theorem inList_cons (s : CharSet) (l : List CharSet) (x : Nat) :
    InList (s :: l) x ↔ (s.start ≤ x ∧ x ≤ s.stop) ∨ InList l x := by simp [InList]

@[simp] theorem inList_append (l l' : List CharSet) (x : Nat) :
    InList (l ++ l') x ↔ InList l x ∨ InList l' x := by
  simp only [InList, List.mem_append]
  constructor
  · rintro ⟨s, hs | hs, h⟩
    · exact .inl ⟨s, hs, h⟩
    · exact .inr ⟨s, hs, h⟩
  · rintro (⟨s, hs, h⟩ | ⟨s, hs, h⟩)
    · exact ⟨s, .inl hs, h⟩
    · exact ⟨s, .inr hs, h⟩

@[simp] theorem isCut_nil (x : Nat) : IsCut [] x ↔ False := by simp [IsCut]

@[simp] theorem isCut_cons (s : CharSet) (l : List CharSet) (x : Nat) :
    IsCut (s :: l) x ↔ (x = s.start ∨ x = s.stop + 1) ∨ IsCut l x := by simp [IsCut]

@[simp] theorem isCut_append (l l' : List CharSet) (x : Nat) :
    IsCut (l ++ l') x ↔ IsCut l x ∨ IsCut l' x := by
  simp only [IsCut, List.mem_append]
  constructor
  · rintro ⟨s, hs | hs, h⟩
    · exact .inl ⟨s, hs, h⟩
    · exact .inr ⟨s, hs, h⟩
  · rintro (⟨s, hs, h⟩ | ⟨s, hs, h⟩)
    · exact ⟨s, .inl hs, h⟩
    · exact ⟨s, .inr hs, h⟩

/-! ### `Sorted`: structural lemmas -/

@[simp] theorem sorted_nil : Sorted [] := by simp [Sorted]

theorem sorted_cons {s : CharSet} {l : List CharSet} :
    Sorted (s :: l) ↔ s.WF ∧ (∀ t ∈ l, s.stop < t.start) ∧ Sorted l := by
  simp only [Sorted, List.mem_cons, forall_eq_or_imp, List.pairwise_cons]
  constructor
  · rintro ⟨⟨h1, h2⟩, h3, h4⟩; exact ⟨h1, h3, h2, h4⟩
  · rintro ⟨h1, h3, h2, h4⟩; exact ⟨⟨h1, h2⟩, h3, h4⟩

theorem sorted_singleton {s : CharSet} : Sorted [s] ↔ s.WF := by
  simp [sorted_cons]

theorem sorted_append {l l' : List CharSet} :
    Sorted (l ++ l') ↔ Sorted l ∧ Sorted l' ∧ ∀ s ∈ l, ∀ t ∈ l', s.stop < t.start := by
  simp only [Sorted, List.mem_append, List.pairwise_append]
  constructor
  · rintro ⟨h1, h2, h3, h4⟩
    exact ⟨⟨fun s hs => h1 s (.inl hs), h2⟩, ⟨fun s hs => h1 s (.inr hs), h3⟩, h4⟩
  · rintro ⟨⟨h1, h2⟩, ⟨h3, h4⟩, h5⟩
    exact ⟨fun s hs => hs.elim (h1 s) (h3 s), h2, h4, h5⟩

theorem Sorted.tail {s : CharSet} {l : List CharSet} (h : Sorted (s :: l)) : Sorted l :=
  (sorted_cons.1 h).2.2

theorem Sorted.wf_of_mem {l : List CharSet} (h : Sorted l) {s : CharSet} (hs : s ∈ l) : s.WF :=
  h.1 s hs

theorem Sorted.drop {l : List CharSet} (h : Sorted l) (n : Nat) : Sorted (l.drop n) := by
  have := List.take_append_drop n l
  rw [← this] at h
  exact (sorted_append.1 h).2.1

/-- the consecutive reading: every interval WF and `b_i < a_{i+1}` -/
theorem sorted_iff_consecutive (l : List CharSet) :
    Sorted l ↔ (∀ s ∈ l, s.WF) ∧
      ∀ i (h : i + 1 < l.length), (l[i]'(by omega)).stop < (l[i + 1]'h).start := by
  induction l with
  | nil => simp
  | cons s l ih =>
    rw [sorted_cons, ih]
    constructor
    · rintro ⟨hs, hlt, hwf, hc⟩
      refine ⟨by simpa using ⟨hs, hwf⟩, ?_⟩
      intro i h
      cases i with
      | zero =>
        simp only [List.getElem_cons_zero, List.getElem_cons_succ]
        exact hlt _ (List.getElem_mem _)
      | succ i =>
        simp only [List.getElem_cons_succ]
        exact hc i (by simpa using h)
    · rintro ⟨hwf, hc⟩
      have hs : s.WF := hwf s (by simp)
      have hwf' : ∀ t ∈ l, t.WF := fun t ht => hwf t (by simp [ht])
      have hc' : ∀ i (h : i + 1 < l.length), (l[i]'(by omega)).stop < (l[i + 1]'h).start := by
        intro i h
        have := hc (i + 1) (by simpa using h)
        simpa using this
      refine ⟨hs, ?_, hwf', hc'⟩
      -- transitivity along the chain
      have key : ∀ (j : Nat) (h : j < l.length), s.stop < (l[j]'h).start := by
        intro j
        induction j with
        | zero =>
          intro h
          have := hc 0 (by simpa using h)
          simpa using this
        | succ j ihj =>
          intro h
          have h1 := ihj (by omega)
          have h2 := hc' j h
          have h3 := (hwf' _ (List.getElem_mem (by omega : j < l.length))).1
          omega
      intro t ht
      obtain ⟨j, hj, rfl⟩ := List.getElem_of_mem ht
      exact key j hj

/-- members of a sorted list lie in the alphabet -/
theorem Sorted.inList_le_max {l : List CharSet} (h : Sorted l) {x : Nat} (hx : InList l x) :
    x ≤ MAX_CHAR := by
  obtain ⟨s, hs, h1, h2⟩ := hx
  have := (h.1 s hs).2
  omega

/-- in a sorted list a point lies in at most one interval -/
theorem Sorted.mem_unique {l : List CharSet} (h : Sorted l) {s t : CharSet} (hs : s ∈ l)
    (ht : t ∈ l) {x : Nat} (hxs : s.start ≤ x ∧ x ≤ s.stop) (hxt : t.start ≤ x ∧ x ≤ t.stop) :
    s = t := by
  induction l with
  | nil => cases hs
  | cons u l ih =>
    obtain ⟨hu, hlt, hl⟩ := sorted_cons.1 h
    rcases List.mem_cons.1 hs with rfl | hs' <;> rcases List.mem_cons.1 ht with rfl | ht'
    · rfl
    · have := hlt _ ht'; omega
    · have := hlt _ hs'; omega
    · exact ih hl hs' ht'

/-! ### `cls` against membership -/

theorem cls_eq_complement_iff (p : CharPartition) (x : Nat) :
    cls p x = .complement ↔ ¬ InList p.list x := by
  unfold cls
  split
  · rename_i i hi
    simp only [reduceCtorEq, false_iff, Classical.not_not]
    obtain ⟨h, h1, _⟩ := List.findIdx?_eq_some_iff_getElem.1 hi
    refine ⟨_, List.getElem_mem h, ?_⟩
    simpa [CharSet.contains] using h1
  · rename_i hn
    simp only [true_iff]
    rw [List.findIdx?_eq_none_iff] at hn
    rintro ⟨s, hs, h1, h2⟩
    have := hn s hs
    simp [CharSet.contains, h1, h2] at this

theorem cls_eq_interval_iff {p : CharPartition} (hp : Sorted p.list) (x i : Nat) :
    cls p x = .interval i ↔
      ∃ h : i < p.list.length, (p.list[i]'h).start ≤ x ∧ x ≤ (p.list[i]'h).stop := by
  unfold cls
  split
  · rename_i k hk
    obtain ⟨h, h1, _⟩ := List.findIdx?_eq_some_iff_getElem.1 hk
    have h1' : (p.list[k]'h).start ≤ x ∧ x ≤ (p.list[k]'h).stop := by
      simpa [CharSet.contains] using h1
    constructor
    · intro e
      cases e
      exact ⟨h, h1'⟩
    · rintro ⟨hi, h2⟩
      have hpw := List.pairwise_iff_getElem.1 hp.2
      rcases Nat.lt_trichotomy k i with hlt | heq | hgt
      · have := hpw k i h hi hlt; omega
      · rw [heq]
      · have := hpw i k hi h hgt; omega
  · rename_i hn
    simp only [reduceCtorEq, false_iff]
    rw [List.findIdx?_eq_none_iff] at hn
    rintro ⟨hi, h1, h2⟩
    have := hn _ (List.getElem_mem hi)
    simp [CharSet.contains, h1, h2] at this

/-- two points are in the same class iff they belong to the same intervals -/
theorem cls_eq_iff_mem {p : CharPartition} (hp : Sorted p.list) (x y : Nat) :
    cls p x = cls p y ↔
      ∀ s ∈ p.list, (s.start ≤ x ∧ x ≤ s.stop) ↔ (s.start ≤ y ∧ y ≤ s.stop) := by
  constructor
  · intro h s hs
    cases hc : cls p x with
    | complement =>
      have hx := (cls_eq_complement_iff p x).1 hc
      have hy := (cls_eq_complement_iff p y).1 (h ▸ hc)
      constructor
      · intro hm; exact absurd ⟨s, hs, hm⟩ hx
      · intro hm; exact absurd ⟨s, hs, hm⟩ hy
    | interval i =>
      obtain ⟨hi, hx⟩ := (cls_eq_interval_iff hp x i).1 hc
      obtain ⟨_, hy⟩ := (cls_eq_interval_iff hp y i).1 (h ▸ hc)
      constructor
      · intro hm
        have := hp.mem_unique hs (List.getElem_mem hi) hm hx
        subst this; exact hy
      · intro hm
        have := hp.mem_unique hs (List.getElem_mem hi) hm hy
        subst this; exact hx
  · intro h
    cases hc : cls p x with
    | complement =>
      have hx := (cls_eq_complement_iff p x).1 hc
      symm
      rw [cls_eq_complement_iff]
      rintro ⟨s, hs, hm⟩
      exact hx ⟨s, hs, (h s hs).2 hm⟩
    | interval i =>
      obtain ⟨hi, hx⟩ := (cls_eq_interval_iff hp x i).1 hc
      symm
      rw [cls_eq_interval_iff hp]
      exact ⟨hi, (h _ (List.getElem_mem hi)).1 hx⟩

/-- outside the alphabet everything is in the complementary class -/
theorem cls_gt_max {p : CharPartition} (hp : Sorted p.list) {x : Nat} (hx : MAX_CHAR < x) :
    cls p x = .complement := by
  rw [cls_eq_complement_iff]
  intro h
  have := hp.inList_le_max h
  omega

/-! ### the witness -/

theorem leastNonMember_unique {l : List CharSet} {w w' : Nat}
    (h : LeastNonMember l w) (h' : LeastNonMember l w') : w = w' := by
  obtain ⟨_, h1, h2⟩ := h
  obtain ⟨_, h1', h2'⟩ := h'
  rcases Nat.lt_trichotomy w w' with hlt | heq | hgt
  · exact absurd (h2' w hlt) h1
  · exact heq
  · exact absurd (h2 w' hgt) h1'

/-- the witness depends only on the union of the intervals -/
theorem leastNonMember_congr {l l' : List CharSet} (h : ∀ x, InList l x ↔ InList l' x) {w : Nat}
    (hw : LeastNonMember l w) : LeastNonMember l' w :=
  ⟨hw.1, fun hc => hw.2.1 ((h w).2 hc), fun x hx => (h x).1 (hw.2.2 x hx)⟩

theorem wf_new : WF CharPartition.new := by
  simp [WF, CharPartition.new, LeastNonMember]

/-- `push` under its two `debug_assert!`s (interval WF and after the last one) preserves `WF` -/
theorem push_wf {p : CharPartition} (hp : p.WF) {a b : Nat}
    (hs : Sorted (p.list ++ [⟨a, b⟩])) : (p.push a b).WF := by
  obtain ⟨hsl, hw1, hw2, hw3⟩ := hp
  obtain ⟨_, hab, hlt⟩ := sorted_append.1 hs
  have habwf : (⟨a, b⟩ : CharSet).WF := sorted_singleton.1 hab
  have hlt' : ∀ s ∈ p.list, s.stop < a := fun s hs => hlt s hs ⟨a, b⟩ (by simp)
  have ha_non : ¬ InList p.list a := by
    rintro ⟨s, hs, h1, h2⟩
    have := hlt' s hs; omega
  refine ⟨hs, ?_⟩
  simp only [CharPartition.push]
  have h1 := habwf.1; have h2 := habwf.2
  simp only at h1 h2
  split
  · rename_i hle
    -- a ≤ w, and a is a non-member, so a = w
    have : a = p.compWitness := by
      rcases Nat.lt_or_ge a p.compWitness with h | h
      · exact absurd (hw3 a h) ha_non
      · omega
    refine ⟨by omega, ?_, ?_⟩
    · simp only [inList_append, inList_cons, inList_nil, or_false, not_or]
      refine ⟨?_, by omega⟩
      rintro ⟨s, hs, h3, h4⟩
      have := hlt' s hs; omega
    · intro x hx
      simp only [inList_append, inList_cons, inList_nil, or_false]
      rcases Nat.lt_or_ge x p.compWitness with h | h
      · exact .inl (hw3 x h)
      · right; omega
  · rename_i hgt
    refine ⟨hw1, ?_, ?_⟩
    · simp only [inList_append, inList_cons, inList_nil, or_false, not_or]
      exact ⟨hw2, by omega⟩
    · intro x hx
      simp only [inList_append]
      exact .inl (hw3 x hx)

end Smt.CharPartition
