/-
  Discharge of the hypothesis bundles of Proofs/DerivFacts.lean (used by C18 and C10) for the
  domain `Good e := e.WF ∧ e.NZ` (`Deriv.Good`) and every id assignment with `PairSound`:

    `DerivFacts`  from C03 (`Deriv.deriv_spec` of Proofs/Deriv.lean = C03 `char_derivative_quotient` /
                  `deriv_wf`) and Proofs/DerivFinal.lean,
    `ClassFacts`  from C03 (`Deriv.derivClass_wf`, `Deriv.unif_imp` = C03 `deriv_class_uniform`; no id
                  assignment involved),
    `EmptyFacts`  from C05 (Props/C05.lean) through `C19.closureFacts_of_class_wf`.
-/
import SmtModel.Proofs.DerivFacts
import SmtModel.Proofs.DerivFinal
import SmtModel.Props.C05
import SmtModel.Props.C19

namespace Smt.DerivFactsFinal
open Smt RE

variable {ord : RE → Nat}

/-- `DerivFacts` from the C03 theorems, for every `ord` whose smart constructors are sound -/
theorem derivFacts_of_consFacts (F : Deriv.ConsFacts ord) : DerivFacts ord Deriv.Good where
  deriv_good := fun _ _ hg hc => (Deriv.deriv_spec F hg hc).2
  deriv_lang := fun _ _ hg hc => (Deriv.deriv_spec F hg hc).1
  nullable_iff := fun e hg => Deriv.nullable_iff e hg.1
  lang_sub := fun e hg w hw => Deriv.lang_wfs e hg.1 w hw
  good_loop := by
    intro e r hg
    obtain ⟨hwf, hnz⟩ := hg
    simp only [RE.WF] at hwf
    rw [nz_loop] at hnz
    exact ⟨⟨hwf.1, hnz.1⟩, hwf.2, hnz.2⟩
  good_union := by
    intro l hg e he
    obtain ⟨hwf, hnz⟩ := hg
    simp only [RE.WF] at hwf
    rw [nz_union] at hnz
    exact ⟨(WFList_iff l).1 hwf e he, (nzList_iff l).1 hnz e he⟩

/-- `ClassFacts`: unconditional -/
theorem classFacts : ClassFacts Deriv.Good where
  class_wf := fun e hg => Deriv.derivClass_wf e hg.1
  uniform := fun e c c' hg hc hc' h w =>
    ⟨Deriv.unif_imp e hg.1 c c' hc hc' h w, Deriv.unif_imp e hg.1 c' c hc' hc h.symm w⟩

/-- no hypothesis left but `PairSound` -/
theorem derivFacts (hp : PairSound ord) : DerivFacts ord Deriv.Good :=
  derivFacts_of_consFacts (DerivFinal.consFacts hp)

theorem closureFacts (hp : PairSound ord) : ClosureFacts ord Deriv.Good :=
  C19.closureFacts_of_class_wf (derivFacts hp).deriv_good (derivFacts hp).deriv_lang
    (derivFacts hp).nullable_iff (derivFacts hp).lang_sub classFacts.class_wf

/-- `EmptyFacts` from C05 -/
theorem emptyFacts (hp : PairSound ord) : EmptyFacts ord Deriv.Good where
  empty_iff := fun _ _ _ hg h => C05.is_empty_iff (closureFacts hp) hg h
  no_panic := fun _ fuel hg => C05.is_empty_no_panic (closureFacts hp) hg fuel

end Smt.DerivFactsFinal
