/-
  Helper lemmas for C14: the compact table.

  `Cells t D` is the invariant of `CompactTableBuilder`: `D` lists the states whose rows have been
  stored (each once); a cell of `check` is either free (`= num_states`) or is cell `base[s] + c`
  of exactly one stored pair `(c, v)` of one stored state `s`, and then holds `s` / `v`.
  First-fit (`findBase`) terminates within its fuel, never trips the `assert!`, and returns a base
  where every cell of the row is free.
  Mathlib-free.
-/
import SmtModel.Model.CompactTable

namespace Smt.CompactTableBuilder

abbrev Row := List (Nat × Nat)

/-- characters of a row are distinct and in the alphabet -/
def GoodRow (alpha : Nat) (row : Row) : Prop :=
  row.Pairwise (fun x y => x.1 ≠ y.1) ∧ ∀ x ∈ row, x.1 < alpha

structure Shape (t : CompactTableBuilder) : Prop where
  npos : 0 < t.numStates
  apos : 0 < t.alphabetSize
  dlen : t.default.length = t.numStates
  blen : t.base.length = t.numStates
  vlen : t.value.length = t.check.length
  alen : t.alphabetSize ≤ t.check.length
  base : ∀ b ∈ t.base, b + t.alphabetSize ≤ t.check.length

structure Cells (t : CompactTableBuilder) (D : List (Nat × Row)) : Prop where
  owned : ∀ k x, t.check[k]? = some x → x = t.numStates ∨
    ∃ s row c v b, (s, row) ∈ D ∧ (c, v) ∈ row ∧ t.base[s]? = some b ∧ k = b + c ∧ x = s ∧
      t.value[k]? = some v
  stored : ∀ s row, (s, row) ∈ D → s < t.numStates ∧ GoodRow t.alphabetSize row ∧
    ∀ c v b, (c, v) ∈ row → t.base[s]? = some b →
      t.check[b + c]? = some s ∧ t.value[b + c]? = some v
  distinct : (D.map (·.1)).Nodup

/-! ### `new`, `set_default` -/

theorem new_spec {n alpha : Nat} (hn : 0 < n) (ha : 0 < alpha) :
    ∃ t, CompactTableBuilder.new n alpha = some t ∧ Shape t ∧ Cells t [] ∧ t.numStates = n ∧
      t.alphabetSize = alpha := by
  refine ⟨{ numStates := n, alphabetSize := alpha, default := List.replicate n 0,
            base := List.replicate n 0, value := List.replicate alpha 0,
            check := List.replicate alpha n }, by simp [CompactTableBuilder.new, hn, ha],
    ⟨hn, ha, by simp, by simp, by simp, by simp, ?_⟩,
    ⟨?_, fun s row h => (by cases h), by simp⟩, rfl, rfl⟩
  · intro b hb
    simp only [List.mem_replicate] at hb
    simp [hb.2]
  · intro k x hx
    left
    simp only [List.getElem?_replicate] at hx
    split at hx
    · cases hx; rfl
    · cases hx

theorem setDefault_spec {t : CompactTableBuilder} {D : List (Nat × Row)} (hs : Shape t)
    (hc : Cells t D) {i d : Nat} (hi : i < t.numStates) (hd : d < t.numStates) :
    ∃ t', t.setDefault i d = some t' ∧ Shape t' ∧ Cells t' D ∧ t'.numStates = t.numStates ∧
      t'.alphabetSize = t.alphabetSize ∧ t'.default = t.default.set i d ∧ t'.base = t.base := by
  refine ⟨{ t with default := t.default.set i d }, ?_, ?_, ?_, rfl, rfl, rfl, rfl⟩
  · simp [setDefault, hd, hs.dlen, hi]
  · exact ⟨hs.npos, hs.apos, by simp [hs.dlen], hs.blen, hs.vlen, hs.alen, hs.base⟩
  · exact ⟨hc.owned, hc.stored, hc.distinct⟩

/-! ### `base_conflicts` -/

theorem baseConflicts_spec (t : CompactTableBuilder) (b : Nat) (row : Row)
    (hb : ∀ x ∈ row, b + x.1 < t.check.length) :
    (t.baseConflicts b row = some false ∧ ∀ x ∈ row, t.check[b + x.1]? = some t.numStates) ∨
    (t.baseConflicts b row = some true ∧ ∃ x ∈ row, ∃ y, t.check[b + x.1]? = some y ∧ y ≠ t.numStates) := by
  induction row with
  | nil => exact .inl ⟨rfl, fun x hx => by cases hx⟩
  | cons x rest ih =>
    obtain ⟨c, v⟩ := x
    have hlt : b + c < t.check.length := hb (c, v) (by simp)
    simp only [baseConflicts, List.getElem?_eq_getElem hlt]
    by_cases hy : t.check[b + c] ≠ t.numStates
    · right
      simp only [ne_eq, hy, not_false_eq_true, if_true, true_and]
      exact ⟨(c, v), by simp, _, List.getElem?_eq_getElem hlt, hy⟩
    · have hy' : t.check[b + c] = t.numStates := by
        rcases Nat.lt_trichotomy t.check[b + c] t.numStates with h | h | h
        · exact absurd (Nat.ne_of_lt h) hy
        · exact h
        · exact absurd (Nat.ne_of_gt h) hy
      simp only [ne_eq, hy', not_true_eq_false, if_false]
      rcases ih (fun x hx => hb x (by simp [hx])) with ⟨h1, h2⟩ | ⟨h1, x, hx, y, h2, h3⟩
      · left
        refine ⟨h1, ?_⟩
        intro x hx
        rcases List.mem_cons.1 hx with rfl | hx'
        · simp [List.getElem?_eq_getElem hlt, hy']
        · exact h2 x hx'
      · right
        exact ⟨h1, x, by simp [hx], y, h2, h3⟩

/-! ### `resize` -/

theorem resize_check (t : CompactTableBuilder) {m : Nat} (hm : t.check.length ≤ m) :
    (t.resize m).check = t.check ++ List.replicate (m - t.check.length) t.numStates := by
  simp only [resize, resizeList]
  split
  · have : m = t.check.length := by omega
    subst this
    simp
  · rfl

theorem resize_value (t : CompactTableBuilder) {m : Nat} (hm : t.value.length ≤ m) :
    (t.resize m).value = t.value ++ List.replicate (m - t.value.length) 0 := by
  simp only [resize, resizeList]
  split
  · have : m = t.value.length := by omega
    subst this
    simp
  · rfl

/-- `t'` is `t` with free cells appended -/
structure Extends (t t' : CompactTableBuilder) : Prop where
  num : t'.numStates = t.numStates
  alpha : t'.alphabetSize = t.alphabetSize
  default : t'.default = t.default
  base : t'.base = t.base
  check : ∃ j, t'.check = t.check ++ List.replicate j t.numStates
  value : ∃ j, t'.value = t.value ++ List.replicate j 0

theorem Extends.refl (t : CompactTableBuilder) : Extends t t :=
  ⟨rfl, rfl, rfl, rfl, ⟨0, by simp⟩, ⟨0, by simp⟩⟩

theorem Extends.trans {t t' t'' : CompactTableBuilder} (h : Extends t t') (h' : Extends t' t'') :
    Extends t t'' := by
  obtain ⟨j1, e1⟩ := h.check
  obtain ⟨j2, e2⟩ := h'.check
  obtain ⟨j3, e3⟩ := h.value
  obtain ⟨j4, e4⟩ := h'.value
  refine ⟨h'.num.trans h.num, h'.alpha.trans h.alpha, h'.default.trans h.default,
    h'.base.trans h.base, ⟨j1 + j2, ?_⟩, ⟨j3 + j4, ?_⟩⟩
  · rw [e2, e1, h.num, List.append_assoc, List.replicate_append_replicate]
  · rw [e4, e3, List.append_assoc, List.replicate_append_replicate]

theorem resize_extends (t : CompactTableBuilder) (hv : t.value.length = t.check.length) {m : Nat}
    (hm : t.check.length ≤ m) : Extends t (t.resize m) :=
  ⟨rfl, rfl, rfl, rfl, ⟨_, resize_check t hm⟩, ⟨_, resize_value t (by omega)⟩⟩

theorem Extends.shape {t t' : CompactTableBuilder} (h : Extends t t') (hs : Shape t)
    (hv : t'.value.length = t'.check.length) : Shape t' := by
  obtain ⟨j, e⟩ := h.check
  have hl : t.check.length ≤ t'.check.length := by rw [e]; simp
  refine ⟨h.num ▸ hs.npos, h.alpha ▸ hs.apos, by rw [h.default, h.num]; exact hs.dlen,
    by rw [h.base, h.num]; exact hs.blen, hv, by rw [h.alpha]; have := hs.alen; omega, ?_⟩
  intro b hb
  rw [h.base] at hb
  have := hs.base b hb
  rw [h.alpha]
  omega

theorem Extends.cells {t t' : CompactTableBuilder} (h : Extends t t') (hs : Shape t)
    {D : List (Nat × Row)} (hc : Cells t D) : Cells t' D := by
  obtain ⟨j, e⟩ := h.check
  obtain ⟨j', e'⟩ := h.value
  refine ⟨?_, ?_, hc.distinct⟩
  · intro k x hx
    rw [h.num]
    by_cases hk : k < t.check.length
    · rw [e, List.getElem?_append_left hk] at hx
      rcases hc.owned k x hx with h1 | ⟨s, row, c, v, b, h1, h2, h3, h4, h5, h6⟩
      · exact .inl h1
      · refine .inr ⟨s, row, c, v, b, h1, h2, by rw [h.base]; exact h3, h4, h5, ?_⟩
        rw [e', List.getElem?_append_left (by rw [hs.vlen]; exact hk)]
        exact h6
    · rw [e, List.getElem?_append_right (by omega), List.getElem?_replicate] at hx
      split at hx
      · cases hx; exact .inl rfl
      · cases hx
  · intro s row hsr
    obtain ⟨h1, h2, h3⟩ := hc.stored s row hsr
    refine ⟨by rw [h.num]; exact h1, by rw [h.alpha]; exact h2, ?_⟩
    intro c v b hcv hb
    rw [h.base] at hb
    obtain ⟨h4, h5⟩ := h3 c v b hcv hb
    have hk : b + c < t.check.length := (List.getElem?_eq_some_iff.1 h4).1
    exact ⟨by rw [e, List.getElem?_append_left hk]; exact h4,
      by rw [e', List.getElem?_append_left (by rw [hs.vlen]; exact hk)]; exact h5⟩

/-! ### first fit -/

/-- the `while` loop of `set_successors`: starting from a base `b ≤ M` where `M` bounds the
    occupied cells, with `fuel + b > M`, it stops at a base where the whole row is free -/
theorem findBase_spec (row : Row) :
    ∀ (fuel : Nat) (t : CompactTableBuilder) (b M : Nat), Shape t →
      (∀ x ∈ row, x.1 < t.alphabetSize) → b + t.alphabetSize ≤ t.check.length →
      (∀ k x, M ≤ k → t.check[k]? = some x → x = t.numStates) → b ≤ M → fuel + b ≥ M + 1 →
      ∃ t' b', findBase row fuel t b = some (t', b') ∧ Extends t t' ∧
        t'.value.length = t'.check.length ∧ b' + t'.alphabetSize ≤ t'.check.length ∧
        ∀ x ∈ row, t'.check[b' + x.1]? = some t'.numStates := by
  intro fuel
  induction fuel with
  | zero => intro t b M _ _ _ _ h1 h2; omega
  | succ fuel ih =>
    intro t b M hs hrow hb hfree hbM hfuel
    have hin : ∀ x ∈ row, b + x.1 < t.check.length := by
      intro x hx; have := hrow x hx; omega
    rcases baseConflicts_spec t b row hin with ⟨h1, h2⟩ | ⟨h1, x, hx, y, h2, h3⟩
    · exact ⟨t, b, by simp [findBase, h1], Extends.refl t, hs.vlen, hb, h2⟩
    · -- a conflict: some occupied cell lies at or after `b`, hence `b < M`
      have hlt : b < M := by
        rcases Nat.lt_or_ge (b + x.1) M with h | h
        · omega
        · exact absurd (hfree _ _ h h2) h3
      simp only [findBase, h1]
      by_cases hgrow : b + 1 + t.alphabetSize > t.value.length
      · have hnew : 2 * t.value.length ≥ b + 1 + t.alphabetSize := by
          have := hs.vlen; have := hs.apos; omega
        simp only [hgrow, if_true, hnew]
        have hext := resize_extends t hs.vlen (m := 2 * t.value.length) (by have := hs.vlen; omega)
        have hv' : (t.resize (2 * t.value.length)).value.length =
            (t.resize (2 * t.value.length)).check.length := by
          rw [resize_check t (by have := hs.vlen; omega), resize_value t (by omega)]
          simp [hs.vlen]
        have hs' := hext.shape hs hv'
        have hlen' : (t.resize (2 * t.value.length)).check.length = 2 * t.value.length := by
          rw [resize_check t (by have := hs.vlen; omega)]
          simp; have := hs.vlen; omega
        obtain ⟨t', b', r1, r2, r3, r4, r5⟩ := ih (t.resize (2 * t.value.length)) (b + 1) M hs'
          (by intro x hx; rw [hext.alpha]; exact hrow x hx)
          (by rw [hext.alpha, hlen']; omega)
          (by
            intro k x hk hx
            rw [hext.num]
            obtain ⟨j, e⟩ := hext.check
            rw [e] at hx
            by_cases hkl : k < t.check.length
            · rw [List.getElem?_append_left hkl] at hx
              exact hfree k x hk hx
            · rw [List.getElem?_append_right (by omega), List.getElem?_replicate] at hx
              split at hx
              · cases hx; rfl
              · cases hx)
          (by omega) (by omega)
        exact ⟨t', b', r1, hext.trans r2, r3, r4, r5⟩
      · simp only [hgrow, if_false]
        obtain ⟨t', b', r1, r2, r3, r4, r5⟩ := ih t (b + 1) M hs hrow
          (by have := hs.vlen; omega) hfree (by omega) (by omega)
        exact ⟨t', b', r1, r2, r3, r4, r5⟩

/-! ### `store_successors` -/

theorem storeCells_spec (i b : Nat) :
    ∀ (row : Row) (check value : List Nat), row.Pairwise (fun x y => x.1 ≠ y.1) →
      (∀ x ∈ row, b + x.1 < check.length) → value.length = check.length →
      ∃ check' value', storeCells i b row check value = some (check', value') ∧
        check'.length = check.length ∧ value'.length = value.length ∧
        (∀ x ∈ row, check'[b + x.1]? = some i ∧ value'[b + x.1]? = some x.2) ∧
        ∀ k, (∀ x ∈ row, b + x.1 ≠ k) → check'[k]? = check[k]? ∧ value'[k]? = value[k]? := by
  intro row
  induction row with
  | nil =>
    intro check value _ _ _
    exact ⟨check, value, rfl, rfl, rfl, fun x hx => (by cases hx), fun k _ => ⟨rfl, rfl⟩⟩
  | cons x rest ih =>
    intro check value hpw hin hlen
    obtain ⟨c, v⟩ := x
    obtain ⟨hx, hrest⟩ := List.pairwise_cons.1 hpw
    have hk : b + c < check.length := hin (c, v) (by simp)
    have hk' : b + c < value.length := by omega
    obtain ⟨check', value', r1, r2, r3, r4, r5⟩ := ih (check.set (b + c) i) (value.set (b + c) v)
      hrest (by intro y hy; simpa using hin y (by simp [hy])) (by simp [hlen])
    refine ⟨check', value', ?_, by simpa using r2, by simpa using r3, ?_, ?_⟩
    · simp only [storeCells, hk, hk', if_true]
      exact r1
    · intro y hy
      rcases List.mem_cons.1 hy with rfl | hy'
      · have hne : ∀ z ∈ rest, b + z.1 ≠ b + c := by
          intro z hz e
          exact hx z hz (by simp only; omega)
        obtain ⟨a1, a2⟩ := r5 (b + c) hne
        rw [a1, a2]
        simp [List.getElem?_set_self hk, List.getElem?_set_self hk']
      · exact r4 y hy'
    · intro k hne
      obtain ⟨a1, a2⟩ := r5 k (fun z hz => hne z (by simp [hz]))
      have hkne : b + c ≠ k := hne (c, v) (by simp)
      rw [a1, a2]
      simp [List.getElem?_set_ne hkne]

/-! ### `set_successors` -/

theorem setSuccessors_spec {t : CompactTableBuilder} {D : List (Nat × Row)} (hs : Shape t)
    (hc : Cells t D) {i : Nat} (hi : i < t.numStates) (hiD : i ∉ D.map (·.1)) {row : Row}
    (hrow : GoodRow t.alphabetSize row) :
    ∃ t', t.setSuccessors i row = some t' ∧ Shape t' ∧ Cells t' ((i, row) :: D) ∧
      t'.numStates = t.numStates ∧ t'.alphabetSize = t.alphabetSize ∧ t'.default = t.default := by
  obtain ⟨t1, b, h1, hext, hv1, hb1, hfree1⟩ := findBase_spec row (t.value.length + 2) t 0
    t.check.length hs hrow.2 (by simpa using hs.alen)
    (by
      intro k x hk hx
      have := (List.getElem?_eq_some_iff.1 hx).1
      omega)
    (Nat.zero_le _) (by have := hs.vlen; omega)
  have hs1 := hext.shape hs hv1
  have hc1 := hext.cells hs hc
  have hin : ∀ x ∈ row, b + x.1 < t1.check.length := by
    intro x hx
    have := hrow.2 x hx
    rw [← hext.alpha] at this
    omega
  obtain ⟨check', value', r1, r2, r3, r4, r5⟩ := storeCells_spec i b row t1.check t1.value hrow.1
    hin hv1
  have hi1 : i < t1.base.length := by rw [hs1.blen, hext.num]; exact hi
  refine ⟨{ t1 with base := t1.base.set i b, check := check', value := value' }, ?_, ?_, ?_,
    hext.num, hext.alpha, hext.default⟩
  · simp only [setSuccessors, h1, storeSuccessors, hi1, if_true, r1]
  · refine ⟨hs1.npos, hs1.apos, hs1.dlen, by simpa using hs1.blen, by simp only; omega,
      by simp only; rw [r2]; exact hs1.alen, ?_⟩
    intro b' hb'
    simp only at hb' ⊢
    rw [r2]
    rcases List.mem_or_eq_of_mem_set hb' with h | h
    · exact hs1.base b' h
    · rw [h]; exact hb1
  · refine ⟨?_, ?_, ?_⟩
    · intro k x hx
      simp only at hx ⊢
      by_cases hk : ∃ y ∈ row, b + y.1 = k
      · obtain ⟨y, hy, rfl⟩ := hk
        obtain ⟨a1, a2⟩ := r4 y hy
        rw [a1] at hx
        cases hx
        exact .inr ⟨i, row, y.1, y.2, b, by simp, hy, by simp [hi1], rfl, rfl, a2⟩
      · have hne : ∀ y ∈ row, b + y.1 ≠ k := fun y hy e => hk ⟨y, hy, e⟩
        obtain ⟨a1, a2⟩ := r5 k hne
        rw [a1] at hx
        rcases hc1.owned k x hx with h | ⟨s, row', c, v, b', g1, g2, g3, g4, g5, g6⟩
        · exact .inl h
        · have hsi : s ≠ i := by
            intro e
            subst e
            exact hiD (List.mem_map.2 ⟨(s, row'), g1, rfl⟩)
          refine .inr ⟨s, row', c, v, b', by simp [g1], g2, ?_, g4, g5, by rw [a2]; exact g6⟩
          rw [List.getElem?_set_ne (fun e => hsi e.symm)]
          exact g3
    · intro s row' hsr
      simp only at hsr ⊢
      rcases List.mem_cons.1 hsr with he | hsr'
      · cases he
        refine ⟨by rw [hext.num]; exact hi, by rw [hext.alpha]; exact hrow, ?_⟩
        intro c v b' hcv hb'
        rw [List.getElem?_set_self hi1] at hb'
        cases hb'
        exact r4 (c, v) hcv
      · obtain ⟨g1, g2, g3⟩ := hc1.stored s row' hsr'
        have hsi : s ≠ i := by
          intro e
          subst e
          exact hiD (List.mem_map.2 ⟨(s, row'), hsr', rfl⟩)
        refine ⟨g1, g2, ?_⟩
        intro c v b' hcv hb'
        rw [List.getElem?_set_ne (fun e => hsi e.symm)] at hb'
        obtain ⟨g4, g5⟩ := g3 c v b' hcv hb'
        -- the cell is occupied, so it is not one of the cells just written
        have hne : ∀ y ∈ row, b + y.1 ≠ b' + c := by
          intro y hy e
          have := hfree1 y hy
          rw [e, g4] at this
          cases this
          omega
        obtain ⟨a1, a2⟩ := r5 (b' + c) hne
        exact ⟨by rw [a1]; exact g4, by rw [a2]; exact g5⟩
    · simp only [List.map_cons, List.nodup_cons]
      exact ⟨hiD, hc1.distinct⟩

/-! ### `build`, `eval` -/

theorem unique_row {D : List (Nat × Row)} (hd : (D.map (·.1)).Nodup) {s : Nat} {row row' : Row}
    (h1 : (s, row) ∈ D) (h2 : (s, row') ∈ D) : row' = row := by
  induction D with
  | nil => cases h1
  | cons e D ih =>
    simp only [List.map_cons, List.nodup_cons] at hd
    rcases List.mem_cons.1 h1 with rfl | h1' <;> rcases List.mem_cons.1 h2 with h2' | h2'
    · cases h2'; rfl
    · exact absurd (List.mem_map.2 ⟨(s, row'), h2', rfl⟩) hd.1
    · cases h2'
      exact absurd (List.mem_map.2 ⟨(s, row), h1', rfl⟩) hd.1
    · exact ih hd.2 h1' h2'

/-- the table `build` returns when the largest base is `mx` -/
def buildWith (t : CompactTableBuilder) (mx : Nat) : CompactTable :=
  { numStates := t.numStates, alphabetSize := t.alphabetSize, default := t.default, base := t.base,
    value := t.value.take (mx + t.alphabetSize), check := t.check.take (mx + t.alphabetSize) }

theorem build_spec {t : CompactTableBuilder} {D : List (Nat × Row)} (hs : Shape t)
    (hc : Cells t D) :
    ∃ T, t.build = some T ∧ T.numStates = t.numStates ∧ T.alphabetSize = t.alphabetSize ∧
      (∀ s c, s < t.numStates → c < t.alphabetSize → ∃ y, T.eval s c = some y) ∧
      ∀ s row, (s, row) ∈ D → ∀ c, c < t.alphabetSize →
        (∀ v, (c, v) ∈ row → T.eval s c = some v) ∧
        ((∀ v, (c, v) ∉ row) → T.eval s c = t.default[s]?) := by
  have hne : t.base ≠ [] := by
    intro e
    have := hs.blen
    rw [e] at this
    have := hs.npos
    simp at *
    omega
  cases hm : t.base.max? with
  | none => exact absurd (List.max?_eq_none_iff.1 hm) hne
  | some mx =>
    obtain ⟨hmem, hmax⟩ := List.max?_eq_some_iff.1 hm
    have hmx := hs.base mx hmem
    -- reading a cell of a state through the truncated arrays
    have hread : ∀ s b c : Nat, t.base[s]? = some b → c < t.alphabetSize →
        (t.check.take (mx + t.alphabetSize))[b + c]? = t.check[b + c]? ∧
        (t.value.take (mx + t.alphabetSize))[b + c]? = t.value[b + c]? ∧
        b + c < t.check.length := by
      intro s b c hb hcl
      have hbm : b ≤ mx := hmax b (List.mem_of_getElem? hb)
      have hlt : b + c < mx + t.alphabetSize := by omega
      refine ⟨by simp [List.getElem?_take, hlt], by simp [List.getElem?_take, hlt], by omega⟩
    have hevalform : ∀ s c, s < t.numStates → c < t.alphabetSize →
        ∃ b x, t.base[s]? = some b ∧ t.check[b + c]? = some x ∧
          (buildWith t mx).eval s c = if x = s then t.value[b + c]? else t.default[s]? := by
      intro s c hsn hcl
      have hsb : s < t.base.length := by rw [hs.blen]; exact hsn
      obtain ⟨r1, r2, r3⟩ := hread s t.base[s] c (List.getElem?_eq_getElem hsb) hcl
      refine ⟨t.base[s], t.check[t.base[s] + c], List.getElem?_eq_getElem hsb,
        List.getElem?_eq_getElem r3, ?_⟩
      simp only [CompactTable.eval, buildWith, List.getElem?_eq_getElem hsb, r1, r2,
        List.getElem?_eq_getElem r3]
    refine ⟨buildWith t mx, by simp [build, hm, buildWith], rfl, rfl, ?_, ?_⟩
    · intro s c hsn hcl
      obtain ⟨b, x, h1, h2, h3⟩ := hevalform s c hsn hcl
      rw [h3]
      split
      · have hlt := (List.getElem?_eq_some_iff.1 h2).1
        exact ⟨t.value[b + c]'(by rw [hs.vlen]; exact hlt), by
          simp [List.getElem?_eq_getElem (by rw [hs.vlen]; exact hlt : b + c < t.value.length)]⟩
      · exact ⟨t.default[s]'(by rw [hs.dlen]; exact hsn), by
          simp [List.getElem?_eq_getElem (by rw [hs.dlen]; exact hsn : s < t.default.length)]⟩
    · intro s row hsr c hcl
      obtain ⟨hsn, hgood, hst⟩ := hc.stored s row hsr
      obtain ⟨b, x, h1, h2, h3⟩ := hevalform s c hsn hcl
      rw [h3]
      constructor
      · intro v hv
        obtain ⟨g1, g2⟩ := hst c v b hv h1
        rw [g1] at h2
        cases h2
        simp [g2]
      · intro hnone
        have hx : x ≠ s := by
          intro e
          subst e
          rcases hc.owned _ _ h2 with h | ⟨s', row', c', v', b', g1, g2, g3, g4, g5, g6⟩
          · omega
          · -- the owner is `s` itself: same row, same base, same character
            subst g5
            have hrow : row' = row := unique_row hc.distinct hsr g1
            subst hrow
            rw [g3] at h1
            cases h1
            have : c' = c := by omega
            subst this
            exact hnone v' g2
        simp [hx]

end Smt.CompactTableBuilder
