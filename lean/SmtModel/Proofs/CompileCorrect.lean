/-
  Helper lemmas for C02: the builder state reached by the BFS loop of `compile_with_bound`
  (Model/Compile.lean `compileLoop`) is EXACTLY `Builder.run 0 ops` for an explicit list `ops` of
  builder calls (`compileOps`), determined by the derivative closure `l` alone:

    for the `i`-th term `r = l[i]`, in this order
      * one `add_transition(i, S, idx(deriv r S.start))` per interval `S` of `r.derivClass`,
      * `set_default_successor(i, idx(deriv r comp_witness))` iff the complementary class is non-empty,
      * `mark_final(i)` iff `r` is nullable,
    where `idx x` is the position of `x` in `l`; and keys are mentioned in the order `0, 1, 2, …`
    (so the builder's id of key `k` is `k`).

  From there the C13 theory of call sequences applies: the specification is `Valid`, so
  `build_unchecked` succeeds, `next` follows `specDelta`, and `specDelta` of state `i` on `c` is
  `idx (deriv l[i] c)` for EVERY character `c ≤ MAX_CHAR`.

  Hypotheses: the derivative bundle `ClosureFacts ord Good` of Proofs/Closure.lean plus
  `∀ e, Good e → e.derivClass.WF` (both discharged in Props/C02.lean for `Good e := e.WF ∧ e.NZ`).
-/
import SmtModel.Props.C14
import SmtModel.Props.C11
import SmtModel.Proofs.Closure

namespace Smt
namespace RE
open BuilderSpec

variable {ord : RE → Nat} {Good : RE → Prop}

/-! ### `idxOf` -/

theorem idxOf_lt {l : List RE} {x : RE} (h : x ∈ l) : idxOf l x < l.length := by
  unfold idxOf
  exact List.findIdx_lt_length_of_exists ⟨x, h, by simp⟩

theorem idxOf_getElem {l : List RE} {x : RE} (h : x ∈ l) : l[idxOf l x]'(idxOf_lt h) = x := by
  have := List.findIdx_getElem (p := fun y => decide (y = x)) (xs := l) (w := idxOf_lt h)
  simp only [decide_eq_true_eq] at this
  exact this

theorem idxOf_getElem? {l : List RE} {x : RE} (h : x ∈ l) : l[idxOf l x]? = some x := by
  rw [List.getElem?_eq_getElem (idxOf_lt h), idxOf_getElem h]

theorem idxOf_prefix {all l : List RE} (hp : all <+: l) {x : RE} (hx : x ∈ all) :
    idxOf all x = idxOf l x := by
  obtain ⟨ext, rfl⟩ := hp
  have := idxOf_lt hx
  unfold idxOf at this ⊢
  rw [List.findIdx_append, if_pos this]

theorem idxOf_getElem_nodup {l : List RE} (hn : l.Nodup) {i : Nat} (hi : i < l.length) :
    idxOf l l[i] = i := by
  have hm : l[i] ∈ l := List.getElem_mem hi
  have h1 := idxOf_getElem hm
  exact (List.Nodup.getElem_inj_iff hn).1 h1

/-! ### keys mentioned in the order `0, 1, 2, …` -/

theorem keys_snoc_add {k0 : Nat} {ops : List BuilderOp} {m k k' : Nat} (set : CharSet)
    (h : keys k0 ops = List.range m) (hk : k < m) (hk' : k' ≤ m) :
    keys k0 (ops ++ [.addTransition k set k']) = List.range (max m (k' + 1)) := by
  rw [keys_snoc, h]
  simp only [keysOf, addKeys_cons, addKeys_nil]
  rw [addKey1_range (by omega), addKey1_range (by omega)]
  congr 1
  omega

theorem keys_snoc_default {k0 : Nat} {ops : List BuilderOp} {m k k' : Nat}
    (h : keys k0 ops = List.range m) (hk : k < m) (hk' : k' ≤ m) :
    keys k0 (ops ++ [.setDefault k k']) = List.range (max m (k' + 1)) := by
  rw [keys_snoc, h]
  simp only [keysOf, addKeys_cons, addKeys_nil]
  rw [addKey1_range (by omega), addKey1_range (by omega)]
  congr 1
  omega

theorem keys_snoc_final {k0 : Nat} {ops : List BuilderOp} {m k : Nat}
    (h : keys k0 ops = List.range m) (hk : k < m) :
    keys k0 (ops ++ [.markFinal k]) = List.range m := by
  rw [keys_snoc, h]
  simp only [keysOf, addKeys_cons, addKeys_nil]
  rw [addKey1_range (by omega)]
  congr 1
  omega

theorem run_append (k0 : Nat) (ops ops' : List BuilderOp) :
    Builder.run k0 (ops ++ ops') = ops'.foldl Builder.step (Builder.run k0 ops) := by
  simp [Builder.run, List.foldl_append]

/-! ### the builder calls of `compile_with_bound`, as a function of the closure `l` -/

/-- targets of the class derivatives of `r`, in `class_ids()` order -/
def classTargets (ord : RE → Nat) (r : RE) : List RE :=
  r.derivClass.list.map (fun s => deriv ord r s.start) ++
    (if r.derivClass.emptyComplement then [] else [deriv ord r r.derivClass.compWitness])

/-- the transitions given for the `i`-th term `r`: `(S, idx (deriv r S.start))`, one per interval -/
def stateTrans (ord : RE → Nat) (l : List RE) (r : RE) : List (CharSet × Nat) :=
  r.derivClass.list.map (fun s => (s, idxOf l (deriv ord r s.start)))

def transOps (ord : RE → Nat) (l : List RE) (i : Nat) (r : RE) : List BuilderOp :=
  r.derivClass.list.map (fun s => BuilderOp.addTransition i s (idxOf l (deriv ord r s.start)))

def defaultOps (ord : RE → Nat) (l : List RE) (i : Nat) (r : RE) : List BuilderOp :=
  if r.derivClass.emptyComplement then []
  else [BuilderOp.setDefault i (idxOf l (deriv ord r r.derivClass.compWitness))]

def finalOps (i : Nat) (r : RE) : List BuilderOp :=
  if r.nullable then [BuilderOp.markFinal i] else []

/-- the calls made while the `i`-th term `r` is processed -/
def stateOps (ord : RE → Nat) (l : List RE) (i : Nat) (r : RE) : List BuilderOp :=
  transOps ord l i r ++ defaultOps ord l i r ++ finalOps i r

/-- all calls made while the first `n` terms of `l` are processed -/
def compileOps (ord : RE → Nat) (l : List RE) (n : Nat) : List BuilderOp :=
  (List.range n).flatMap (fun i =>
    match l[i]? with
    | some r => stateOps ord l i r
    | none => [])

theorem compileOps_zero (l : List RE) : compileOps ord l 0 = [] := rfl

theorem compileOps_succ' (l : List RE) (n : Nat) :
    compileOps ord l (n + 1) = compileOps ord l n ++
      (match l[n]? with
       | some r => stateOps ord l n r
       | none => []) := by
  simp [compileOps, List.range_succ, List.flatMap_append]

theorem compileOps_succ {l : List RE} {n : Nat} {r : RE} (h : l[n]? = some r) :
    compileOps ord l (n + 1) = compileOps ord l n ++ stateOps ord l n r := by
  rw [compileOps_succ', h]

/-! ### the class derivatives, through their representatives -/

theorem setDeriv_interval (F : ClosureFacts ord Good) {r : RE} (hg : Good r) {j : Nat}
    {s : CharSet} (hs : r.derivClass.list[j]? = some s) :
    setDerivativeUnchecked ord r s = some (deriv ord r s.start) := by
  obtain ⟨hj, hjs⟩ := List.getElem?_eq_some_iff.1 hs
  have hcid : ClassId.interval j ∈ r.derivClass.classIds := by
    simp only [CharPartition.classIds, List.mem_append, List.mem_map, List.mem_range]
    exact .inl ⟨j, hj, rfl⟩
  obtain ⟨c, _, hp, _, hcd⟩ := cachedDeriv_of_mem F hg hcid
  have hc : c = s.start := by
    simp only [CharPartition.pickInClass, CharPartition.pick, hs, Option.map_some,
      Option.some.injEq] at hp
    exact hp.symm
  subst hc
  unfold setDerivativeUnchecked
  rw [F.class_set r j s hg hs]
  exact hcd

theorem complDeriv (F : ClosureFacts ord Good) {r : RE} (hg : Good r)
    (hec : r.derivClass.emptyComplement = false) :
    classDerivativeUnchecked ord r .complement =
      some (deriv ord r r.derivClass.compWitness) := by
  have hcid : ClassId.complement ∈ r.derivClass.classIds := by
    simp [CharPartition.classIds, hec]
  obtain ⟨c, _, hp, _, hcd⟩ := cachedDeriv_of_mem F hg hcid
  have hc : c = r.derivClass.compWitness := by
    simp only [CharPartition.pickInClass, hec, Bool.false_eq_true, if_false,
      CharPartition.pickComplement, Option.some.injEq] at hp
    exact hp.symm
  subst hc
  exact hcd

/-- pushing a list of terms -/
def pushL (all : List RE) (xs : List RE) : List RE := xs.foldl bfsPush all

theorem pushL_nil (all : List RE) : pushL all [] = all := rfl
theorem pushL_cons (all : List RE) (x : RE) (xs : List RE) :
    pushL all (x :: xs) = pushL (bfsPush all x) xs := rfl
theorem pushL_append (all : List RE) (xs ys : List RE) :
    pushL all (xs ++ ys) = pushL (pushL all xs) ys := by
  simp [pushL, List.foldl_append]

theorem pushAll_eq_pushL (all : List RE) (ds : List (ClassId × RE)) :
    pushAll all ds = pushL all (ds.map (·.2)) := by
  simp [pushAll, pushL, List.foldl_map]

theorem pushL_prefix (all : List RE) (xs : List RE) : all <+: pushL all xs := by
  induction xs generalizing all with
  | nil => exact List.prefix_refl _
  | cons x xs ih => exact (bfsPush_prefix all x).trans (ih _)

theorem forall₂_map_eq {α β γ} {f : α → Option γ} {g' : β → γ} {g : α → γ} {l1 : List α}
    {l2 : List β} (h : List.Forall₂ (fun a b => f a = some (g' b)) l1 l2)
    (hg : ∀ a ∈ l1, f a = some (g a)) : l2.map g' = l1.map g := by
  induction h with
  | nil => rfl
  | @cons a b l1 l2 hab _ ih =>
    have := hg a (by simp)
    rw [hab] at this
    simp only [List.map_cons, Option.some.inj this, ih (fun a' ha' => hg a' (by simp [ha']))]

/-- the targets pushed by one `next()` of the derivative iterator are `classTargets` -/
theorem classDerivs_targets (F : ClosureFacts ord Good) {r : RE} (hg : Good r)
    {ds : List (ClassId × RE)} (hds : classDerivs ord r = some ds) :
    ds.map (·.2) = classTargets ord r := by
  obtain ⟨ds1, ds2, rfl, hf, h2⟩ := classDerivs_split F hg hds
  have h1 : ds1.map (·.2) = r.derivClass.list.map (fun s => deriv ord r s.start) := by
    apply forall₂_map_eq hf
    intro s hs
    obtain ⟨j, hj, rfl⟩ := List.getElem_of_mem hs
    exact setDeriv_interval F hg (List.getElem?_eq_getElem hj)
  unfold classTargets
  rw [List.map_append, h1]
  rcases h2 with ⟨hec, rfl⟩ | ⟨hec, d, rfl, hd⟩
  · simp [hec]
  · rw [complDeriv F hg hec] at hd
    simp [hec, ← Option.some.inj hd]

theorem pushAll_classTargets (F : ClosureFacts ord Good) {r : RE} (hg : Good r)
    {ds : List (ClassId × RE)} (hds : classDerivs ord r = some ds) (all : List RE) :
    pushAll all ds = pushL all (classTargets ord r) := by
  rw [pushAll_eq_pushL, classDerivs_targets F hg hds]

/-! ### `compileRanges` with the exact builder -/

theorem compileRanges_run {r : RE} {kr : Nat} {l : List RE} :
    ∀ (sets : List CharSet),
      (∀ s ∈ sets, setDerivativeUnchecked ord r s = some (deriv ord r s.start)) →
      ∀ (all : List RE) (b : Builder) (ops : List BuilderOp), kr < all.length →
      pushL all (sets.map (fun s => deriv ord r s.start)) <+: l →
      keys 0 ops = List.range all.length →
      compileRanges ord r kr sets all b =
        some (pushL all (sets.map (fun s => deriv ord r s.start)),
          (sets.map (fun s => BuilderOp.addTransition kr s
            (idxOf l (deriv ord r s.start)))).foldl Builder.step b) ∧
      keys 0 (ops ++ sets.map (fun s => BuilderOp.addTransition kr s
            (idxOf l (deriv ord r s.start)))) =
        List.range (pushL all (sets.map (fun s => deriv ord r s.start))).length := by
  intro sets
  induction sets with
  | nil =>
    intro _ all b ops _ _ hk
    simp only [List.map_nil, pushL_nil, List.foldl_nil, List.append_nil]
    exact ⟨rfl, hk⟩
  | cons set rest ih =>
    intro hsets all b ops hkr hpre hk
    have hd := hsets set (by simp)
    simp only [List.map_cons, pushL_cons] at hpre ⊢
    rw [compileRanges, hd]
    simp only
    have hlen : all.length ≤ (bfsPush all (deriv ord r set.start)).length :=
      (bfsPush_prefix all _).length_le
    obtain ⟨h1, h2⟩ := idxOf_bfsPush all (deriv ord r set.start)
    have hidx : idxOf (bfsPush all (deriv ord r set.start)) (deriv ord r set.start) =
        idxOf l (deriv ord r set.start) :=
      idxOf_prefix ((pushL_prefix _ _).trans hpre) (mem_bfsPush.2 (.inr rfl))
    rw [hidx] at h1 h2 ⊢
    have hk' := keys_snoc_add set hk hkr h1
    rw [h2] at hk'
    obtain ⟨ih1, ih2⟩ := ih (fun s hs => hsets s (by simp [hs])) _
      (b.addTransition kr set (idxOf l (deriv ord r set.start)))
      (ops ++ [.addTransition kr set (idxOf l (deriv ord r set.start))]) (by omega) hpre hk'
    refine ⟨?_, ?_⟩
    · rw [ih1]
      rfl
    · rw [← ih2]
      simp

/-! ### one iteration of the BFS loop, with the exact builder -/

theorem compileLoop_step_run (F : ClosureFacts ord Good) {r : RE} (hg : Good r) {all l : List RE}
    {i : Nat} (hr : all[i]? = some r) {ds : List (ClassId × RE)}
    (hds : classDerivs ord r = some ds) (hpre : pushAll all ds <+: l)
    (hk : keys 0 (compileOps ord l i) = List.range all.length) {maxStates : Nat}
    (hne : i ≠ maxStates) (fuel : Nat) :
    keys 0 (compileOps ord l (i + 1)) = List.range (pushAll all ds).length ∧
    compileLoop ord maxStates (fuel + 1) all i (Builder.run 0 (compileOps ord l i)) =
      compileLoop ord maxStates fuel (pushAll all ds) (i + 1)
        (Builder.run 0 (compileOps ord l (i + 1))) := by
  obtain ⟨hi, _⟩ := List.getElem?_eq_some_iff.1 hr
  have hall : all <+: l := (pushAll_prefix all ds).trans hpre
  have hlr : l[i]? = some r := by
    obtain ⟨ext, rfl⟩ := hall
    rw [List.getElem?_append_left hi]; exact hr
  rw [pushAll_classTargets F hg hds] at hpre ⊢
  unfold classTargets at hpre ⊢
  rw [pushL_append] at hpre ⊢
  have hpre1 : pushL all (r.derivClass.list.map fun s => deriv ord r s.start) <+: l :=
    (pushL_prefix _ _).trans hpre
  obtain ⟨hc1, hk1⟩ := compileRanges_run (ord := ord) (r := r) (kr := i) (l := l)
    r.derivClass.list (fun s hs => by
      obtain ⟨j, hj, rfl⟩ := List.getElem_of_mem hs
      exact setDeriv_interval F hg (List.getElem?_eq_getElem hj))
    all (Builder.run 0 (compileOps ord l i)) (compileOps ord l i) hi hpre1 hk
  have hlen1 : all.length ≤
      (pushL all (r.derivClass.list.map fun s => deriv ord r s.start)).length :=
    (pushL_prefix _ _).length_le
  have hbeq : (i == maxStates) = false := by simpa using hne
  rw [compileLoop]
  simp only [hr, hbeq, hc1, Bool.false_eq_true, if_false]
  rw [← run_append, compileOps_succ hlr]
  change keys 0 (compileOps ord l i ++ transOps ord l i r) = _ at hk1
  generalize pushL all (r.derivClass.list.map fun s => deriv ord r s.start) = all1 at *
  cases hec : r.derivClass.emptyComplement with
  | true =>
    have hd0 : defaultOps ord l i r = [] := by simp [defaultOps, hec]
    simp only [Bool.not_true, Bool.false_eq_true, if_false, if_true, pushL_nil]
    by_cases hn : r.nullable = true
    · have hf : finalOps i r = [.markFinal i] := by simp [finalOps, hn]
      simp only [hn, if_true, stateOps, hd0, hf, List.append_nil, ← List.append_assoc]
      refine ⟨keys_snoc_final hk1 (by omega), ?_⟩
      rw [run_append (ops' := [BuilderOp.markFinal i])]
      rfl
    · have hf : finalOps i r = [] := by simp [finalOps, hn]
      simp only [hn, Bool.false_eq_true, if_false, stateOps, hd0, hf, List.append_nil]
      exact ⟨hk1, rfl⟩
  | false =>
    have hd0 : defaultOps ord l i r =
        [.setDefault i (idxOf l (deriv ord r r.derivClass.compWitness))] := by
      simp [defaultOps, hec]
    rw [hec] at hpre
    simp only [Bool.false_eq_true, if_false, pushL_cons, pushL_nil] at hpre
    simp only [Bool.not_false, if_true, complDeriv F hg hec, Bool.false_eq_true, if_false,
      pushL_cons, pushL_nil]
    obtain ⟨h1, h2⟩ := idxOf_bfsPush all1 (deriv ord r r.derivClass.compWitness)
    have hidx : idxOf (bfsPush all1 (deriv ord r r.derivClass.compWitness))
        (deriv ord r r.derivClass.compWitness) =
        idxOf l (deriv ord r r.derivClass.compWitness) :=
      idxOf_prefix hpre (mem_bfsPush.2 (.inr rfl))
    rw [hidx] at h1 h2 ⊢
    have hk2 := keys_snoc_default hk1 (k := i) (by omega) h1
    rw [h2] at hk2
    have hlen2 : all1.length ≤ (bfsPush all1 (deriv ord r r.derivClass.compWitness)).length :=
      (bfsPush_prefix _ _).length_le
    by_cases hn : r.nullable = true
    · have hf : finalOps i r = [.markFinal i] := by simp [finalOps, hn]
      simp only [hn, if_true, stateOps, hd0, hf, ← List.append_assoc]
      refine ⟨keys_snoc_final hk2 (by omega), ?_⟩
      rw [run_append (ops' := [BuilderOp.markFinal i]),
        run_append (ops' := [BuilderOp.setDefault i _])]
      rfl
    · have hf : finalOps i r = [] := by simp [finalOps, hn]
      simp only [hn, Bool.false_eq_true, if_false, stateOps, hd0, hf, List.append_nil,
        ← List.append_assoc]
      refine ⟨hk2, ?_⟩
      rw [run_append (ops' := [BuilderOp.setDefault i _])]
      rfl

/-! ### the whole loop -/

/-- the builder returned by the BFS loop is the one reached by the call sequence `compileOps`, and
    the keys were first mentioned in the order `0, 1, …, l.length - 1` -/
theorem compileLoop_run (F : ClosureFacts ord Good) {e : RE} (hg : Good e) (maxStates : Nat)
    {l : List RE} :
    ∀ (fuel : Nat) (all : List RE) (i : Nat) (fuel' : Nat),
      BInv ord e all i → iterLoop ord fuel' all i = .ok l →
      keys 0 (compileOps ord l i) = List.range all.length →
      ∀ b', compileLoop ord maxStates fuel all i (Builder.run 0 (compileOps ord l i)) =
          .ok (some b') →
        b' = Builder.run 0 (compileOps ord l l.length) ∧
        keys 0 (compileOps ord l l.length) = List.range l.length := by
  intro fuel
  induction fuel with
  | zero => intro all i fuel' _ _ _ b' h; simp [compileLoop] at h
  | succ fuel ih =>
    intro all i fuel' h hit hk b' hc
    cases fuel' with
    | zero => simp [iterLoop] at hit
    | succ fuel' =>
      rw [iterLoop] at hit
      cases hr : all[i]? with
      | none =>
        rw [hr] at hit
        cases hit
        rw [compileLoop] at hc
        simp only [hr, Res.ok.injEq, Option.some.injEq] at hc
        have h1 : l.length ≤ i := List.getElem?_eq_none_iff.1 hr
        have h2 := h.le
        have : i = l.length := by omega
        subst this
        exact ⟨hc.symm, hk⟩
      | some r =>
        rw [hr] at hit
        simp only at hit
        have hgr := h.good_at F hg hr
        obtain ⟨ds, hds⟩ := classDerivs_isSome F hgr
        rw [hds] at hit
        have hstep := h.step F hg hr hds
        have hpre : pushAll all ds <+: l := ((iterLoop_spec F hg _ _ _ hstep).2 l hit).2
        by_cases hmax : i = maxStates
        · rw [compileLoop] at hc
          have hbeq : (i == maxStates) = true := by simpa using hmax
          simp [hr, hbeq] at hc
        · obtain ⟨hk', heq⟩ := compileLoop_step_run F hgr hr hds hpre hk hmax fuel
          rw [heq] at hc
          exact ih _ _ fuel' hstep hit hk' b' hc

/-- **the builder state of `compile_with_bound`** -/
theorem compileLoop_builder (F : ClosureFacts ord Good) {e : RE} (hg : Good e)
    {n fuel fuel' : Nat} {l : List RE} {b : Builder}
    (hl : iterDerivatives ord fuel' e = .ok l)
    (hc : compileLoop ord n fuel [e] 0 (Builder.new 0) = .ok (some b)) :
    b = Builder.run 0 (compileOps ord l l.length) ∧
    keys 0 (compileOps ord l l.length) = List.range l.length :=
  compileLoop_run F hg n fuel [e] 0 fuel' (BInv.init e) hl rfl b hc

/-! ### what the call sequence specifies: transitions, default, final flag of every key -/

theorem transitions_append (ops ops' : List BuilderOp) (k : Nat) :
    transitions (ops ++ ops') k = transitions ops k ++ transitions ops' k := by
  simp [transitions, List.filterMap_append]

theorem defaults_append (ops ops' : List BuilderOp) (k : Nat) :
    defaults (ops ++ ops') k = defaults ops k ++ defaults ops' k := by
  simp [defaults, List.filterMap_append]

theorem final_append (ops ops' : List BuilderOp) (k : Nat) :
    final (ops ++ ops') k = (final ops k || final ops' k) := by
  simp [final, List.any_append]

/-- the default successor declared for the `i`-th term -/
def stateDefaults (ord : RE → Nat) (l : List RE) (r : RE) : List Nat :=
  if r.derivClass.emptyComplement then []
  else [idxOf l (deriv ord r r.derivClass.compWitness)]

theorem transitions_stateOps (l : List RE) (i : Nat) (r : RE) (k : Nat) :
    transitions (stateOps ord l i r) k = if i = k then stateTrans ord l r else [] := by
  have h1 : transitions (transOps ord l i r) k = if i = k then stateTrans ord l r else [] := by
    unfold transitions transOps stateTrans
    rw [List.filterMap_map]
    by_cases h : i = k
    · simp [h]
    · simp [h]
  have h2 : transitions (defaultOps ord l i r) k = [] := by
    unfold defaultOps; split <;> simp [transitions]
  have h3 : transitions (finalOps i r) k = [] := by
    unfold finalOps; split <;> simp [transitions]
  simp [stateOps, transitions_append, h1, h2, h3]

theorem defaults_stateOps (l : List RE) (i : Nat) (r : RE) (k : Nat) :
    defaults (stateOps ord l i r) k = if i = k then stateDefaults ord l r else [] := by
  have h1 : defaults (transOps ord l i r) k = [] := by
    unfold defaults transOps
    rw [List.filterMap_map]
    simp
  have h2 : defaults (defaultOps ord l i r) k = if i = k then stateDefaults ord l r else [] := by
    unfold defaultOps stateDefaults
    by_cases h : i = k <;> split <;> simp [defaults, h]
  have h3 : defaults (finalOps i r) k = [] := by
    unfold finalOps; split <;> simp [defaults]
  simp [stateOps, defaults_append, h1, h2, h3]

theorem final_stateOps (l : List RE) (i : Nat) (r : RE) (k : Nat) :
    final (stateOps ord l i r) k = (decide (i = k) && r.nullable) := by
  have h1 : final (transOps ord l i r) k = false := by
    simp [final, transOps]
  have h2 : final (defaultOps ord l i r) k = false := by
    unfold defaultOps; split <;> simp [final]
  have h3 : final (finalOps i r) k = (decide (i = k) && r.nullable) := by
    unfold finalOps
    cases r.nullable <;> simp [final]
  simp [stateOps, final_append, h1, h2, h3]

theorem transitions_compileOps (l : List RE) (n k : Nat) :
    transitions (compileOps ord l n) k =
      if k < n then (match l[k]? with
        | some r => stateTrans ord l r
        | none => []) else [] := by
  induction n with
  | zero => simp [compileOps_zero, transitions]
  | succ n ih =>
    rw [compileOps_succ', transitions_append, ih]
    rcases Nat.lt_trichotomy k n with h | h | h
    · rw [if_pos h, if_pos (by omega)]
      cases l[n]? with
      | none => simp [transitions]
      | some r => simp [transitions_stateOps, show ¬ n = k by omega]
    · subst h
      rw [if_neg (by omega), if_pos (by omega)]
      cases l[k]? with
      | none => simp [transitions]
      | some r => simp [transitions_stateOps]
    · rw [if_neg (by omega), if_neg (by omega)]
      cases l[n]? with
      | none => simp [transitions]
      | some r => simp [transitions_stateOps, show ¬ n = k by omega]

theorem defaults_compileOps (l : List RE) (n k : Nat) :
    defaults (compileOps ord l n) k =
      if k < n then (match l[k]? with
        | some r => stateDefaults ord l r
        | none => []) else [] := by
  induction n with
  | zero => simp [compileOps_zero, defaults]
  | succ n ih =>
    rw [compileOps_succ', defaults_append, ih]
    rcases Nat.lt_trichotomy k n with h | h | h
    · rw [if_pos h, if_pos (by omega)]
      cases l[n]? with
      | none => simp [defaults]
      | some r => simp [defaults_stateOps, show ¬ n = k by omega]
    · subst h
      rw [if_neg (by omega), if_pos (by omega)]
      cases l[k]? with
      | none => simp [defaults]
      | some r => simp [defaults_stateOps]
    · rw [if_neg (by omega), if_neg (by omega)]
      cases l[n]? with
      | none => simp [defaults]
      | some r => simp [defaults_stateOps, show ¬ n = k by omega]

theorem final_compileOps (l : List RE) (n k : Nat) :
    final (compileOps ord l n) k =
      (decide (k < n) && (match l[k]? with
        | some r => r.nullable
        | none => false)) := by
  induction n with
  | zero => simp [compileOps_zero, final]
  | succ n ih =>
    rw [compileOps_succ', final_append, ih]
    rcases Nat.lt_trichotomy k n with h | h | h
    · have h1 : decide (k < n) = true := by simpa using h
      have h2 : decide (k < n + 1) = true := by simp; omega
      rw [h1, h2]
      cases l[n]? with
      | none => simp [final]
      | some r => simp [final_stateOps, show ¬ n = k by omega]
    · subst h
      have h1 : decide (k < k) = false := by simp
      have h2 : decide (k < k + 1) = true := by simp
      rw [h1, h2]
      cases l[k]? with
      | none => simp [final]
      | some r => simp [final_stateOps]
    · have h1 : decide (k < n) = false := by simp; omega
      have h2 : decide (k < n + 1) = false := by simp; omega
      rw [h1, h2]
      cases l[n]? with
      | none => simp [final]
      | some r => simp [final_stateOps, show ¬ n = k by omega]

section spec
variable {l : List RE} {k : Nat} {r : RE}

theorem transitions_cops (hk : l[k]? = some r) :
    transitions (compileOps ord l l.length) k = stateTrans ord l r := by
  obtain ⟨hlt, _⟩ := List.getElem?_eq_some_iff.1 hk
  rw [transitions_compileOps, if_pos hlt, hk]

theorem default_cops (hk : l[k]? = some r) :
    BuilderSpec.default (compileOps ord l l.length) k =
      if r.derivClass.emptyComplement then none
      else some (idxOf l (deriv ord r r.derivClass.compWitness)) := by
  obtain ⟨hlt, _⟩ := List.getElem?_eq_some_iff.1 hk
  unfold BuilderSpec.default
  rw [defaults_compileOps, if_pos hlt, hk]
  simp only [stateDefaults]
  split <;> simp

theorem final_cops (hk : l[k]? = some r) :
    final (compileOps ord l l.length) k = r.nullable := by
  obtain ⟨hlt, _⟩ := List.getElem?_eq_some_iff.1 hk
  rw [final_compileOps, hk]
  simp [hlt]

end spec

/-! ### the specification is valid, and its delta is the derivative -/

theorem mem_transitions_of_mem {ops : List BuilderOp} {k k' : Nat} {set : CharSet}
    (h : BuilderOp.addTransition k set k' ∈ ops) : (set, k') ∈ transitions ops k := by
  unfold transitions
  exact List.mem_filterMap.2 ⟨_, h, by simp⟩

theorem deriv_congr_class (F : ClosureFacts ord Good) {r : RE} (hg : Good r) {c c' : Nat}
    (hc : c ≤ MAX_CHAR) (hc' : c' ≤ MAX_CHAR)
    (h : r.derivClass.classOfChar c = r.derivClass.classOfChar c') :
    deriv ord r c = deriv ord r c' := by
  have h1 := cachedDeriv_classOfChar F hg hc
  have h2 := cachedDeriv_classOfChar F hg hc'
  rw [h, h2] at h1
  exact (Option.some.inj h1).symm

section valid
variable {l : List RE}

theorem wfOps_cops (hcw : ∀ e, Good e → e.derivClass.WF) (hgood : ∀ x ∈ l, Good x) :
    C13.WFOps (compileOps ord l l.length) := by
  intro k set k' hmem
  have ht := mem_transitions_of_mem hmem
  rw [transitions_compileOps] at ht
  split at ht
  · rename_i hk
    rw [List.getElem?_eq_getElem hk] at ht
    simp only [stateTrans, List.mem_map, Prod.mk.injEq] at ht
    obtain ⟨s, hs, rfl, _⟩ := ht
    exact (hcw _ (hgood _ (List.getElem_mem hk))).1.1 s hs
  · cases ht

theorem labels_cops {k : Nat} {r : RE} (hr : l[k]? = some r) :
    (transitions (compileOps ord l l.length) k).map (·.1) = r.derivClass.list := by
  rw [transitions_cops hr]
  simp [stateTrans, List.map_map, Function.comp_def]

theorem uncovered_cops {k : Nat} {r : RE} (hr : l[k]? = some r) (c : Nat) :
    C13.Uncovered (compileOps ord l l.length) k c ↔ ¬ CharPartition.InList r.derivClass.list c := by
  unfold C13.Uncovered
  rw [transitions_cops hr]
  simp only [stateTrans, List.mem_map, forall_exists_index, and_imp, CharPartition.InList,
    not_exists, not_and]
  constructor
  · intro h s hs hc
    have := h _ s hs rfl
    simp only [CharSet.contains, Bool.and_eq_false_iff, decide_eq_false_iff_not] at this
    omega
  · rintro h _ s hs rfl
    have := h s hs
    simp only [CharSet.contains, Bool.and_eq_false_iff, decide_eq_false_iff_not]
    omega

theorem valid_cops (hcw : ∀ e, Good e → e.derivClass.WF) (hgood : ∀ x ∈ l, Good x)
    (hkeys : keys 0 (compileOps ord l l.length) = List.range l.length) :
    C13.Valid 0 (compileOps ord l l.length) := by
  intro k hk
  rw [hkeys, List.mem_range] at hk
  have hr : l[k]? = some l[k] := List.getElem?_eq_getElem hk
  have hp := hcw _ (hgood _ (List.getElem_mem hk))
  refine ⟨?_, ?_⟩
  · unfold C13.LabelsDisjoint
    rw [labels_cops hr]
    refine hp.1.2.imp ?_
    intro s t hst c
    simp only [CharSet.contains, Bool.and_eq_true, decide_eq_true_eq]
    omega
  · rw [default_cops hr]
    unfold C13.LeavesUncovered
    have hec := C11.empty_complement_iff _ hp
    constructor
    · intro h
      have hne : l[k].derivClass.emptyComplement = false := by
        cases hh : l[k].derivClass.emptyComplement with
        | false => rfl
        | true => rw [hh] at h; simp at h
      refine Classical.byContradiction fun hn => ?_
      have : l[k].derivClass.emptyComplement = true := by
        rw [hec]
        intro x hx
        refine Classical.byContradiction fun hx' => hn ⟨x, hx, (uncovered_cops hr x).2 hx'⟩
      rw [hne] at this
      cases this
    · rintro ⟨c, hc, hu⟩
      have hne : l[k].derivClass.emptyComplement = false := by
        cases hh : l[k].derivClass.emptyComplement with
        | false => rfl
        | true => exact absurd (hec.1 hh c hc) ((uncovered_cops hr c).1 hu)
      simp [hne]

/-- **delta of the specification**: for EVERY character of the alphabet, the target the call
    sequence specifies for the `k`-th term `r` is the index of `deriv r c` -/
theorem specDelta_cops (F : ClosureFacts ord Good) (hcw : ∀ e, Good e → e.derivClass.WF)
    {k : Nat} {r : RE} (hr : l[k]? = some r) (hg : Good r) {c : Nat} (hc : c ≤ MAX_CHAR) :
    specDelta (compileOps ord l l.length) k c = some (idxOf l (deriv ord r c)) := by
  have hp := hcw r hg
  obtain ⟨hcs1, hcs2, _⟩ := C11.class_of_char_spec _ hp c
  unfold specDelta
  rw [transitions_cops hr, default_cops hr]
  unfold stateTrans
  rw [List.find?_map]
  cases hf : List.find? ((fun t : CharSet × Nat => t.1.contains c) ∘
      fun s => (s, idxOf l (deriv ord r s.start))) r.derivClass.list with
  | some s =>
    have hsm := List.mem_of_find?_eq_some hf
    have hsc := List.find?_some hf
    simp only [Function.comp_apply, CharSet.contains, Bool.and_eq_true, decide_eq_true_eq] at hsc
    obtain ⟨j, hj, rfl⟩ := List.getElem_of_mem hsm
    have hw := hp.1.get_wf hj
    have h1 : r.derivClass.classOfChar c = .interval j := (hcs1 j).2 ⟨hj, hsc⟩
    have h2 : r.derivClass.classOfChar r.derivClass.list[j].start = .interval j :=
      ((C11.class_of_char_spec _ hp _).1 j).2 ⟨hj, Nat.le_refl _, hw.1⟩
    simp only [Option.map_some]
    rw [deriv_congr_class F hg (c := r.derivClass.list[j].start) (c' := c) (by omega) hc
      (h2.trans h1.symm)]
  | none =>
    simp only [Option.map_none]
    have hnone := List.find?_eq_none.1 hf
    have hcompl : r.derivClass.classOfChar c = .complement := by
      rw [hcs2]
      intro s hs hcs
      have := hnone s hs
      simp only [Function.comp_apply, CharSet.contains, Bool.and_eq_true, decide_eq_true_eq] at this
      exact this hcs
    have hne : r.derivClass.emptyComplement = false := by
      cases hh : r.derivClass.emptyComplement with
      | false => rfl
      | true =>
        obtain ⟨s, hs, hcs⟩ := (C11.empty_complement_iff _ hp).1 hh c hc
        exact absurd hcs (hcs2.1 hcompl s hs)
    obtain ⟨hw1, hw2⟩ := C11.pick_complement_mem _ hp hne
    simp only [hne, Bool.false_eq_true, if_false]
    rw [deriv_congr_class F hg (c := r.derivClass.compWitness) (c' := c) hw1 hc
      (hw2.trans hcompl.symm)]

end valid

/-! ### the automaton built -/

/-- What C02 says about an automaton `A` compiled from the derivative closure `l`:
    state `i` IS the `i`-th derivative. -/
structure Compiled (ord : RE → Nat) (l : List RE) (A : Automaton) : Prop where
  /-- the structural invariant of Proofs/AutomatonOps.lean: ids are positions, every state's
      `classes` is a well-formed partition (sorted, pairwise disjoint intervals) with one successor
      per interval, every successor index and default is a valid state, a default exists exactly
      when the complementary class is non-empty -/
  wf : AutWF A
  numStates : A.numStates = l.length
  len : A.states.length = l.length
  initial : A.initialState = 0
  isFinal : ∀ i (hi : i < l.length) s, A.states[i]? = some s → s.isFinal = l[i].nullable
  next : ∀ i (hi : i < l.length) s, A.states[i]? = some s → ∀ c, c ≤ MAX_CHAR →
    idxOf l (deriv ord l[i] c) < l.length ∧
    A.next s c = A.states[idxOf l (deriv ord l[i] c)]?

section automaton
variable {e : RE} {l : List RE}

theorem binv_good (F : ClosureFacts ord Good) (hg : Good e) (hinv : BInv ord e l l.length) :
    ∀ x ∈ l, Good x := fun x hx => (hinv.reach x hx).good F hg

theorem binv_closed (hinv : BInv ord e l l.length) {x : RE} (hx : x ∈ l) {c : Nat}
    (hc : c ≤ MAX_CHAR) : deriv ord x c ∈ l :=
  hinv.closed x (by simpa using hx) c hc

/-- `build_unchecked` succeeds on the builder of `compile_with_bound`, and returns what the
    checking `build` returns -/
theorem build_cops (hcw : ∀ e, Good e → e.derivClass.WF) (hgood : ∀ x ∈ l, Good x)
    (hkeys : keys 0 (compileOps ord l l.length) = List.range l.length) :
    ∃ A, (Builder.run 0 (compileOps ord l l.length)).build = some (.ok A) ∧
      (Builder.run 0 (compileOps ord l l.length)).buildUnchecked = some A :=
  C13.build_unchecked_of_valid (wfOps_cops hcw hgood) (valid_cops hcw hgood hkeys)

theorem compiled_of_build (F : ClosureFacts ord Good) (hcw : ∀ e, Good e → e.derivClass.WF)
    (hg : Good e) (hinv : BInv ord e l l.length)
    (hkeys : keys 0 (compileOps ord l l.length) = List.range l.length) {A : Automaton}
    (hb : (Builder.run 0 (compileOps ord l l.length)).build = some (.ok A)) :
    Compiled ord l A := by
  have hgood := binv_good F hg hinv
  have hwf := wfOps_cops (ord := ord) hcw hgood
  have hA : AutWF A := C14.build_wf hwf hb
  obtain ⟨hn, hlen, _, hfin⟩ := C13.build_finals hwf hb
  rw [hkeys, List.length_range] at hn hlen
  have hid : ∀ k, k < l.length → idOf 0 (compileOps ord l l.length) k = some k :=
    fun k hk => idOf_of_keys_range hkeys hk
  refine ⟨hA, hn, hlen, (C13.build_initial hwf hb).1, ?_, ?_⟩
  · intro i hi s hs
    obtain ⟨s', hs', _, hf⟩ := hfin i i (hid i hi)
    rw [hs] at hs'
    cases hs'
    rw [hf, final_cops (List.getElem?_eq_getElem hi)]
  · intro i hi s hs c hc
    have hmem : deriv ord l[i] c ∈ l := binv_closed hinv (List.getElem_mem hi) hc
    have hj := idxOf_lt hmem
    refine ⟨hj, ?_⟩
    have hki : i ∈ keys 0 (compileOps ord l l.length) := by
      rw [hkeys]; exact List.mem_range.2 hi
    obtain ⟨i', s', k', j, t, h1, h2, _, h4, h5, h6, h7⟩ := C13.build_delta hwf hb hki hc
    rw [hid i hi] at h1
    cases h1
    rw [hs] at h2
    cases h2
    rw [specDelta_cops F hcw (List.getElem?_eq_getElem hi) (hgood _ (List.getElem_mem hi)) hc] at h4
    cases h4
    rw [hid _ hj] at h5
    cases h5
    rw [h6]
    -- `t` is the state stored at position `t.id`
    obtain ⟨t', ht', htm⟩ := hA.next_total
      (List.mem_of_getElem? hs) hc
    rw [h6] at ht'
    cases ht'
    obtain ⟨idx, hidx, rfl⟩ := List.getElem_of_mem htm
    have := hA.ids idx hidx
    rw [← h7, this, List.getElem?_eq_getElem hidx]

theorem idxOf_head (hinv : BInv ord e l l.length) : ∃ h0 : 0 < l.length, l[0] = e := by
  have := hinv.head
  cases l with
  | nil => simp at this
  | cons a t =>
    simp only [List.head?_cons, Option.some.injEq] at this
    exact ⟨by simp, by simpa using this⟩

/-- **str_next is the iterated derivative** -/
theorem Compiled.strNext {A : Automaton} (hC : Compiled ord l A) (hinv : BInv ord e l l.length) :
    ∀ (w : List Nat), WFs w → ∀ i (hi : i < l.length) s, A.states[i]? = some s →
      idxOf l (strDerivative ord l[i] w) < l.length ∧
      A.strNext s w = A.states[idxOf l (strDerivative ord l[i] w)]? := by
  intro w
  induction w with
  | nil =>
    intro _ i hi s hs
    rw [strDerivative_nil, idxOf_getElem_nodup hinv.nodup hi]
    exact ⟨hi, by rw [Automaton.strNext, hs]⟩
  | cons c w ih =>
    intro hw i hi s hs
    rw [wfs_cons'] at hw
    obtain ⟨hj, hn⟩ := hC.next i hi s hs c hw.1
    have hmem : deriv ord l[i] c ∈ l := binv_closed hinv (List.getElem_mem hi) hw.1
    rw [Automaton.strNext, hn, List.getElem?_eq_getElem (by rw [hC.len]; exact hj)]
    simp only
    have := ih hw.2 _ hj _ (List.getElem?_eq_getElem (by rw [hC.len]; exact hj))
    rw [idxOf_getElem hmem] at this
    rw [strDerivative_cons]
    exact this

/-- **accepts is the membership test `str_in_re`** -/
theorem Compiled.accepts {A : Automaton} (hC : Compiled ord l A) (hinv : BInv ord e l l.length)
    {w : List Nat} (hw : WFs w) : A.accepts w = some (strInRe ord w e) := by
  obtain ⟨h0, he⟩ := idxOf_head hinv
  have h0' : 0 < A.states.length := by rw [hC.len]; exact h0
  have hs0 : A.states[0]? = some A.states[0] := List.getElem?_eq_getElem h0'
  obtain ⟨hj, hn⟩ := hC.strNext hinv w hw 0 h0 _ hs0
  have hj' : idxOf l (strDerivative ord l[0] w) < A.states.length := by rw [hC.len]; exact hj
  unfold Automaton.accepts Automaton.initial
  rw [hC.initial, hs0]
  simp only
  rw [hn, List.getElem?_eq_getElem hj']
  simp only [Option.map_some, Option.some.injEq]
  have hmem : strDerivative ord l[0] w ∈ l := by rw [he]; exact hinv.complete hw
  rw [hC.isFinal _ hj _ (List.getElem?_eq_getElem hj'), idxOf_getElem hmem, he]
  rfl

end automaton

/-! ### `compile_with_bound`, `try_compile`, `compile` -/

section top
variable {e : RE} {l : List RE}

/-- `compile_with_bound` never panics (the BFS loop does not, and `build_unchecked` succeeds on the
    builder it produces), and every automaton it returns is the derivative automaton of `l` -/
theorem compileWithBound_spec (F : ClosureFacts ord Good) (hcw : ∀ e, Good e → e.derivClass.WF)
    (hg : Good e) {n fuel fuel' : Nat} (hl : iterDerivatives ord fuel' e = .ok l) :
    compileWithBound ord fuel e n ≠ .panic ∧
    ∀ A, compileWithBound ord fuel e n = .ok (some A) → Compiled ord l A := by
  have hinv : BInv ord e l l.length := ((iterLoop_spec F hg fuel' [e] 0 (BInv.init e)).2 l hl).1
  unfold compileWithBound
  split
  · exact ⟨by simp, fun A h => by cases h⟩
  · have hnp : compileLoop ord n fuel [e] 0 (Builder.new 0) ≠ .panic :=
      compileLoop_no_panic F hg n fuel [e] 0 (Builder.new 0) (BInv.init e) BK.new
    cases hc : compileLoop ord n fuel [e] 0 (Builder.new 0) with
    | outOfFuel => exact ⟨by simp, fun A h => by cases h⟩
    | panic => exact absurd hc hnp
    | ok ob =>
      cases ob with
      | none => exact ⟨by simp, fun A h => by cases h⟩
      | some b =>
        obtain ⟨rfl, hkeys⟩ := compileLoop_builder F hg hl hc
        obtain ⟨A0, hb0, hu0⟩ := build_cops hcw (binv_good F hg hinv) hkeys
        simp only [hu0]
        refine ⟨by simp, ?_⟩
        intro A hA
        simp only [Res.ok.injEq, Option.some.injEq] at hA
        subst hA
        exact compiled_of_build F hcw hg hinv hkeys hb0

/-- if the BFS loop of `compile_with_bound` finishes within the fuel, so does `iter_derivatives`
    (they pop the same terms): the closure list exists -/
theorem compileLoop_iter (F : ClosureFacts ord Good) (hg : Good e) (maxStates : Nat) :
    ∀ (fuel : Nat) (all : List RE) (i : Nat) (b b' : Builder),
      BInv ord e all i → BK all.length b →
      compileLoop ord maxStates fuel all i b = .ok (some b') →
      ∃ l, iterLoop ord fuel all i = .ok l := by
  intro fuel
  induction fuel with
  | zero => intro all i b b' _ _ h; simp [compileLoop] at h
  | succ fuel ih =>
    intro all i b b' h hb hc
    rw [iterLoop]
    cases hr : all[i]? with
    | none => exact ⟨all, rfl⟩
    | some r =>
      have hgr := h.good_at F hg hr
      obtain ⟨ds, hds⟩ := classDerivs_isSome F hgr
      simp only [hds]
      by_cases hmax : i = maxStates
      · rw [compileLoop] at hc
        have hbeq : (i == maxStates) = true := by simpa using hmax
        simp [hr, hbeq] at hc
      · obtain ⟨b'', hbk, heq⟩ := compileLoop_step F hgr hr hds hb hmax fuel
        rw [heq] at hc
        exact ih _ _ _ _ (h.step F hg hr hds) hbk hc

/-- whenever `compile_with_bound` returns an automaton, the derivative closure was enumerated
    within the same fuel -/
theorem compileWithBound_closure (F : ClosureFacts ord Good) (hg : Good e) {n fuel : Nat}
    {A : Automaton} (h : compileWithBound ord fuel e n = .ok (some A)) :
    ∃ l, iterDerivatives ord fuel e = .ok l := by
  unfold compileWithBound at h
  split at h
  · cases h
  · cases hc : compileLoop ord n fuel [e] 0 (Builder.new 0) with
    | outOfFuel => rw [hc] at h; cases h
    | panic => rw [hc] at h; cases h
    | ok ob =>
      cases ob with
      | none => rw [hc] at h; cases h
      | some b => exact compileLoop_iter F hg n fuel [e] 0 _ b (BInv.init e) BK.new hc

/-- `compile_with_bound` never panics, for any fuel and any bound (no termination hypothesis) -/
theorem compileWithBound_no_panic (F : ClosureFacts ord Good)
    (hcw : ∀ e, Good e → e.derivClass.WF) (hg : Good e) (n fuel : Nat) :
    compileWithBound ord fuel e n ≠ .panic := by
  intro hp
  -- a panic can only come from `build_unchecked` after a finished loop: then the closure exists
  have : ∃ b, compileLoop ord n fuel [e] 0 (Builder.new 0) = .ok (some b) := by
    unfold compileWithBound at hp
    split at hp
    · cases hp
    · have hnp : compileLoop ord n fuel [e] 0 (Builder.new 0) ≠ .panic :=
        compileLoop_no_panic F hg n fuel [e] 0 (Builder.new 0) (BInv.init e) BK.new
      cases hc : compileLoop ord n fuel [e] 0 (Builder.new 0) with
      | outOfFuel => rw [hc] at hp; cases hp
      | panic => exact absurd hc hnp
      | ok ob =>
        cases ob with
        | none => rw [hc] at hp; cases hp
        | some b => exact ⟨b, rfl⟩
  obtain ⟨b, hb⟩ := this
  obtain ⟨l, hl⟩ := compileLoop_iter F hg n fuel [e] 0 _ b (BInv.init e) BK.new hb
  exact (compileWithBound_spec F hcw hg (n := n) (fuel := fuel) (fuel' := fuel) hl).1 hp

theorem compile_spec (F : ClosureFacts ord Good) (hcw : ∀ e, Good e → e.derivClass.WF)
    (hg : Good e) {fuel fuel' : Nat} (hl : iterDerivatives ord fuel' e = .ok l) :
    compile ord fuel e ≠ .panic ∧ ∀ A, compile ord fuel e = .ok A → Compiled ord l A := by
  obtain ⟨h1, h2⟩ := compileWithBound_spec F hcw hg (n := fuel + 1) (fuel := fuel) hl
  have h3 := compileLoop_ne_none (ord := ord) (fuel + 1) fuel [e] 0 (Builder.new 0) (by omega)
  unfold compile
  cases hc : compileWithBound ord fuel e (fuel + 1) with
  | outOfFuel => exact ⟨by simp, fun A h => by cases h⟩
  | panic => exact absurd hc h1
  | ok r =>
    cases r with
    | none =>
      exfalso
      unfold compileWithBound at hc
      have hbeq : (fuel + 1 == 0) = false := by simp
      simp only [hbeq, Bool.false_eq_true, if_false] at hc
      split at hc
      · cases hc
      · cases hc
      · rename_i h; exact h3 h
      · split at hc <;> cases hc
    | some A =>
      refine ⟨by simp, ?_⟩
      intro A' hA'
      simp only [Res.ok.injEq] at hA'
      subst hA'
      exact h2 A hc

end top

end RE
end Smt
