/-
  Denotational semantics of regular-expression terms (the SPECIFICATION side of C01, C02, C03,
  C05, C10, C16, C18): `RE.lang : RE → Language ℕ`, written with Mathlib's `Language` operations,
  following SMT-LIB 2.6 (Unicode strings theory): concatenation, union, intersection, complement
  relative to the set of all SMT strings, and `loop`: `⋃ k ∈ range, L^k`.

  Definitions and the basic well-formedness facts only; the theorems about the smart constructors
  are in the other Proofs/Re*.lean files.
-/
import Mathlib.Computability.Language
import SmtModel.Model.Re

namespace Smt
namespace RE

/-- the set of all SMT-LIB strings (every code point ≤ 0x2FFFF) -/
def allStrings : Language ℕ := {w | WFs w}

/-- `n ∈ r` for a loop range -/
def LoopRange.Mem (k : Nat) (r : LoopRange) : Prop :=
  r.start ≤ k ∧ match r.stop with | some j => k ≤ j | none => True

/-- `re.loop` generalised to an upper bound that may be infinite: `⋃ k ∈ r, L^k` -/
def loopLang (L : Language ℕ) (r : LoopRange) : Language ℕ :=
  {w | ∃ k, LoopRange.Mem k r ∧ w ∈ L ^ k}

mutual
/-- the language denoted by a term -/
def lang : RE → Language ℕ
  | .empty => 0
  | .epsilon => 1
  | .range s => {w | ∃ c, w = [c] ∧ s.start ≤ c ∧ c ≤ s.stop}
  | .concat a b => a.lang * b.lang
  | .loop e r => loopLang e.lang r
  | .compl e => {w | WFs w ∧ w ∉ e.lang}
  | .inter l => {w | WFs w ∧ w ∈ langAll l}
  | .union l => langAny l
/-- intersection of the languages of a list (all words for the empty list) -/
def langAll : List RE → Language ℕ
  | [] => ⊤
  | x :: xs => x.lang ⊓ langAll xs
/-- union of the languages of a list -/
def langAny : List RE → Language ℕ
  | [] => 0
  | x :: xs => x.lang + langAny xs
end

mutual
/-- well-formed terms: every character range is a well-formed interval of the alphabet and every
    loop range has `lo ≤ hi`.  All terms a manager can produce are well-formed
    (`*_wf` theorems of the constructors). -/
def WF : RE → Prop
  | .empty => True
  | .epsilon => True
  | .range s => s.WF
  | .concat a b => a.WF ∧ b.WF
  | .loop e r => e.WF ∧ (match r.stop with | some j => r.start ≤ j | none => True)
  | .compl e => e.WF
  | .inter l => WFList l
  | .union l => WFList l
def WFList : List RE → Prop
  | [] => True
  | x :: xs => x.WF ∧ WFList xs
end

/-- the only fact about the id assignment the language theorems need (DESIGN.md §6): if the
    adjacency test of `simplify_set_operation` fires, the two terms really are complements.
    Proved for every id assignment a manager can produce (C07), checked on every dumped table. -/
def PairSound (ord : RE → Nat) : Prop :=
  ∀ x y : RE, ord y = ord x + 1 → ord x % 2 = 0 → y = x.complement

theorem langAll_iff (l : List RE) (w : List ℕ) : w ∈ langAll l ↔ ∀ e ∈ l, w ∈ e.lang := by
  induction l with
  | nil => simp only [langAll, List.not_mem_nil, false_imp_iff, implies_true, iff_true]; trivial
  | cons x xs ih =>
    simp only [langAll, List.mem_cons, forall_eq_or_imp]
    rw [← ih]; exact Iff.rfl

theorem langAny_iff (l : List RE) (w : List ℕ) : w ∈ langAny l ↔ ∃ e ∈ l, w ∈ e.lang := by
  induction l with
  | nil => simp [langAny]
  | cons x xs ih =>
    simp only [langAny, List.mem_cons, exists_eq_or_imp, Language.mem_add]
    rw [← ih]

theorem WFList_iff (l : List RE) : WFList l ↔ ∀ e ∈ l, e.WF := by
  induction l with
  | nil => simp [WFList]
  | cons x xs ih => simp [WFList, ih]

end RE
end Smt
