/-
  Helper lemmas for C07 (store level): the invariant of reachable `ReStore`s and the
  soundness/completeness of the table checker.  Core Lean only (no Mathlib needed).
-/
import SmtModel.Model.Store

namespace Smt
open Node

/-! ### `xor 1` -/

theorem xor_one (i : Nat) : i ^^^ 1 = if i % 2 = 0 then i + 1 else i - 1 := by
  have h1 : (i ^^^ 1) / 2 = i / 2 := by rw [Nat.xor_div_two]; simp
  have h2 : (i ^^^ 1) % 2 = 1 ↔ ¬(i % 2 = 1 ↔ 1 % 2 = 1) := Nat.xor_mod_two_eq_one
  split <;> omega

/-! ### generic store -/

namespace Store
variable {κ : Type} [DecidableEq κ]

/-- `Entry::Occupied`: a key that is in the store is returned with its id, nothing changes -/
theorem make_present {s : Store κ} {k : κ} {i : Nat} (hnd : s.keys.Nodup)
    (h : s.keys[i]? = some k) : s.make k = (s, i, false) := by
  obtain ⟨hi, hk⟩ := List.getElem?_eq_some_iff.mp h
  have : s.keys.idxOf? k = some i := by
    rw [List.idxOf?_eq_some_iff]
    refine ⟨hi, hk, ?_⟩
    intro j hj hjk
    have := (List.getElem_inj (h₀ := by omega) (h₁ := hi) hnd).mp (hjk.trans hk.symm)
    omega
  simp [make, this]

/-- `Entry::Vacant`: a key that is not in the store is appended with id `counter` -/
theorem make_absent {s : Store κ} {k : κ} (h : k ∉ s.keys) :
    s.make k = (⟨s.keys ++ [k]⟩, s.keys.length, true) := by
  have : s.keys.idxOf? k = none := List.idxOf?_eq_none_iff.mpr h
  simp [make, this, counter]

end Store

/-! ### the invariant of `ReManager` -/

/-- invariant of every reachable manager state (arbitrary call histories) -/
structure Inv (m : ReStore) : Prop where
  id2re : m.id2re = List.range m.table.length
  init : m.table.take 6 = initNodes
  even : m.table.length % 2 = 0
  nodup : m.table.Nodup
  pair : ∀ i, 6 ≤ i → i % 2 = 0 → i < m.table.length →
    m.table[i + 1]? = some (.compl i) ∧ ∀ x, m.table[i]? ≠ some (.compl x)

theorem new_table : ReStore.new.table = initNodes := by decide
theorem new_id2re : ReStore.new.id2re = [0, 1, 2, 3, 4, 5] := by decide

theorem inv_new : Inv ReStore.new where
  id2re := by decide
  init := by decide
  even := by decide
  nodup := by decide
  pair := by
    intro i h6 _ hlt
    rw [new_table] at hlt
    simp [initNodes] at hlt
    omega

namespace Inv
variable {m : ReStore}

theorem six_le (h : Inv m) : 6 ≤ m.table.length := by
  have := congrArg List.length h.init
  simp [initNodes] at this
  omega

theorem size_eq (h : Inv m) : m.size = m.table.length := by
  simp [ReStore.size, h.id2re]

theorem counter_eq (_h : Inv m) : m.store.counter = m.table.length := rfl

theorem get_init (h : Inv m) {j : Nat} (hj : j < 6) : m.table[j]? = initNodes[j]? := by
  rw [← h.init, List.getElem?_take]
  simp [hj]

theorem idToRe (h : Inv m) {j : Nat} (hj : j < m.table.length) : m.idToRe j = some j := by
  simp [ReStore.idToRe, h.id2re, hj]

theorem idToRe_none (h : Inv m) {j : Nat} (hj : m.table.length ≤ j) : m.idToRe j = none := by
  simp [ReStore.idToRe, h.id2re, hj]

/-- a `Complement(x)` key can only sit right after `x`, and `x` is even -/
theorem compl_pos (h : Inv m) {j x : Nat} (hj : m.table[j]? = some (.compl x)) :
    j = x + 1 ∧ x % 2 = 0 ∧ (x = 0 ∨ 6 ≤ x) := by
  have hlen : j < m.table.length := (List.getElem?_eq_some_iff.mp hj).1
  by_cases h6 : j < 6
  · have := h.get_init h6
    rw [hj] at this
    have hj' : j = 0 ∨ j = 1 ∨ j = 2 ∨ j = 3 ∨ j = 4 ∨ j = 5 := by omega
    rcases hj' with rfl | rfl | rfl | rfl | rfl | rfl <;> simp [initNodes] at this
    subst this; simp
  · by_cases hev : j % 2 = 0
    · exact absurd hj ((h.pair j (by omega) hev hlen).2 x)
    · have hp := (h.pair (j - 1) (by omega) (by omega) (by omega)).1
      have hj1 : j - 1 + 1 = j := by omega
      rw [hj1, hj] at hp
      simp at hp
      omega

theorem compl_len_not_mem (h : Inv m) : Node.compl m.table.length ∉ m.table := by
  intro hmem
  obtain ⟨j, hj⟩ := List.mem_iff_getElem?.mp hmem
  have := (h.compl_pos hj).1
  have := (List.getElem?_eq_some_iff.mp hj).1
  omega

end Inv

/-- the state after allocating `ast` and its complement -/
def ReStore.extend (m : ReStore) (ast : Node) : ReStore :=
  { store := ⟨m.table ++ [ast] ++ [.compl m.table.length]⟩,
    id2re := m.id2re ++ [m.table.length, m.table.length + 1] }

theorem ReStore.extend_table (m : ReStore) (ast : Node) :
    (m.extend ast).table = m.table ++ [ast, .compl m.table.length] := by
  simp [ReStore.extend, ReStore.table]

/-- the two outcomes of the `_ =>` arm of `ReManager::make` -/
theorem makeOther_spec {m : ReStore} (h : Inv m) (ast : Node) (hnc : ast.isCompl = false) :
    (∃ i, m.table[i]? = some ast ∧ m.makeOther ast = some (m, i)) ∨
    (ast ∉ m.table ∧ m.makeOther ast = some (m.extend ast, m.table.length)) := by
  have hcnt : m.store.counter = m.id2re.length := by simp [h.counter_eq, h.id2re]
  by_cases hmem : ast ∈ m.table
  · left
    obtain ⟨i, hi⟩ := List.mem_iff_getElem?.mp hmem
    refine ⟨i, hi, ?_⟩
    have hlt : i < m.table.length := (List.getElem?_eq_some_iff.mp hi).1
    have hmk := Store.make_present h.nodup hi
    have hlt' : i < m.store.counter := hlt
    simp only [ReStore.makeOther, hcnt, ne_eq, not_true_eq_false, if_false, hmk]
    rw [← hcnt]
    have h1 : ¬ (¬ i ≤ m.store.counter) := by omega
    have h2 : ¬ (i = m.store.counter) := by omega
    simp [h2, Nat.le_of_lt hlt']
  · right
    refine ⟨hmem, ?_⟩
    have hmk := Store.make_absent (s := m.store) hmem
    have hc : Node.compl m.table.length ∉ m.table ++ [ast] := by
      intro hc
      rcases List.mem_append.mp hc with hc | hc
      · exact h.compl_len_not_mem hc
      · simp at hc; subst hc; simp [isCompl] at hnc
    have hmk2 := Store.make_absent (s := ⟨m.store.keys ++ [ast]⟩) hc
    simp only [ReStore.makeOther, hcnt, ne_eq, not_true_eq_false, if_false, hmk]
    rw [← hcnt]
    have : m.store.keys.length = m.store.counter := rfl
    simp only [this, Nat.le_refl, not_true_eq_false, if_false, if_true]
    have hmk2' : Store.make ⟨m.store.keys ++ [ast]⟩ (Node.compl m.store.counter) =
        (⟨m.store.keys ++ [ast] ++ [Node.compl m.store.counter]⟩, m.store.counter + 1, true) := by
      exact hmk2.trans (by simp [Store.counter, ReStore.table])
    rw [hmk2']
    simp [ReStore.extend, ReStore.table, Store.counter]

theorem make_eq_other (m : ReStore) {ast : Node} (hnc : ast.isCompl = false) :
    m.make ast = m.makeOther ast := by
  cases ast <;> first | rfl | simp [isCompl] at hnc

theorem make_compl (m : ReStore) (x : Nat) :
    m.make (.compl x) = (m.idToRe (x + 1)).map fun r => (m, r) := rfl

/-- allocation keeps the invariant -/
theorem inv_extend {m : ReStore} (h : Inv m) {ast : Node} (hnc : ast.isCompl = false)
    (hmem : ast ∉ m.table) : Inv (m.extend ast) := by
  have h6 := h.six_le
  refine ⟨?_, ?_, ?_, ?_, ?_⟩
  · rw [ReStore.extend_table]
    simp only [ReStore.extend, h.id2re, List.length_append, List.length_cons, List.length_nil]
    rw [show m.table.length + (0 + 1 + 1) = m.table.length + 1 + 1 by omega,
      List.range_succ, List.range_succ]
    simp
  · rw [ReStore.extend_table, List.take_append_of_le_length h6]; exact h.init
  · rw [ReStore.extend_table]; simp; have := h.even; omega
  · rw [ReStore.extend_table, List.nodup_append]
    refine ⟨h.nodup, ?_, ?_⟩
    · simp; intro hc; subst hc; simp [isCompl] at hnc
    · intro a ha b hb hab
      subst hab
      simp at hb
      rcases hb with rfl | rfl
      · exact hmem ha
      · exact h.compl_len_not_mem ha
  · intro i hi6 hev hlt
    rw [ReStore.extend_table] at hlt ⊢
    simp at hlt
    by_cases hi : i < m.table.length
    · have hi1 : i + 1 < m.table.length := by have := h.even; omega
      rw [List.getElem?_append_left hi1, List.getElem?_append_left hi]
      exact h.pair i hi6 hev hi
    · have hie : i = m.table.length := by have := h.even; omega
      subst hie
      refine ⟨by simp, ?_⟩
      intro x
      simp
      intro hx; subst hx; simp [isCompl] at hnc

/-- one call of `make` keeps the invariant, only appends to the table, and returns the id
    that holds the key -/
theorem make_step {m m' : ReStore} {ast : Node} {i : Nat} (h : Inv m)
    (hm : m.make ast = some (m', i)) :
    Inv m' ∧ m.table <+: m'.table ∧
      (ast.isCompl = false → m'.table[i]? = some ast) ∧
      (∀ x, ast = .compl x → m' = m ∧ i = x + 1 ∧ x + 1 < m.table.length) := by
  by_cases hnc : ast.isCompl = false
  · rw [make_eq_other m hnc] at hm
    rcases makeOther_spec h ast hnc with ⟨j, hj, hmk⟩ | ⟨hmem, hmk⟩
    · rw [hmk] at hm
      simp at hm
      obtain ⟨rfl, rfl⟩ := hm
      refine ⟨h, List.prefix_refl _, fun _ => hj, ?_⟩
      intro x hx; subst hx; simp [isCompl] at hnc
    · rw [hmk] at hm
      simp at hm
      obtain ⟨rfl, rfl⟩ := hm
      refine ⟨inv_extend h hnc hmem, ?_, ?_, ?_⟩
      · rw [ReStore.extend_table]; exact List.prefix_append _ _
      · intro _; rw [ReStore.extend_table]; simp
      · intro x hx; subst hx; simp [isCompl] at hnc
  · cases ast <;> simp [isCompl] at hnc
    rename_i x
    rw [make_compl] at hm
    by_cases hx : x + 1 < m.table.length
    · rw [h.idToRe hx] at hm
      simp at hm
      obtain ⟨rfl, rfl⟩ := hm
      refine ⟨h, List.prefix_refl _, by simp [isCompl], ?_⟩
      intro y hy
      cases hy
      exact ⟨rfl, rfl, hx⟩
    · rw [h.idToRe_none (by omega)] at hm
      simp at hm

theorem apply_step {m m' : ReStore} {op : Op} (h : Inv m) (hm : op.apply m = some m') :
    Inv m' ∧ m.table <+: m'.table := by
  cases op with
  | make n =>
    simp only [Op.apply, Option.map_eq_some_iff] at hm
    obtain ⟨⟨m'', i⟩, hmk, rfl⟩ := hm
    have := make_step h hmk
    exact ⟨this.1, this.2.1⟩
  | complement id =>
    simp only [Op.apply, Option.map_eq_some_iff] at hm
    obtain ⟨_, _, rfl⟩ := hm
    exact ⟨h, List.prefix_refl _⟩

theorem runFrom_step {m m' : ReStore} {ops : List Op} (h : Inv m)
    (hr : runFrom m ops = some m') : Inv m' ∧ m.table <+: m'.table := by
  induction ops generalizing m with
  | nil =>
    simp [runFrom] at hr; subst hr
    exact ⟨h, List.prefix_refl _⟩
  | cons op rest ih =>
    simp only [runFrom] at hr
    split at hr
    · cases hr
    · rename_i m1 hm1
      have h1 := apply_step h hm1
      have h2 := ih h1.1 hr
      exact ⟨h2.1, List.IsPrefix.trans h1.2 h2.2⟩

theorem inv_run {ops : List Op} {m : ReStore} (hr : run ops = some m) : Inv m :=
  (runFrom_step inv_new hr).1

/-! ### stability -/

theorem make_of_get {m : ReStore} (h : Inv m) {ast : Node} {i : Nat}
    (hnc : ast.isCompl = false) (hi : m.table[i]? = some ast) : m.make ast = some (m, i) := by
  rw [make_eq_other m hnc]
  rcases makeOther_spec h ast hnc with ⟨j, hj, hmk⟩ | ⟨hmem, _⟩
  · have hij : j = i := by
      obtain ⟨hjl, hjv⟩ := List.getElem?_eq_some_iff.mp hj
      obtain ⟨hil, hiv⟩ := List.getElem?_eq_some_iff.mp hi
      exact (List.getElem_inj (h₀ := hjl) (h₁ := hil) h.nodup).mp (hjv.trans hiv.symm)
    rw [hmk, hij]
  · exact absurd (List.mem_iff_getElem?.mpr ⟨i, hi⟩) hmem

theorem prefix_get {l₁ l₂ : List Node} (hp : l₁ <+: l₂) {i : Nat} {n : Node}
    (h : l₁[i]? = some n) : l₂[i]? = some n := by
  obtain ⟨hi, hv⟩ := List.getElem?_eq_some_iff.mp h
  rw [(List.prefix_iff_getElem?.mp hp) i hi, hv]

/-! ### children -/

/-- every child id is smaller than the id of the node -/
def ChildrenSmaller (t : List Node) : Prop :=
  ∀ (i : Nat) (n : Node), t[i]? = some n → ∀ c ∈ n.children, c < i

theorem childrenSmaller_init : ChildrenSmaller initNodes := by
  intro i n hi c hc
  have hlt : i < 6 := by
    have := (List.getElem?_eq_some_iff.mp hi).1; simpa [initNodes] using this
  have hi' : i = 0 ∨ i = 1 ∨ i = 2 ∨ i = 3 ∨ i = 4 ∨ i = 5 := by omega
  rcases hi' with rfl | rfl | rfl | rfl | rfl | rfl <;>
    simp [initNodes] at hi <;> subst hi <;> simp [children] at hc <;> omega

theorem childrenSmaller_extend {m : ReStore} (hc : ChildrenSmaller m.table) {ast : Node}
    (hv : ∀ c ∈ ast.children, c < m.table.length) : ChildrenSmaller (m.extend ast).table := by
  intro i n hi c hcn
  rw [ReStore.extend_table] at hi
  by_cases hlt : i < m.table.length
  · rw [List.getElem?_append_left hlt] at hi
    exact hc i n hi c hcn
  · rw [List.getElem?_append_right (by omega)] at hi
    have hlen := (List.getElem?_eq_some_iff.mp hi).1
    simp at hlen
    have hcase : i - m.table.length = 0 ∨ i - m.table.length = 1 := by omega
    rcases hcase with h0 | h1
    · rw [h0] at hi; simp at hi; subst hi
      have := hv c hcn; omega
    · rw [h1] at hi; simp at hi; subst hi
      simp [children] at hcn; omega

theorem children_step {m m' : ReStore} {op : Op} (h : Inv m) (hc : ChildrenSmaller m.table)
    (hv : op.validIn m = true) (hm : op.apply m = some m') : ChildrenSmaller m'.table := by
  cases op with
  | complement id =>
    simp only [Op.apply, Option.map_eq_some_iff] at hm
    obtain ⟨_, _, rfl⟩ := hm
    exact hc
  | make ast =>
    simp only [Op.apply, Option.map_eq_some_iff] at hm
    obtain ⟨⟨m'', i⟩, hmk, rfl⟩ := hm
    simp only [Op.validIn, Bool.and_eq_true, List.all_eq_true, decide_eq_true_eq, h.size_eq] at hv
    have hv := hv.1
    by_cases hnc : ast.isCompl = false
    · rw [make_eq_other m hnc] at hmk
      rcases makeOther_spec h ast hnc with ⟨j, _, hmk'⟩ | ⟨_, hmk'⟩
      · rw [hmk'] at hmk; simp at hmk; obtain ⟨rfl, rfl⟩ := hmk; exact hc
      · rw [hmk'] at hmk; simp at hmk; obtain ⟨rfl, rfl⟩ := hmk
        exact childrenSmaller_extend hc hv
    · cases ast <;> simp [isCompl] at hnc
      have := (make_step h hmk).2.2.2 _ rfl
      rw [this.1]; exact hc

theorem children_runFrom {m m' : ReStore} {ops : List Op} (h : Inv m)
    (hc : ChildrenSmaller m.table) (hv : validFrom m ops = true)
    (hr : runFrom m ops = some m') : ChildrenSmaller m'.table := by
  induction ops generalizing m with
  | nil => simp [runFrom] at hr; subst hr; exact hc
  | cons op rest ih =>
    simp only [runFrom] at hr
    simp only [validFrom, Bool.and_eq_true] at hv
    split at hr
    · cases hr
    · rename_i m1 hm1
      rw [hm1] at hv
      exact ih (apply_step h hm1).1 (children_step h hc hv.1 hm1) hv.2 hr

/-- valid calls never panic -/
theorem apply_total {m : ReStore} {op : Op} (h : Inv m) (hv : op.validIn m = true) :
    ∃ m', op.apply m = some m' := by
  cases op with
  | complement id =>
    simp only [Op.validIn, decide_eq_true_eq, h.size_eq] at hv
    have hx : id ^^^ 1 < m.table.length := by
      rw [xor_one]; have := h.even; split <;> omega
    simp [Op.apply, ReStore.complement, h.idToRe hx]
  | make ast =>
    by_cases hnc : ast.isCompl = false
    · simp only [Op.apply, make_eq_other m hnc]
      rcases makeOther_spec h ast hnc with ⟨j, _, hmk'⟩ | ⟨_, hmk'⟩ <;> simp [hmk']
    · cases ast <;> simp [isCompl] at hnc
      rename_i x
      simp only [Op.validIn, children, complArgEven, List.all_cons, List.all_nil, Bool.and_true,
        Bool.and_eq_true, decide_eq_true_eq, beq_iff_eq, h.size_eq] at hv
      have hx : x + 1 < m.table.length := by have := h.even; omega
      simp [Op.apply, make_compl, h.idToRe hx]

/-! ### the table checker -/

/-- what `checkTable` decides (each field is one conjunct of the checker) -/
structure TableOK (t : List Node) : Prop where
  /-- (a) ids 0..5 are `sigma`, `¬sigma`, `empty`, `sigma*`, `epsilon`, `sigma+` -/
  init : t.take 6 = initNodes
  /-- (b) terms are allocated in pairs -/
  even : t.length % 2 = 0
  /-- (c) no two ids hold the same key: equal keys ⇒ equal ids -/
  nodup : t.Nodup
  /-- (d) from id 6 on, an even id holds a non-`Complement` key and the next id its `Complement` -/
  pair : ∀ i, 6 ≤ i → i % 2 = 0 → i < t.length →
    t[i + 1]? = some (.compl i) ∧ ∀ x, t[i]? ≠ some (.compl x)
  /-- (e) `id → tree` is well-founded -/
  children : ChildrenSmaller t

namespace Table

theorem noDupAux_iff (l : List Node) (seen : Std.HashSet Node) :
    noDupAux l seen = true ↔ l.Nodup ∧ ∀ x ∈ l, x ∉ seen := by
  induction l generalizing seen with
  | nil => simp [noDupAux]
  | cons n rest ih =>
    simp only [noDupAux]
    by_cases hc : seen.contains n = true
    · simp only [hc, if_true, Bool.false_eq_true, false_iff]
      intro h
      exact h.2 n (by simp) (Std.HashSet.mem_iff_contains.mpr hc)
    · simp only [hc, Bool.false_eq_true, if_false, ih, List.nodup_cons, List.mem_cons,
        Std.HashSet.mem_insert, beq_iff_eq]
      have hc' : n ∉ seen := fun h => hc (Std.HashSet.mem_iff_contains.mp h)
      constructor
      · rintro ⟨hnd, hx⟩
        refine ⟨⟨?_, hnd⟩, ?_⟩
        · intro hmem; exact hx n hmem (Or.inl rfl)
        · intro x hx'
          rcases hx' with rfl | hx'
          · exact hc'
          · intro hs; exact hx x hx' (Or.inr hs)
      · rintro ⟨⟨hn, hnd⟩, hx⟩
        refine ⟨hnd, ?_⟩
        intro x hx' hs
        rcases hs with rfl | hs
        · exact hn hx'
        · exact hx x (Or.inr hx') hs

theorem noDup_iff (t : Array Node) : noDup t = true ↔ t.toList.Nodup := by
  simp [noDup, noDupAux_iff]

theorem checkPairs_iff (t : Array Node) :
    checkPairs t = true ↔ ∀ i, 6 ≤ i → i % 2 = 0 → i < t.toList.length →
      t.toList[i + 1]? = some (.compl i) ∧ ∀ x, t.toList[i]? ≠ some (.compl x) := by
  simp only [checkPairs, List.all_eq_true, List.mem_range, Bool.or_eq_true, decide_eq_true_eq,
    Bool.and_eq_true, beq_iff_eq, Array.length_toList, Array.getElem?_toList]
  constructor
  · intro h i h6 hev hlt
    rcases h i hlt with (h1 | h1) | ⟨h1, h2⟩
    · omega
    · omega
    · refine ⟨h1, ?_⟩
      intro x hx
      rw [hx] at h2
      simp [isCompl] at h2
  · intro h i hlt
    by_cases h6 : i < 6
    · exact Or.inl (Or.inl h6)
    · by_cases hodd : i % 2 = 1
      · exact Or.inl (Or.inr hodd)
      · right
        obtain ⟨h1, h2⟩ := h i (by omega) (by omega) hlt
        refine ⟨h1, ?_⟩
        have hi : t[i]? = some t[i] := by simp [hlt]
        rw [hi]
        cases hn : t[i] <;> simp [isCompl]
        exact h2 _ (hi.trans (by rw [hn]))

theorem checkChildren_iff (t : Array Node) :
    checkChildren t = true ↔ ChildrenSmaller t.toList := by
  simp only [checkChildren, List.all_eq_true, List.mem_range, ChildrenSmaller,
    Array.getElem?_toList]
  constructor
  · intro h i n hi c hc
    have hlt : i < t.size := by
      rcases Nat.lt_or_ge i t.size with h' | h'
      · exact h'
      · simp [h'] at hi
    have := h i hlt
    rw [hi] at this
    simp only [List.all_eq_true, decide_eq_true_eq] at this
    exact this c hc
  · intro h i hlt
    have hi : t[i]? = some t[i] := by simp [hlt]
    rw [hi]
    simp only [List.all_eq_true, decide_eq_true_eq]
    exact h i _ hi

end Table

/-- the checker decides exactly `TableOK` -/
theorem checkTable_iff (t : Array Node) : checkTable t = true ↔ TableOK t.toList := by
  simp only [checkTable, Bool.and_eq_true, Table.noDup_iff, Table.checkPairs_iff,
    Table.checkChildren_iff]
  have hinit : Table.checkInit t = true ↔ t.toList.take 6 = initNodes := by
    simp [Table.checkInit]
  have heven : Table.checkEven t = true ↔ t.toList.length % 2 = 0 := by
    simp [Table.checkEven]
  rw [hinit, heven]
  constructor
  · rintro ⟨⟨⟨⟨h1, h2⟩, h3⟩, h4⟩, h5⟩; exact ⟨h1, h2, h3, h4, h5⟩
  · rintro ⟨h1, h2, h3, h4, h5⟩; exact ⟨⟨⟨⟨h1, h2⟩, h3⟩, h4⟩, h5⟩

theorem tableOK_of_inv {m : ReStore} (h : Inv m) (hc : ChildrenSmaller m.table) :
    TableOK m.table := ⟨h.init, h.even, h.nodup, h.pair, hc⟩

/-- the dump is the table: `verif_term(i)` is the object with id `i` -/
theorem dump_eq {m : ReStore} (h : Inv m) : m.dump = m.table.map some := by
  apply List.ext_getElem?
  intro i
  simp only [ReStore.dump, h.id2re, List.getElem?_map]
  by_cases hi : i < m.table.length
  · have hi' : i < m.store.keys.length := hi
    have : (List.range m.table.length)[i]? = some i := by simp [hi]
    rw [this]; simp [ReStore.table, hi']
  · have h1 : (List.range m.table.length)[i]? = none := by simp; omega
    have h2 : m.table[i]? = none := by simp; omega
    rw [h1, h2]; rfl

/-- valid histories never panic -/
theorem runFrom_total {m : ReStore} {ops : List Op} (h : Inv m) (hv : validFrom m ops = true) :
    ∃ m', runFrom m ops = some m' := by
  induction ops generalizing m with
  | nil => exact ⟨m, rfl⟩
  | cons op rest ih =>
    simp only [validFrom, Bool.and_eq_true] at hv
    obtain ⟨m1, hm1⟩ := apply_total h hv.1
    rw [hm1] at hv
    simp only [runFrom, hm1]
    exact ih (apply_step h hm1).1 hv.2

/-! ### complement pairs -/

/-- the node at id `y` is the complement of the node at id `x`: the syntactic `Complement(x)`, or
    one of the two built-in pairs `∅ / Σ*` (ids 2/3) and `ε / Σ⁺` (ids 4/5), whose second
    component is a loop over `Σ` (id 0 = `Range(0, MAX_CHAR)`) -/
def IsComplPair (t : List Node) (x y : Nat) : Prop :=
  t[y]? = some (.compl x) ∨
  (t[x]? = some .empty ∧ t[y]? = some (.loop 0 0 none) ∧ t[0]? = some (.range 0 MAX_CHAR)) ∨
  (t[x]? = some .epsilon ∧ t[y]? = some (.loop 0 1 none) ∧ t[0]? = some (.range 0 MAX_CHAR))

theorem isComplPair_of {t : List Node} (hinit : t.take 6 = initNodes)
    (hpair : ∀ i, 6 ≤ i → i % 2 = 0 → i < t.length →
      t[i + 1]? = some (.compl i) ∧ ∀ x, t[i]? ≠ some (.compl x))
    {x : Nat} (hx : x % 2 = 0) (hlt : x < t.length) : IsComplPair t x (x + 1) := by
  have hget : ∀ j, j < 6 → t[j]? = initNodes[j]? := by
    intro j hj; rw [← hinit, List.getElem?_take]; simp [hj]
  by_cases h6 : 6 ≤ x
  · exact Or.inl (hpair x h6 hx hlt).1
  · have hx' : x = 0 ∨ x = 2 ∨ x = 4 := by omega
    have h0 := hget 0 (by omega)
    rcases hx' with rfl | rfl | rfl
    · left; rw [hget 1 (by omega)]; rfl
    · right; left
      exact ⟨by rw [hget 2 (by omega)]; rfl, by rw [hget 3 (by omega)]; rfl, by rw [h0]; rfl⟩
    · right; right
      exact ⟨by rw [hget 4 (by omega)]; rfl, by rw [hget 5 (by omega)]; rfl, by rw [h0]; rfl⟩

end Smt
