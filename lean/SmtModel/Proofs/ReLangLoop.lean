/-
  Language-level algebra of bounded/unbounded iteration (helper file for Proofs/ReLangCore.lean,
  C01): facts about `loopLang L r = ⋃ k ∈ r, L^k` that justify the loop-merging rewrites of
  `ReManager::concat` and `ReManager::mk_loop`:

    L^[a,b] · L^[c,d]   = L^[a+c, b+d]                 (`loopLang_mul`)
    L · L^[a,b]          = L^[a,b] · L = L^[a+1,b+1]    (`mul_loopLang`, `loopLang_mul_self`)
    L · L                = L^[2,2]                      (`mul_self_eq_loopLang`)
    (L^[a,b])^[c,d]      = L^[a·c, b·d]  if `rightMulIsExactN [a,b] [c,d]`   (`loopLang_loopLang`)
    S · Σ*               = Σ*  if ε ∈ S ⊆ Σ*            (`mul_allStrings`)

  All ranges are assumed non-empty (`RangeOK`, which is what `RE.WF` records for a loop node).
  Only statements about `Language ℕ` and naturals; nothing here mentions terms except `sigma`.
-/
import Mathlib.Computability.Language
import SmtModel.Proofs.ReLang
import SmtModel.Proofs.LoopRange

namespace Smt
namespace RE

open LoopRangeProofs

/-- non-emptiness of a loop range: `lo ≤ hi` (the condition `RE.WF` imposes on a loop node) -/
def RangeOK (r : LoopRange) : Prop := match r.stop with | some j => r.start ≤ j | none => True

theorem mem_fin (a b k : ℕ) : LoopRange.Mem k ⟨a, some b⟩ ↔ a ≤ k ∧ k ≤ b := Iff.rfl
theorem mem_inf (a k : ℕ) : LoopRange.Mem k ⟨a, none⟩ ↔ a ≤ k := by simp [LoopRange.Mem]
theorem rangeOK_fin (a b : ℕ) : RangeOK ⟨a, some b⟩ ↔ a ≤ b := Iff.rfl
theorem rangeOK_inf (a : ℕ) : RangeOK ⟨a, none⟩ := trivial

theorem mem_start (r : LoopRange) (h : RangeOK r) : LoopRange.Mem r.start r := by
  obtain ⟨a, st⟩ := r
  cases st with
  | none => exact (mem_inf a a).2 (Nat.le_refl _)
  | some b => exact (mem_fin a b a).2 ⟨Nat.le_refl _, h⟩

theorem mem_loopLang (L : Language ℕ) (r : LoopRange) (w : List ℕ) :
    w ∈ loopLang L r ↔ ∃ k, LoopRange.Mem k r ∧ w ∈ L ^ k := Iff.rfl

theorem loopLang_congr (L : Language ℕ) (r s : LoopRange)
    (h : ∀ k, LoopRange.Mem k r ↔ LoopRange.Mem k s) : loopLang L r = loopLang L s := by
  apply Language.ext; intro w
  simp only [mem_loopLang, h]

/-! ### powers -/

theorem nil_mem_pow (L : Language ℕ) (k : ℕ) : [] ∈ L ^ k ↔ k = 0 ∨ [] ∈ L := by
  induction k with
  | zero => simp [Language.mem_one]
  | succ k ih =>
    rw [pow_succ, Language.mem_mul]
    constructor
    · rintro ⟨a, _, b, hb, hab⟩
      have h2 := (List.append_eq_nil_iff.1 hab).2
      subst h2
      exact Or.inr hb
    · rintro (h | h)
      · omega
      · exact ⟨[], ih.2 (Or.inr h), [], h, rfl⟩

theorem pow_le_pow_of_le {L M : Language ℕ} (h : L ≤ M) (k : ℕ) : L ^ k ≤ M ^ k := by
  induction k with
  | zero => simp
  | succ k ih => rw [pow_succ, pow_succ]; exact mul_le_mul' ih h

theorem loopLang_mono {L M : Language ℕ} (h : L ≤ M) (r : LoopRange) :
    loopLang L r ≤ loopLang M r := by
  rintro w ⟨k, hk, hw⟩
  exact ⟨k, hk, pow_le_pow_of_le h k hw⟩

/-! ### the set of all strings -/

theorem mem_allStrings (w : List ℕ) : w ∈ allStrings ↔ WFs w := Iff.rfl

theorem WFs_nil : WFs [] := by intro c hc; cases hc

theorem WFs_append {u v : List ℕ} : WFs (u ++ v) ↔ WFs u ∧ WFs v := by
  simp only [WFs, List.mem_append]
  constructor
  · intro h; exact ⟨fun c hc => h c (Or.inl hc), fun c hc => h c (Or.inr hc)⟩
  · rintro ⟨h1, h2⟩ c (hc | hc)
    · exact h1 c hc
    · exact h2 c hc

theorem WFs_cons {c : ℕ} {v : List ℕ} : WFs (c :: v) ↔ c ≤ MAX_CHAR ∧ WFs v := by
  simp [WFs]

theorem nil_mem_allStrings : [] ∈ allStrings := WFs_nil

theorem mul_le_allStrings {L M : Language ℕ} (hL : L ≤ allStrings) (hM : M ≤ allStrings) :
    L * M ≤ allStrings := by
  intro w hw
  obtain ⟨a, ha, b, hb, rfl⟩ := Language.mem_mul.1 hw
  exact WFs_append.2 ⟨hL ha, hM hb⟩

theorem pow_le_allStrings {L : Language ℕ} (hL : L ≤ allStrings) (k : ℕ) :
    L ^ k ≤ allStrings := by
  induction k with
  | zero =>
    intro w hw
    rw [pow_zero] at hw
    have hw' : w = [] := (Language.mem_one w).1 hw
    subst hw'; exact WFs_nil
  | succ k ih => rw [pow_succ]; exact mul_le_allStrings ih hL

theorem loopLang_le_allStrings {L : Language ℕ} (hL : L ≤ allStrings) (r : LoopRange) :
    loopLang L r ≤ allStrings := by
  rintro w ⟨k, _, hw⟩
  exact pow_le_allStrings hL k hw

/-- `S · Σ* = Σ*` when `ε ∈ S ⊆ Σ*` (arm 10 of `concat`) -/
theorem mul_allStrings {S : Language ℕ} (hnil : [] ∈ S) (hS : S ≤ allStrings) :
    S * allStrings = allStrings := by
  apply le_antisymm
  · exact mul_le_allStrings hS (le_refl _)
  · intro w hw
    exact Language.mem_mul.2 ⟨[], hnil, w, hw, rfl⟩

theorem sigma_lang (w : List ℕ) : w ∈ sigma.lang ↔ ∃ c, w = [c] ∧ c ≤ MAX_CHAR := by
  simp only [sigma, lang, CharSet.allChars]
  constructor
  · rintro ⟨c, h1, _, h3⟩; exact ⟨c, h1, h3⟩
  · rintro ⟨c, h1, h3⟩; exact ⟨c, h1, Nat.zero_le _, h3⟩

theorem sigma_pow (k : ℕ) (w : List ℕ) : w ∈ sigma.lang ^ k ↔ WFs w ∧ w.length = k := by
  induction k generalizing w with
  | zero =>
    rw [pow_zero, Language.mem_one]
    constructor
    · rintro rfl; exact ⟨WFs_nil, rfl⟩
    · rintro ⟨_, h⟩; exact List.eq_nil_of_length_eq_zero h
  | succ k ih =>
    rw [pow_succ', Language.mem_mul]
    constructor
    · rintro ⟨a, ha, b, hb, rfl⟩
      obtain ⟨c, rfl, hc⟩ := (sigma_lang a).1 ha
      obtain ⟨h1, h2⟩ := (ih b).1 hb
      exact ⟨WFs_cons.2 ⟨hc, h1⟩, by simp [h2]⟩
    · rintro ⟨h1, h2⟩
      cases w with
      | nil => simp at h2
      | cons c v =>
        obtain ⟨hc, hv⟩ := WFs_cons.1 h1
        exact ⟨[c], (sigma_lang _).2 ⟨c, rfl, hc⟩, v, (ih v).2 ⟨hv, by simpa using h2⟩, rfl⟩

theorem sigmaStar_lang : sigmaStar.lang = allStrings := by
  apply Language.ext; intro w
  simp only [sigmaStar, lang, mem_loopLang, LoopRange.star, LoopRange.infinite, mem_inf, sigma_pow]
  constructor
  · rintro ⟨k, _, h, _⟩; exact h
  · intro h; exact ⟨w.length, Nat.zero_le _, h, rfl⟩

theorem sigmaPlus_lang : sigmaPlus.lang = {w | WFs w ∧ w ≠ []} := by
  apply Language.ext; intro w
  simp only [sigmaPlus, lang, mem_loopLang, LoopRange.plus, LoopRange.infinite, mem_inf, sigma_pow]
  constructor
  · rintro ⟨k, hk, h, hl⟩
    refine ⟨h, ?_⟩
    rintro rfl
    simp at hl; omega
  · rintro ⟨h, hne⟩
    refine ⟨w.length, ?_, h, rfl⟩
    cases w with
    | nil => exact absurd rfl hne
    | cons c v => simp

/-! ### sums of ranges -/

theorem mem_addN (r s : LoopRange) (hr : RangeOK r) (hs : RangeOK s) (k : ℕ) :
    LoopRange.Mem k (r.addN s) ↔ ∃ i j, LoopRange.Mem i r ∧ LoopRange.Mem j s ∧ k = i + j := by
  obtain ⟨a, sa⟩ := r
  obtain ⟨c, sc⟩ := s
  cases sa with
  | none =>
    have e : (LoopRange.addN ⟨a, none⟩ ⟨c, sc⟩) = ⟨a + c, none⟩ := by
      cases sc <;> rfl
    rw [e, mem_inf]
    constructor
    · intro h
      exact ⟨k - c, c, (mem_inf _ _).2 (by omega), mem_start _ hs, by omega⟩
    · rintro ⟨i, j, hi, hj, rfl⟩
      have := (mem_inf _ _).1 hi
      have := hj.1
      simp only at this
      omega
  | some b =>
    have hab : a ≤ b := hr
    cases sc with
    | none =>
      have e : (LoopRange.addN ⟨a, some b⟩ ⟨c, none⟩) = ⟨a + c, none⟩ := rfl
      rw [e, mem_inf]
      constructor
      · intro h
        exact ⟨a, k - a, (mem_fin _ _ _).2 ⟨Nat.le_refl _, hab⟩, (mem_inf _ _).2 (by omega), by omega⟩
      · rintro ⟨i, j, hi, hj, rfl⟩
        have := (mem_fin _ _ _).1 hi
        have := (mem_inf _ _).1 hj
        omega
    | some d =>
      have hcd : c ≤ d := hs
      have e : (LoopRange.addN ⟨a, some b⟩ ⟨c, some d⟩) = ⟨a + c, some (b + d)⟩ := rfl
      rw [e, mem_fin]
      constructor
      · intro h
        refine ⟨max a (k - d), k - max a (k - d), (mem_fin _ _ _).2 ⟨by omega, by omega⟩,
          (mem_fin _ _ _).2 ⟨by omega, by omega⟩, by omega⟩
      · rintro ⟨i, j, hi, hj, rfl⟩
        have := (mem_fin _ _ _).1 hi
        have := (mem_fin _ _ _).1 hj
        omega

theorem rangeOK_addN (r s : LoopRange) (hr : RangeOK r) (hs : RangeOK s) : RangeOK (r.addN s) := by
  obtain ⟨a, sa⟩ := r
  obtain ⟨c, sc⟩ := s
  cases sa <;> cases sc <;> simp only [LoopRange.addN, LoopRange.infinite, LoopRange.finite, RangeOK]
  rename_i b d
  have h1 : a ≤ b := hr
  have h2 : c ≤ d := hs
  omega

/-- if `t` is the set of sums `i + j`, `i ∈ r`, `j ∈ s`, then `L^r · L^s = L^t` -/
theorem loopLang_mul_of_sum (L : Language ℕ) (r s t : LoopRange)
    (h : ∀ k, LoopRange.Mem k t ↔ ∃ i j, LoopRange.Mem i r ∧ LoopRange.Mem j s ∧ k = i + j) :
    loopLang L r * loopLang L s = loopLang L t := by
  apply Language.ext; intro w
  rw [Language.mem_mul, mem_loopLang]
  constructor
  · rintro ⟨u, ⟨i, hi, hu⟩, v, ⟨j, hj, hv⟩, rfl⟩
    refine ⟨i + j, (h _).2 ⟨i, j, hi, hj, rfl⟩, ?_⟩
    rw [pow_add]
    exact Language.mem_mul.2 ⟨u, hu, v, hv, rfl⟩
  · rintro ⟨k, hk, hw⟩
    obtain ⟨i, j, hi, hj, rfl⟩ := (h k).1 hk
    rw [pow_add] at hw
    obtain ⟨u, hu, v, hv, rfl⟩ := Language.mem_mul.1 hw
    exact ⟨u, ⟨i, hi, hu⟩, v, ⟨j, hj, hv⟩, rfl⟩

/-- `R^[a,b] · R^[c,d] = R^[a+c, b+d]` -/
theorem loopLang_mul (L : Language ℕ) (r s : LoopRange) (hr : RangeOK r) (hs : RangeOK s) :
    loopLang L r * loopLang L s = loopLang L (r.addN s) :=
  loopLang_mul_of_sum L r s _ (mem_addN r s hr hs)

theorem loopLang_point (L : Language ℕ) (k : ℕ) : loopLang L (LoopRange.point k) = L ^ k := by
  apply Language.ext; intro w
  simp only [mem_loopLang, LoopRange.point, LoopRange.finite, mem_fin]
  constructor
  · rintro ⟨j, ⟨h1, h2⟩, hw⟩
    have : j = k := by omega
    subst this; exact hw
  · intro hw; exact ⟨k, ⟨Nat.le_refl _, Nat.le_refl _⟩, hw⟩

theorem loopLang_one (L : Language ℕ) : loopLang L (LoopRange.point 1) = L := by
  rw [loopLang_point, pow_one]

theorem rangeOK_point (k : ℕ) : RangeOK (LoopRange.point k) := Nat.le_refl k

/-- `R^[i,j] · R = R^[i+1, j+1]` -/
theorem loopLang_mul_self (L : Language ℕ) (r : LoopRange) (hr : RangeOK r) :
    loopLang L r * L = loopLang L (r.addPointN 1) := by
  have h := loopLang_mul L r (LoopRange.point 1) hr (rangeOK_point 1)
  rw [loopLang_one] at h
  exact h

/-- `R · R^[i,j] = R^[i+1, j+1]` -/
theorem mul_loopLang (L : Language ℕ) (r : LoopRange) (hr : RangeOK r) :
    L * loopLang L r = loopLang L (r.addPointN 1) := by
  have h := loopLang_mul_of_sum L (LoopRange.point 1) r (r.addPointN 1) (by
    intro k
    rw [LoopRange.addPointN, mem_addN r _ hr (rangeOK_point 1)]
    constructor
    · rintro ⟨i, j, hi, hj, rfl⟩; exact ⟨j, i, hj, hi, Nat.add_comm _ _⟩
    · rintro ⟨i, j, hi, hj, rfl⟩; exact ⟨j, i, hj, hi, Nat.add_comm _ _⟩)
  rw [loopLang_one] at h
  exact h

/-- `R · R = R^2` -/
theorem mul_self_eq_loopLang (L : Language ℕ) : L * L = loopLang L (LoopRange.point 2) := by
  rw [loopLang_point, pow_two]

theorem rangeOK_addPointN (r : LoopRange) (hr : RangeOK r) (x : ℕ) : RangeOK (r.addPointN x) :=
  rangeOK_addN r _ hr (rangeOK_point x)

/-! ### iteration of the empty language and of `{ε}` -/

theorem loopLang_zero (r : LoopRange) (hr : RangeOK r) :
    loopLang (0 : Language ℕ) r = if r.start = 0 then 1 else 0 := by
  apply Language.ext; intro w
  rw [mem_loopLang]
  split
  · rename_i h0
    constructor
    · rintro ⟨k, _, hw⟩
      rcases Nat.eq_zero_or_pos k with rfl | hk
      · simpa using hw
      · rw [zero_pow (by omega)] at hw
        exact absurd hw (Language.notMem_zero _)
    · intro hw
      refine ⟨0, ?_, by simpa using hw⟩
      have := mem_start r hr
      rwa [h0] at this
  · rename_i h0
    constructor
    · rintro ⟨k, hk, hw⟩
      have : r.start ≤ k := hk.1
      rw [zero_pow (by omega)] at hw
      exact hw
    · intro hw; exact absurd hw (Language.notMem_zero _)

theorem loopLang_epsilon (r : LoopRange) (hr : RangeOK r) : loopLang (1 : Language ℕ) r = 1 := by
  apply Language.ext; intro w
  rw [mem_loopLang]
  simp only [one_pow]
  constructor
  · rintro ⟨_, _, hw⟩; exact hw
  · intro hw; exact ⟨r.start, mem_start r hr, hw⟩

/-! ### loops of loops -/

/-- `n` is a sum of `y` members of `xr` (closed form; cf. `C15.kfold_fin`, `C15.kfold_inf`) -/
def kfoldN (xr : LoopRange) (y n : ℕ) : Prop :=
  match xr.stop with
  | some b => y * xr.start ≤ n ∧ n ≤ y * b
  | none => (y = 0 ∧ n = 0) ∨ (0 < y ∧ y * xr.start ≤ n)

theorem loopLang_pow_fin (L : Language ℕ) (a b : ℕ) (hab : a ≤ b) (y : ℕ) :
    (loopLang L ⟨a, some b⟩) ^ y = loopLang L ⟨y * a, some (y * b)⟩ := by
  induction y with
  | zero =>
    rw [pow_zero]
    have := loopLang_point L 0
    simp only [LoopRange.point, LoopRange.finite, pow_zero] at this
    simpa using this.symm
  | succ y ih =>
    rw [pow_succ, ih,
      loopLang_mul L _ _ ((rangeOK_fin _ _).2 (Nat.mul_le_mul_left y hab)) ((rangeOK_fin _ _).2 hab)]
    simp only [LoopRange.addN, LoopRange.finite, Nat.succ_mul]

theorem loopLang_pow_inf (L : Language ℕ) (a : ℕ) (y : ℕ) :
    (loopLang L ⟨a, none⟩) ^ (y + 1) = loopLang L ⟨(y + 1) * a, none⟩ := by
  induction y with
  | zero => simp
  | succ y ih =>
    rw [pow_succ, ih, loopLang_mul L _ _ (rangeOK_inf _) (rangeOK_inf _)]
    simp only [LoopRange.addN, LoopRange.infinite, Nat.succ_mul]

theorem loopLang_pow (L : Language ℕ) (xr : LoopRange) (hxr : RangeOK xr) (y : ℕ) (w : List ℕ) :
    w ∈ (loopLang L xr) ^ y ↔ ∃ n, kfoldN xr y n ∧ w ∈ L ^ n := by
  obtain ⟨a, sa⟩ := xr
  cases sa with
  | some b =>
    rw [loopLang_pow_fin L a b hxr, mem_loopLang]
    exact Iff.rfl
  | none =>
    cases y with
    | zero =>
      rw [pow_zero]
      constructor
      · intro hw; exact ⟨0, Or.inl ⟨rfl, rfl⟩, by simpa using hw⟩
      · rintro ⟨n, hk, hw⟩
        rcases hk with ⟨_, rfl⟩ | ⟨h, _⟩
        · simpa using hw
        · omega
    | succ y =>
      rw [loopLang_pow_inf, mem_loopLang]
      simp only [mem_inf, kfoldN]
      constructor
      · rintro ⟨n, hn, hw⟩; exact ⟨n, Or.inr ⟨by omega, hn⟩, hw⟩
      · rintro ⟨n, (⟨h, _⟩ | ⟨_, hn⟩), hw⟩
        · omega
        · exact ⟨n, hn, hw⟩

/-- the arithmetic content of `right_mul_is_exact` for the unbounded operations: when it answers
    `true`, the union over `y ∈ r` of the `y`-fold sums of `xr` is exactly the range `mulN xr r`
    (the u32-bounded version is `C15.right_mul_true_exact`) -/
theorem mem_mulN_of_exact (xr r : LoopRange) (hxr : RangeOK xr) (hr : RangeOK r)
    (hex : xr.rightMulIsExactN r = true) (n : ℕ) :
    (∃ y, LoopRange.Mem y r ∧ kfoldN xr y n) ↔ LoopRange.Mem n (xr.mulN r) := by
  obtain ⟨a, sa⟩ := xr
  obtain ⟨c, sc⟩ := r
  by_cases hrz : (LoopRange.mk c sc).isZero = true
  · -- outer range `[0,0]`
    have hrz' : c = 0 ∧ sc = some 0 := by simpa [LoopRange.isZero] using hrz
    obtain ⟨rfl, rfl⟩ := hrz'
    have e : (LoopRange.mulN ⟨a, sa⟩ ⟨0, some 0⟩) = ⟨0, some 0⟩ := by
      simp [LoopRange.mulN, LoopRange.isZero, LoopRange.point, LoopRange.finite]
    rw [e, mem_fin]
    constructor
    · rintro ⟨y, hy, hk⟩
      have hy0 : y = 0 := by have := (mem_fin _ _ _).1 hy; omega
      subst hy0
      cases sa with
      | none =>
        rcases hk with ⟨_, h⟩ | ⟨h, _⟩
        · omega
        · omega
      | some b =>
        have : 0 * a ≤ n ∧ n ≤ 0 * b := hk
        omega
    · intro hn
      have hn0 : n = 0 := by omega
      subst hn0
      refine ⟨0, (mem_fin _ _ _).2 ⟨Nat.le_refl _, Nat.le_refl _⟩, ?_⟩
      cases sa with
      | none => exact Or.inl ⟨rfl, rfl⟩
      | some b => exact (show 0 * a ≤ 0 ∧ 0 ≤ 0 * b by omega)
  · by_cases hxz : (LoopRange.mk a sa).isZero = true
    · -- inner range `[0,0]`
      have hxz' : a = 0 ∧ sa = some 0 := by simpa [LoopRange.isZero] using hxz
      obtain ⟨rfl, rfl⟩ := hxz'
      have e : (LoopRange.mulN ⟨0, some 0⟩ ⟨c, sc⟩) = ⟨0, some 0⟩ := by
        simp [LoopRange.mulN, LoopRange.isZero, LoopRange.point, LoopRange.finite]
      rw [e, mem_fin]
      constructor
      · rintro ⟨y, _, hk⟩
        have : y * 0 ≤ n ∧ n ≤ y * 0 := hk
        omega
      · intro hn
        have hn0 : n = 0 := by omega
        subst hn0
        exact ⟨c, mem_start _ hr, (show c * 0 ≤ 0 ∧ 0 ≤ c * 0 by omega)⟩
    · have hrz2 : ¬ (c = 0 ∧ sc = some 0) := by simpa [LoopRange.isZero] using hrz
      have hxz2 : ¬ (a = 0 ∧ sa = some 0) := by simpa [LoopRange.isZero] using hxz
      cases sa with
      | none =>
        -- inner range `[a, ∞)`
        have e : (LoopRange.mulN ⟨a, none⟩ ⟨c, sc⟩) = ⟨a * c, none⟩ := by
          have h1 : (LoopRange.mk c sc).isZero = false := by simpa using hrz
          have h2 : (LoopRange.mk a none).isZero = false := by simpa using hxz
          simp only [LoopRange.mulN, h1, h2]
          cases sc <;> rfl
        rw [e, mem_inf]
        constructor
        · rintro ⟨y, hy, hk⟩
          have hcy : c ≤ y := hy.1
          have hac : a * c ≤ y * a := by rw [Nat.mul_comm a c]; exact Nat.mul_le_mul_right a hcy
          rcases hk with ⟨rfl, rfl⟩ | ⟨_, h⟩
          · have : c = 0 := by omega
            subst this; simp
          · exact Nat.le_trans hac h
        · intro hn
          by_cases hc0 : 0 < c
          · exact ⟨c, mem_start _ hr, Or.inr ⟨hc0, by
              show c * a ≤ n
              rw [Nat.mul_comm c a]; exact hn⟩⟩
          · have hc0' : c = 0 := by omega
            subst hc0'
            -- not a point (else it would be `[0,0]`), so the test gives `a ≤ 1`
            have ha1 : a ≤ 1 := by
              cases sc with
              | none => simpa [LoopRange.rightMulIsExactN, LoopRange.isPoint] using hex
              | some d =>
                have hd : d ≠ 0 := fun h => hrz2 ⟨rfl, by rw [h]⟩
                have : ¬ (0 = d) := fun h => hd h.symm
                simpa [LoopRange.rightMulIsExactN, LoopRange.isPoint, this] using hex
            by_cases hn0 : n = 0
            · subst hn0
              exact ⟨0, mem_start _ hr, Or.inl ⟨rfl, rfl⟩⟩
            · have h1s : LoopRange.Mem 1 ⟨0, sc⟩ := by
                cases sc with
                | none => exact (mem_inf 0 1).2 (Nat.zero_le _)
                | some d =>
                  have hd : d ≠ 0 := fun h => hrz2 ⟨rfl, by rw [h]⟩
                  exact (mem_fin 0 d 1).2 ⟨Nat.zero_le _, by omega⟩
              exact ⟨1, h1s, Or.inr ⟨Nat.one_pos, by show 1 * a ≤ n; omega⟩⟩
      | some b =>
        -- inner range `[a, b]`, `b > 0`
        have hab : a ≤ b := hxr
        have hb0 : 0 < b := by
          rcases Nat.eq_zero_or_pos b with rfl | h
          · exact absurd ⟨by omega, rfl⟩ hxz2
          · exact h
        have h1 : (LoopRange.mk c sc).isZero = false := by simpa using hrz
        have h2 : (LoopRange.mk a (some b)).isZero = false := by simpa using hxz
        -- the no-gap condition, unless the outer range is a point
        have hgap : sc = some c ∨ a - 1 ≤ c * (b - a) := by
          cases sc with
          | none =>
            right
            simpa [LoopRange.rightMulIsExactN, LoopRange.isPoint] using hex
          | some d =>
            by_cases hcd : c = d
            · left; rw [hcd]
            · right
              simpa [LoopRange.rightMulIsExactN, LoopRange.isPoint, hcd] using hex
        cases sc with
        | none =>
          have e : (LoopRange.mulN ⟨a, some b⟩ ⟨c, none⟩) = ⟨a * c, none⟩ := by
            simp [LoopRange.mulN, h1, h2, LoopRange.infinite]
          rw [e, mem_inf]
          constructor
          · rintro ⟨y, hy, hk⟩
            have hcy : c ≤ y := hy.1
            have hac : a * c ≤ y * a := by rw [Nat.mul_comm a c]; exact Nat.mul_le_mul_right a hcy
            have : y * a ≤ n := hk.1
            omega
          · intro hn
            have hg : a - 1 ≤ c * (b - a) := by
              rcases hgap with h | h
              · cases h
              · exact h
            have hn1 : n ≤ (c + n) * b := by
              have : n * 1 ≤ (c + n) * b := Nat.mul_le_mul (by omega) hb0
              omega
            obtain ⟨y, hy1, _, hy3, hy4⟩ :=
              cover a b c hab hg n n (by rw [Nat.mul_comm c a]; exact hn) hn1
            exact ⟨y, (mem_inf _ _).2 hy1, ⟨hy3, hy4⟩⟩
        | some d =>
          have hcd : c ≤ d := hr
          have e : (LoopRange.mulN ⟨a, some b⟩ ⟨c, some d⟩) = ⟨a * c, some (b * d)⟩ := by
            simp [LoopRange.mulN, h1, h2, LoopRange.finite]
          rw [e, mem_fin]
          constructor
          · rintro ⟨y, hy, hk⟩
            obtain ⟨hcy, hyd⟩ := (mem_fin _ _ _).1 hy
            have hac : a * c ≤ y * a := by rw [Nat.mul_comm a c]; exact Nat.mul_le_mul_right a hcy
            have hbd : y * b ≤ b * d := by rw [Nat.mul_comm b d]; exact Nat.mul_le_mul_right b hyd
            have h3 : y * a ≤ n ∧ n ≤ y * b := hk
            omega
          · rintro ⟨hn1, hn2⟩
            rcases hgap with h | hg
            · have hdc : d = c := by cases h; rfl
              subst hdc
              refine ⟨d, (mem_fin _ _ _).2 ⟨Nat.le_refl _, Nat.le_refl _⟩, ?_⟩
              show d * a ≤ n ∧ n ≤ d * b
              rw [Nat.mul_comm d a, Nat.mul_comm d b]
              exact ⟨hn1, hn2⟩
            · have hn3 : n ≤ (c + (d - c)) * b := by
                have : c + (d - c) = d := by omega
                rw [this, Nat.mul_comm d b]; exact hn2
              obtain ⟨y, hy1, hy2, hy3, hy4⟩ :=
                cover a b c hab hg (d - c) n (by rw [Nat.mul_comm c a]; exact hn1) hn3
              exact ⟨y, (mem_fin _ _ _).2 ⟨hy1, by omega⟩, ⟨hy3, hy4⟩⟩

/-- `(R^[a,b])^[c,d] = R^[a·c, b·d]` when `right_mul_is_exact` holds -/
theorem loopLang_loopLang (L : Language ℕ) (xr r : LoopRange) (hxr : RangeOK xr) (hr : RangeOK r)
    (hex : xr.rightMulIsExactN r = true) :
    loopLang (loopLang L xr) r = loopLang L (xr.mulN r) := by
  apply Language.ext; intro w
  rw [mem_loopLang, mem_loopLang]
  constructor
  · rintro ⟨y, hy, hw⟩
    obtain ⟨n, hn, hw'⟩ := (loopLang_pow L xr hxr y w).1 hw
    exact ⟨n, (mem_mulN_of_exact xr r hxr hr hex n).1 ⟨y, hy, hn⟩, hw'⟩
  · rintro ⟨n, hn, hw⟩
    obtain ⟨y, hy, hk⟩ := (mem_mulN_of_exact xr r hxr hr hex n).2 hn
    exact ⟨y, hy, (loopLang_pow L xr hxr y w).2 ⟨n, hk, hw⟩⟩

theorem rangeOK_mulN (xr r : LoopRange) (hxr : RangeOK xr) (hr : RangeOK r) :
    RangeOK (xr.mulN r) := by
  obtain ⟨a, sa⟩ := xr
  obtain ⟨c, sc⟩ := r
  unfold LoopRange.mulN
  split
  · exact rangeOK_point 0
  · cases sa <;> cases sc <;> simp only [LoopRange.infinite, LoopRange.finite, RangeOK]
    rename_i b d
    exact Nat.mul_le_mul hxr hr

end RE
end Smt
