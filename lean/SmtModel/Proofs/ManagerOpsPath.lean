/-
  Helper lemmas for Props/C07RefineOps.lean, part 2: `get_string_path` / `get_string` on the
  stateful manager (Model/ManagerOps.lean `pathLoopM`, `getStringM`) refine `RE.pathLoop` /
  `RE.getString` (Model/Closure.lean).  The `LabeledQueue<RegLan, ClassId>` of ids maps entry by
  entry to the labeled queue of trees (`mapQ`), because `treeD T` is injective on valid ids.
-/
import SmtModel.Proofs.ManagerOps

namespace Smt
namespace MgrOps
open Smt RE Node MgrInv MgrCons MgrSet MgrDeriv

/-! ### the labeled queue: ids ↦ trees -/

def mapEdge (T : List Node) (p : ClassId × Nat) : ClassId × RE := (p.1, treeD T p.2)

def mapEnt (T : List Node) (e : Mgr.LqEntryI) : LqEntry := ⟨treeD T e.node, e.edge.map (mapEdge T)⟩

def mapQ (T : List Node) (q : List Mgr.LqEntryI) : List LqEntry := q.map (mapEnt T)

def mapPath (T : List Node) (p : List (Nat × ClassId)) : List (RE × ClassId) :=
  p.map fun x => (treeD T x.1, x.2)

/-- every id mentioned in the queue is below `n` -/
def QValid (n : Nat) (q : List Mgr.LqEntryI) : Prop :=
  ∀ e ∈ q, e.node < n ∧ ∀ p, e.edge = some p → p.2 < n

theorem QValid.mono {n n' : Nat} {q : List Mgr.LqEntryI} (h : QValid n q) (hle : n ≤ n') :
    QValid n' q := fun e he =>
  ⟨Nat.lt_of_lt_of_le (h e he).1 hle, fun p hp => Nat.lt_of_lt_of_le ((h e he).2 p hp) hle⟩

theorem lqFindI_mem {q : List Mgr.LqEntryI} {x : Nat} {e : Mgr.LqEntryI}
    (h : Mgr.lqFindI q x = some e) : e ∈ q ∧ e.node = x := by
  unfold Mgr.lqFindI at h
  exact ⟨List.mem_of_find?_eq_some h, by simpa using List.find?_some h⟩

theorem lqFind_map {T : List Node} (hok : TableOK T) : ∀ {q : List Mgr.LqEntryI} {x : Nat},
    QValid T.length q → x < T.length →
    lqFind (mapQ T q) (treeD T x) = (Mgr.lqFindI q x).map (mapEnt T) := by
  intro q
  induction q with
  | nil => intro x _ _; rfl
  | cons e q ih =>
    intro x hq hx
    have he := (hq e (List.mem_cons_self ..)).1
    have hq' : QValid T.length q := fun a ha => hq a (List.mem_cons_of_mem _ ha)
    unfold lqFind Mgr.lqFindI mapQ
    rw [List.map_cons, List.find?_cons, List.find?_cons]
    by_cases hex : e.node = x
    · have h1 : decide ((mapEnt T e).node = treeD T x) = true := by
        simp [mapEnt, hex]
      have h2 : decide (e.node = x) = true := by simp [hex]
      rw [h1, h2]; rfl
    · have h1 : decide ((mapEnt T e).node = treeD T x) = false := by
        simp only [mapEnt]
        exact decide_eq_false (fun heq => hex (treeD_inj hok he hx heq))
      have h2 : decide (e.node = x) = false := by simp [hex]
      rw [h1, h2]
      exact ih hq' hx

theorem lqPush_map {T : List Node} (hok : TableOK T) {q : List Mgr.LqEntryI} {pre suc : Nat}
    (label : ClassId) (hq : QValid T.length q) (hs : suc < T.length) :
    mapQ T (Mgr.lqPushI q pre label suc) = lqPush (mapQ T q) (treeD T pre) label (treeD T suc) := by
  unfold Mgr.lqPushI lqPush
  rw [lqFind_map hok hq hs]
  cases Mgr.lqFindI q suc with
  | some _ => rfl
  | none => simp [mapQ, mapEnt, mapEdge]

theorem lqPushI_valid {n : Nat} {q : List Mgr.LqEntryI} {pre suc : Nat} (label : ClassId)
    (hq : QValid n q) (hp : pre < n) (hs : suc < n) : QValid n (Mgr.lqPushI q pre label suc) := by
  unfold Mgr.lqPushI
  cases Mgr.lqFindI q suc with
  | some _ => exact hq
  | none =>
    intro e he
    rcases List.mem_append.1 he with he | he
    · exact hq e he
    · rw [List.mem_singleton.1 he]
      exact ⟨hs, fun p hp' => by cases hp'; exact hp⟩

/-- pushing all class derivatives of `r` -/
def lqPushAllI (q : List Mgr.LqEntryI) (r : Nat) (ds : List (ClassId × Nat)) : List Mgr.LqEntryI :=
  ds.foldl (fun a d => Mgr.lqPushI a r d.1 d.2) q

theorem lqPushAllI_valid {n r : Nat} (hr : r < n) : ∀ {ds : List (ClassId × Nat)}
    {q : List Mgr.LqEntryI}, QValid n q → (∀ d ∈ ds, d.2 < n) → QValid n (lqPushAllI q r ds) := by
  intro ds
  induction ds with
  | nil => intro q hq _; exact hq
  | cons d ds ih =>
    intro q hq hds
    exact ih (lqPushI_valid d.1 hq hr (hds d (List.mem_cons_self ..)))
      (fun x hx => hds x (List.mem_cons_of_mem _ hx))

theorem lqPushAllI_map {T : List Node} (hok : TableOK T) {r : Nat} (hr : r < T.length) :
    ∀ {ds : List (ClassId × Nat)} {q : List Mgr.LqEntryI}, QValid T.length q →
    (∀ d ∈ ds, d.2 < T.length) →
    mapQ T (lqPushAllI q r ds) =
      (mapDs T ds).foldl (fun a d => lqPush a (treeD T r) d.1 d.2) (mapQ T q) := by
  intro ds
  induction ds with
  | nil => intro q _ _; rfl
  | cons d ds ih =>
    intro q hq hds
    have hd := hds d (List.mem_cons_self ..)
    show mapQ T (lqPushAllI (Mgr.lqPushI q r d.1 d.2) r ds) = _
    rw [ih (lqPushI_valid d.1 hq hr hd) (fun x hx => hds x (List.mem_cons_of_mem _ hx)),
      lqPush_map hok d.1 hq hd]
    rfl

theorem lqWalk_map {T : List Node} (hok : TableOK T) {q : List Mgr.LqEntryI}
    (hq : QValid T.length q) : ∀ (f : Nat) (edge : Option (ClassId × Nat)),
    (∀ p, edge = some p → p.2 < T.length) →
    lqWalk (mapQ T q) f (edge.map (mapEdge T)) = (Mgr.lqWalkI q f edge).map (mapPath T) := by
  intro f
  induction f with
  | zero =>
    intro edge _
    cases edge with
    | none => rfl
    | some p => rfl
  | succ f ih =>
    intro edge hedge
    cases edge with
    | none => rfl
    | some p =>
      obtain ⟨label, node⟩ := p
      have hn : node < T.length := hedge _ rfl
      simp only [Option.map_some, mapEdge, lqWalk, Mgr.lqWalkI]
      rw [lqFind_map hok hq hn]
      cases hf : Mgr.lqFindI q node with
      | none => rfl
      | some e =>
        have hmem := (lqFindI_mem hf).1
        simp only [Option.map_some]
        have := ih e.edge (hq e hmem).2
        show (lqWalk (mapQ T q) f (e.edge.map (mapEdge T))).map _ = _
        rw [this]
        cases Mgr.lqWalkI q f e.edge with
        | none => rfl
        | some l => simp [mapPath]

theorem lqFullPath_map {T : List Node} (hok : TableOK T) {q : List Mgr.LqEntryI}
    (hq : QValid T.length q) {dest : Nat} (hd : dest < T.length) :
    lqFullPath (mapQ T q) (treeD T dest) = (Mgr.lqFullPathI q dest).map (mapPath T) := by
  unfold lqFullPath Mgr.lqFullPathI
  rw [lqFind_map hok hq hd]
  cases hf : Mgr.lqFindI q dest with
  | none => rfl
  | some e =>
    have hmem := (lqFindI_mem hf).1
    simp only [Option.map_some]
    have hlen : (mapQ T q).length = q.length := by simp [mapQ]
    have := lqWalk_map hok hq (q.length + 1) e.edge (hq e hmem).2
    show (lqWalk (mapQ T q) ((mapQ T q).length + 1) (e.edge.map (mapEdge T))).map _ = _
    rw [hlen, this]
    cases Mgr.lqWalkI q (q.length + 1) e.edge with
    | none => rfl
    | some l => simp [mapPath]

theorem lqWalkI_valid {n : Nat} {q : List Mgr.LqEntryI} (hq : QValid n q) :
    ∀ (f : Nat) (edge : Option (ClassId × Nat)) (path : List (Nat × ClassId)),
    (∀ p, edge = some p → p.2 < n) → Mgr.lqWalkI q f edge = some path → ∀ x ∈ path, x.1 < n := by
  intro f
  induction f with
  | zero =>
    intro edge path _ h
    cases edge with
    | none => simp only [Mgr.lqWalkI, Option.some.injEq] at h; subst h; intro x hx; cases hx
    | some p => simp only [Mgr.lqWalkI] at h; cases h
  | succ f ih =>
    intro edge path hedge h
    cases edge with
    | none => simp only [Mgr.lqWalkI, Option.some.injEq] at h; subst h; intro x hx; cases hx
    | some p =>
      obtain ⟨label, node⟩ := p
      simp only [Mgr.lqWalkI] at h
      cases hf : Mgr.lqFindI q node with
      | none => rw [hf] at h; cases h
      | some e =>
        rw [hf] at h
        simp only [Option.map_eq_some_iff] at h
        obtain ⟨l, hl, rfl⟩ := h
        intro x hx
        rcases List.mem_cons.1 hx with rfl | hx
        · exact hedge _ rfl
        · exact ih e.edge l (hq e (lqFindI_mem hf).1).2 hl x hx

theorem lqFullPathI_valid {n : Nat} {q : List Mgr.LqEntryI} (hq : QValid n q) {dest : Nat}
    {path : List (Nat × ClassId)} (h : Mgr.lqFullPathI q dest = some path) : ∀ x ∈ path, x.1 < n := by
  unfold Mgr.lqFullPathI at h
  cases hf : Mgr.lqFindI q dest with
  | none => rw [hf] at h; cases h
  | some e =>
    rw [hf] at h
    simp only [Option.map_eq_some_iff] at h
    obtain ⟨l, hl, rfl⟩ := h
    intro x hx
    exact lqWalkI_valid hq _ e.edge l (hq e (lqFindI_mem hf).1).2 hl x (List.mem_reverse.1 hx)

/-! ### `get_string_path` -/

theorem getElem?_mapQ (T : List Node) (q : List Mgr.LqEntryI) (i : Nat) :
    (mapQ T q)[i]? = (q[i]?).map (mapEnt T) := by simp [mapQ]

theorem pathLoopM_post : ∀ (fuel : Nat) {m : Mgr} {q : List Mgr.LqEntryI} {i : Nat},
    MgrDeriv.Inv m → QValid m.tbl.length q →
    RPost m (Mgr.pathLoopM fuel m q i) (fun T o => o.map (mapPath T))
      (fun T => pathLoop (ordOf T) fuel (mapQ T q) i) ∧
    ∀ p, (Mgr.pathLoopM fuel m q i).2 = .ok (some p) →
      ∀ x ∈ p, x.1 < (Mgr.pathLoopM fuel m q i).1.tbl.length := by
  intro fuel
  induction fuel with
  | zero =>
    intro m q i hI _
    exact ⟨⟨hI, List.prefix_refl _, fun T _ _ => Or.inr rfl⟩, fun l h => by cases h⟩
  | succ fuel ih =>
    intro m q i hI hq
    cases hi : q[i]? with
    | none =>
      simp only [Mgr.pathLoopM, hi]
      refine ⟨⟨hI, List.prefix_refl _, fun T _ _ => Or.inr ?_⟩, fun p h => by cases h⟩
      simp only [pathLoop, getElem?_mapQ, hi, Option.map_none, Res.map]
    | some ent =>
      have hent := hq ent (List.mem_of_getElem? hi)
      have hr : ent.node < m.tbl.length := hent.1
      obtain ⟨te, hte⟩ := tree_total hI.ok hr
      simp only [Mgr.pathLoopM, hi, rep_nullable hte]
      by_cases hnl : te.nullable = true
      · simp only [hnl, if_true]
        cases hfp : Mgr.lqFullPathI q ent.node with
        | some p =>
          simp only
          refine ⟨⟨hI, List.prefix_refl _, ?_⟩, ?_⟩
          · intro T hT hok
            right
            simp only [pathLoop, getElem?_mapQ, hi, Option.map_some]
            have hnode : (mapEnt T ent).node = te := treeD_later hT hte
            simp only [hnode, hnl, if_true]
            rw [← treeD_later hT hte, lqFullPath_map hok (hq.mono hT.length_le)
              (lt_of_prefix hT hr), hfp]
            rfl
          · intro p' h
            cases h
            exact lqFullPathI_valid hq hfp
        | none =>
          simp only
          refine ⟨⟨hI, List.prefix_refl _, ?_⟩, fun p h => by cases h⟩
          intro T hT hok
          left
          simp only [pathLoop, getElem?_mapQ, hi, Option.map_some]
          have hnode : (mapEnt T ent).node = te := treeD_later hT hte
          simp only [hnode, hnl, if_true]
          rw [← treeD_later hT hte, lqFullPath_map hok (hq.mono hT.length_le)
            (lt_of_prefix hT hr), hfp]
          rfl
      · simp only [hnl, Bool.false_eq_true, if_false]
        have hp := classDerivsM_post hI hte
        generalize m.classDerivsM ent.node = cd at hp ⊢
        obtain ⟨m1, dso⟩ := cd
        cases dso with
        | none =>
          simp only
          refine ⟨⟨hp.inv, hp.ext, fun T hT hok => Or.inl ?_⟩, fun l h => by cases h⟩
          simp only [pathLoop, getElem?_mapQ, hi, Option.map_some]
          have hnode : (mapEnt T ent).node = te := treeD_later (List.IsPrefix.trans hp.ext hT) hte
          simp only [hnode, hnl, Bool.false_eq_true, if_false]
          rcases hp.rep T hT hok with hn | ⟨ds, hds, _⟩
          · rw [classDerivs_eq, hn]
          · cases hds
        | some ds =>
          simp only
          have hds := hp.valid ds rfl
          have hq1 : QValid m1.tbl.length (lqPushAllI q ent.node ds) :=
            lqPushAllI_valid (lt_of_prefix hp.ext hr) (hq.mono hp.ext.length_le) hds
          obtain ⟨ih1, ih2⟩ := ih (m := m1) (q := lqPushAllI q ent.node ds) (i := i + 1) hp.inv hq1
          refine ⟨⟨ih1.inv, List.IsPrefix.trans hp.ext ih1.ext, ?_⟩, ih2⟩
          intro T hT hok
          have hT1 : m1.tbl <+: T := List.IsPrefix.trans ih1.ext hT
          have hT0 : m.tbl <+: T := List.IsPrefix.trans hp.ext hT1
          simp only [pathLoop, getElem?_mapQ, hi, Option.map_some]
          have hnode : (mapEnt T ent).node = te := treeD_later hT0 hte
          simp only [hnode, hnl, Bool.false_eq_true, if_false]
          rcases hp.rep T hT1 hok with hn | ⟨ds', hds', hpure⟩
          · left; rw [classDerivs_eq, hn]
          · cases hds'
            rw [classDerivs_eq, hpure]
            simp only
            have := ih1.rep T hT hok
            rw [lqPushAllI_map hok (lt_of_prefix hT0 hr) (hq.mono hT0.length_le)
              (fun d hd => lt_of_prefix hT1 (hds d hd)), treeD_later hT0 hte] at this
            exact this

/-- `get_string_path(e)` -/
theorem getStringPathM_post (fuel : Nat) {m : Mgr} (hI : MgrDeriv.Inv m) {e : Nat} {te : RE}
    (r : treeOf m.tbl e = some te) :
    RPost m (m.getStringPathM fuel e) (fun T o => o.map (mapPath T))
      (fun T => getStringPath (ordOf T) fuel te) ∧
    ∀ p, (m.getStringPathM fuel e).2 = .ok (some p) →
      ∀ x ∈ p, x.1 < (m.getStringPathM fuel e).1.tbl.length := by
  have hq : QValid m.tbl.length [⟨e, none⟩] := by
    intro a ha
    rw [List.mem_singleton.1 ha]
    exact ⟨treeOf_lt r, fun p hp => by cases hp⟩
  obtain ⟨h1, h2⟩ := pathLoopM_post fuel (m := m) (q := [⟨e, none⟩]) (i := 0) hI hq
  refine ⟨⟨h1.inv, h1.ext, ?_⟩, h2⟩
  intro T hT hok
  have := h1.rep T hT hok
  simp only [mapQ, List.map_cons, List.map_nil, mapEnt, Option.map_none,
    treeD_later (List.IsPrefix.trans h1.ext hT) r] at this
  exact this

/-! ### `get_string` -/

theorem pathPicks_eq {m : Mgr} (hI : MgrDeriv.Inv m) {T : List Node} (hT : m.tbl <+: T) :
    ∀ (path : List (Nat × ClassId)), (∀ x ∈ path, x.1 < m.tbl.length) →
    (mapPath T path).mapM (fun (x : RE × ClassId) => x.1.derivClass.pickInClass x.2) =
      m.pathPicks path := by
  intro path
  induction path with
  | nil => intro _; rfl
  | cons x rest ih =>
    intro hv
    obtain ⟨re, cid⟩ := x
    have hre : re < m.tbl.length := hv _ (List.mem_cons_self ..)
    obtain ⟨te, hte⟩ := tree_total hI.ok hre
    have ih := ih (fun y hy => hv y (List.mem_cons_of_mem _ hy))
    simp only [mapPath, List.map_cons] at ih ⊢
    rw [List.mapM_cons, ih]
    simp only [Mgr.pathPicks, derivClass_eq hte, treeD_later hT hte]
    cases te.derivClass.pickInClass cid with
    | none => rfl
    | some c => cases m.pathPicks rest <;> rfl

theorem getString_eq (ord : RE → Nat) (fuel : Nat) (e : RE) :
    getString ord fuel e =
      match getStringPath ord fuel e with
      | .outOfFuel => .outOfFuel
      | .panic => .panic
      | .ok none => .ok none
      | .ok (some path) =>
        match path.mapM (fun (x : RE × ClassId) => x.1.derivClass.pickInClass x.2) with
        | some s => .ok (some s)
        | none => .panic := by
  unfold getString
  rfl

/-- `get_string(e)` -/
theorem getStringM_post (fuel : Nat) {m : Mgr} (hI : MgrDeriv.Inv m) {e : Nat} {te : RE}
    (r : treeOf m.tbl e = some te) :
    RPost m (m.getStringM fuel e) (fun _ o => o) (fun T => getString (ordOf T) fuel te) := by
  obtain ⟨h1, h2⟩ := getStringPathM_post fuel hI r
  unfold Mgr.getStringM
  generalize m.getStringPathM fuel e = res at h1 h2 ⊢
  obtain ⟨m1, ro⟩ := res
  cases ro with
  | outOfFuel =>
    refine ⟨h1.inv, h1.ext, ?_⟩
    intro T hT hok
    rcases h1.rep T hT hok with h | h
    · left; rw [getString_eq, h]
    · right; rw [getString_eq, h]; rfl
  | panic =>
    refine ⟨h1.inv, h1.ext, ?_⟩
    intro T hT hok
    rcases h1.rep T hT hok with h | h
    · left; rw [getString_eq, h]
    · left; rw [getString_eq, h]; rfl
  | ok po =>
    cases po with
    | none =>
      refine ⟨h1.inv, h1.ext, ?_⟩
      intro T hT hok
      rcases h1.rep T hT hok with h | h
      · left; rw [getString_eq, h]
      · right; rw [getString_eq, h]; rfl
    | some path =>
      have hv := h2 path rfl
      simp only at hv ⊢
      cases hpk : m1.pathPicks path with
      | some s =>
        simp only
        refine ⟨h1.inv, h1.ext, ?_⟩
        intro T hT hok
        rcases h1.rep T hT hok with h | h
        · left; rw [getString_eq, h]
        · right
          rw [getString_eq, h]
          simp only [Res.map, Option.map_some, pathPicks_eq h1.inv hT path hv, hpk]
      | none =>
        simp only
        refine ⟨h1.inv, h1.ext, ?_⟩
        intro T hT hok
        left
        rcases h1.rep T hT hok with h | h
        · rw [getString_eq, h]
        · rw [getString_eq, h]
          simp only [Res.map, Option.map_some, pathPicks_eq h1.inv hT path hv, hpk]

end MgrOps
end Smt
