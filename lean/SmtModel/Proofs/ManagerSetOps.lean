/-
  Helper lemmas for Props/C07Refine.lean, part 3: the id-dependent constructors.

  Sorting / deduplicating / searching an operand vector BY ACTUAL ID (`Ids.*`, Model/Manager.lean)
  is `sortByOrd` / `dedup` / `containsSorted` / `simplifySetOperation` of Model/ReCons.lean on the
  trees, with `ord := ordOf table`; hence `make_inter`, `make_union`, `inter`, `union`, `diff`
  (+ `_list`) and `concat_list` refine their tree-level counterparts and are hash-consed.
-/
import SmtModel.Proofs.ManagerCons

namespace Smt
namespace MgrSet
open Smt RE Node MgrInv MgrCons

/-! ### `treeD`: the tree of a valid id, as a total function (proofs only) -/

def treeD (t : List Node) (i : Nat) : RE := (treeOf t i).getD .empty

theorem treeD_eq {t : List Node} {i : Nat} {e : RE} (h : treeOf t i = some e) : treeD t i = e := by
  simp [treeD, h]

theorem treeOf_treeD {t : List Node} (h : TableOK t) {i : Nat} (hi : i < t.length) :
    treeOf t i = some (treeD t i) := by
  obtain ⟨e, he⟩ := tree_total h hi
  rw [treeD_eq he]; exact he

theorem ord_treeD {t : List Node} (h : TableOK t) {i : Nat} (hi : i < t.length) :
    ordOf t (treeD t i) = i := ordOf_spec h (treeOf_treeD h hi)

theorem treeD_prefix {t t2 : List Node} (h : TableOK t) (hp : t <+: t2) {i : Nat}
    (hi : i < t.length) : treeD t2 i = treeD t i :=
  treeD_eq (treeOf_prefix hp (treeOf_treeD h hi))

theorem optMapM_treeD {t : List Node} (h : TableOK t) {l : List Nat} (hl : ∀ i ∈ l, i < t.length) :
    optMapM (treeOf t) l = some (l.map (treeD t)) :=
  optMapM_map (fun c hc => treeOf_treeD h (hl c hc))

/-! ### operand vectors: ids vs trees -/

namespace IdsL

theorem mem_insert {x y : Nat} {l : List Nat} : y ∈ Smt.Ids.insert x l ↔ y = x ∨ y ∈ l := by
  induction l with
  | nil => simp [Smt.Ids.insert]
  | cons z zs ih =>
    simp only [Smt.Ids.insert]
    split
    · simp
    · simp only [List.mem_cons, ih]
      constructor
      · rintro (h | h | h)
        · exact Or.inr (Or.inl h)
        · exact Or.inl h
        · exact Or.inr (Or.inr h)
      · rintro (h | h | h)
        · exact Or.inr (Or.inl h)
        · exact Or.inl h
        · exact Or.inr (Or.inr h)

theorem mem_sort {y : Nat} {l : List Nat} : y ∈ Smt.Ids.sort l ↔ y ∈ l := by
  induction l with
  | nil => simp [Smt.Ids.sort]
  | cons z zs ih => simp [Smt.Ids.sort, mem_insert, ih]

theorem mem_dedup {y : Nat} : ∀ (l : List Nat), y ∈ Smt.Ids.dedup l → y ∈ l
  | [], h => h
  | [_], h => h
  | x :: z :: rest, h => by
    rw [Smt.Ids.dedup] at h
    split at h
    · exact List.mem_cons_of_mem _ (mem_dedup (z :: rest) h)
    · rcases List.mem_cons.1 h with rfl | h
      · exact List.mem_cons_self ..
      · exact List.mem_cons_of_mem _ (mem_dedup (z :: rest) h)

theorem mem_simplifyLoop {b : Nat} : ∀ {l : List Nat} {p : Nat} {r : List Nat},
    Smt.Ids.simplifyLoop b p l = some r → ∀ y ∈ r, y ∈ l := by
  intro l
  induction l with
  | nil => intro p r h y hy; simp [Smt.Ids.simplifyLoop] at h; subst h; cases hy
  | cons c rest ih =>
    intro p r h y hy
    simp only [Smt.Ids.simplifyLoop] at h
    split at h
    · cases h
    · split at h
      · simp only [Option.map_eq_some_iff] at h
        obtain ⟨r', hr', rfl⟩ := h
        rcases List.mem_cons.1 hy with rfl | hy
        · exact List.mem_cons_self ..
        · exact List.mem_cons_of_mem _ (ih hr' y hy)
      · exact List.mem_cons_of_mem _ (ih h y hy)

theorem mem_sso {l : List Nat} {b top y : Nat} (h : y ∈ Smt.Ids.simplifySetOperation l b top) :
    y ∈ l ∨ y = top := by
  unfold Smt.Ids.simplifySetOperation at h
  have hsub : ∀ z ∈ Smt.Ids.dedup (Smt.Ids.sort l), z ∈ l := fun z hz => mem_sort.1 (mem_dedup _ hz)
  generalize Smt.Ids.dedup (Smt.Ids.sort l) = s at h hsub
  cases s with
  | nil => cases h
  | cons v0 rest =>
    simp only at h
    split at h
    · exact Or.inr (List.mem_singleton.1 h)
    · split at h
      · exact Or.inr (List.mem_singleton.1 h)
      · rename_i r hr
        have hr' := mem_simplifyLoop hr
        split at h
        · rcases List.mem_cons.1 h with rfl | h
          · exact Or.inl (hsub _ (List.mem_cons_self ..))
          · exact Or.inl (hsub _ (List.mem_cons_of_mem _ (hr' y h)))
        · exact Or.inl (hsub _ (List.mem_cons_of_mem _ (hr' y h)))

end IdsL

section Generic
variable {g : Nat → RE} {ord : RE → Nat} {S : Nat → Prop} (hS : ∀ i, S i → ord (g i) = i)
include hS

theorem g_inj {i j : Nat} (hi : S i) (hj : S j) : g i = g j ↔ i = j := by
  constructor
  · intro h; rw [← hS i hi, ← hS j hj, h]
  · rintro rfl; rfl

theorem insert_map {x : Nat} {l : List Nat} (hx : S x) (hl : ∀ y ∈ l, S y) :
    insertByOrd ord (g x) (l.map g) = (Smt.Ids.insert x l).map g := by
  induction l with
  | nil => rfl
  | cons y ys ih =>
    simp only [List.map_cons, insertByOrd, Smt.Ids.insert, hS x hx, hS y (hl y (List.mem_cons_self ..))]
    split
    · rfl
    · rw [List.map_cons, ih (fun z hz => hl z (List.mem_cons_of_mem _ hz))]

theorem sort_map {l : List Nat} (hl : ∀ y ∈ l, S y) :
    sortByOrd ord (l.map g) = (Smt.Ids.sort l).map g := by
  induction l with
  | nil => rfl
  | cons x xs ih =>
    have hxs : ∀ y ∈ xs, S y := fun z hz => hl z (List.mem_cons_of_mem _ hz)
    simp only [List.map_cons, sortByOrd, Smt.Ids.sort, ih hxs]
    exact insert_map hS (hl x (List.mem_cons_self ..)) (fun y hy => hxs y (IdsL.mem_sort.1 hy))

theorem dedup_map : ∀ (l : List Nat), (∀ y ∈ l, S y) →
    RE.dedup (l.map g) = (Smt.Ids.dedup l).map g
  | [], _ => rfl
  | [_], _ => rfl
  | x :: y :: rest, hl => by
    have ih := dedup_map (y :: rest) (fun z hz => hl z (List.mem_cons_of_mem _ hz))
    simp only [List.map_cons] at ih ⊢
    by_cases hxy : x = y
    · subst hxy
      rw [RE.dedup, if_pos rfl, ih, Smt.Ids.dedup, if_pos rfl]
    · have hne' : g x ≠ g y := fun hh => hxy ((g_inj hS (hl x (by simp)) (hl y (by simp))).1 hh)
      rw [RE.dedup, if_neg hne', ih, Smt.Ids.dedup, if_neg hxy, List.map_cons]

theorem contains_map {x : Nat} {l : List Nat} (hx : S x) (hl : ∀ y ∈ l, S y) :
    containsSorted ord (l.map g) (g x) = Smt.Ids.contains l x := by
  induction l with
  | nil => rfl
  | cons y ys ih =>
    have hy := hl y (List.mem_cons_self ..)
    simp only [List.map_cons, containsSorted, Smt.Ids.contains, hS x hx, hS y hy,
      ih (fun z hz => hl z (List.mem_cons_of_mem _ hz))]
    by_cases hyx : y = x
    · subst hyx; simp
    · have : g y ≠ g x := fun hh => hyx ((g_inj hS hy hx).1 hh)
      simp [hyx, this]

theorem simplifyLoop_map {b : Nat} (hb : S b) : ∀ {l : List Nat} {p : Nat}, S p → (∀ y ∈ l, S y) →
    simplifyLoop ord (g b) (g p) (l.map g) = (Smt.Ids.simplifyLoop b p l).map (List.map g) := by
  intro l
  induction l with
  | nil => intro p _ _; rfl
  | cons c rest ih =>
    intro p hp hl
    have hc := hl c (List.mem_cons_self ..)
    have hrest : ∀ y ∈ rest, S y := fun z hz => hl z (List.mem_cons_of_mem _ hz)
    simp only [List.map_cons, simplifyLoop, Smt.Ids.simplifyLoop, hS c hc, hS p hp]
    split
    · rfl
    · by_cases hcb : c = b
      · subst hcb
        simp only [ne_eq, not_true_eq_false, if_false]
        exact ih hp hrest
      · have : g c ≠ g b := fun hh => hcb ((g_inj hS hc hb).1 hh)
        simp only [ne_eq, this, not_false_eq_true, if_true, hcb, ih hc hrest, Option.map_map]
        congr 1

theorem sso_map {l : List Nat} {b top : Nat} (hb : S b) (ht : S top) (hl : ∀ y ∈ l, S y) :
    simplifySetOperation ord (l.map g) (g b) (g top) =
      (Smt.Ids.simplifySetOperation l b top).map g := by
  unfold simplifySetOperation Smt.Ids.simplifySetOperation
  rw [sort_map hS hl, dedup_map hS _ (fun y hy => hl y (IdsL.mem_sort.1 hy))]
  have hsub : ∀ z ∈ Smt.Ids.dedup (Smt.Ids.sort l), S z :=
    fun z hz => hl z (IdsL.mem_sort.1 (IdsL.mem_dedup _ hz))
  generalize Smt.Ids.dedup (Smt.Ids.sort l) = s at hsub
  cases s with
  | nil => rfl
  | cons v0 rest =>
    have hv0 := hsub v0 (List.mem_cons_self ..)
    have hrest : ∀ y ∈ rest, S y := fun z hz => hsub z (List.mem_cons_of_mem _ hz)
    simp only [List.map_cons]
    rw [← List.map_cons, contains_map hS ht hsub, simplifyLoop_map hS hb hv0 hrest]
    split
    · rfl
    · cases Smt.Ids.simplifyLoop b v0 rest with
      | none => rfl
      | some r =>
        simp only [Option.map_some]
        by_cases hvb : v0 = b
        · subst hvb; simp
        · have : g v0 ≠ g b := fun hh => hvb ((g_inj hS hv0 hb).1 hh)
          simp [hvb, this]

end Generic

theorem any_congr' {α : Type} {f g : α → Bool} : ∀ {a : List α}, (∀ x ∈ a, f x = g x) →
    a.any f = a.any g := by
  intro a
  induction a with
  | nil => intro _; rfl
  | cons x xs ih =>
    intro hfg
    simp only [List.any_cons, hfg x (List.mem_cons_self ..),
      ih (fun y hy => hfg y (List.mem_cons_of_mem _ hy))]

/-! ### instantiation: `g := treeD table`, `ord := ordOf table`, valid ids -/

theorem hS_table {t : List Node} (h : TableOK t) : ∀ i, i < t.length → ordOf t (treeD t i) = i :=
  fun _ hi => ord_treeD h hi

section Table
variable {m : Mgr} (h : TableOK m.tbl)
include h

theorem valid_builtin : Mgr.emptyId < m.tbl.length ∧ Mgr.sigmaStarId < m.tbl.length ∧
    Mgr.epsilonId < m.tbl.length := by
  have := h.six_le
  simp only [Mgr.emptyId, Mgr.sigmaStarId, Mgr.epsilonId]; omega

theorem treeD_empty : treeD m.tbl Mgr.emptyId = .empty := treeD_eq (tree_emptyId h)
theorem treeD_sigmaStar : treeD m.tbl Mgr.sigmaStarId = RE.sigmaStar := treeD_eq (tree_sigmaStar h)
theorem treeD_epsilon : treeD m.tbl Mgr.epsilonId = .epsilon := treeD_eq (tree_epsilonId h)

theorem nullable_later {m2 : Mgr} (hl : Later m m2) {i : Nat} (hi : i < m.tbl.length) :
    m2.nullable i = (treeD m.tbl i).nullable :=
  rep_nullable (hl.rep (treeOf_treeD h hi))

theorem subLanguage_later {m2 : Mgr} (hl : Later m m2) {i j : Nat} (hi : i < m.tbl.length)
    (hj : j < m.tbl.length) :
    m2.subLanguage i j = RE.subLanguage (treeD m.tbl i) (treeD m.tbl j) :=
  rep_subLanguage (hl.rep (treeOf_treeD h hi)) (hl.rep (treeOf_treeD h hj))

theorem all_nullable_later {m2 : Mgr} (hl : Later m m2) {l : List Nat}
    (hv : ∀ i ∈ l, i < m.tbl.length) :
    l.all (fun r => m2.nullable r) = (l.map (treeD m.tbl)).all (·.nullable) := by
  induction l with
  | nil => rfl
  | cons x xs ih =>
    simp only [List.all_cons, List.map_cons, nullable_later h hl (hv x (List.mem_cons_self ..)),
      ih (fun i hi => hv i (List.mem_cons_of_mem _ hi))]

theorem inter_toRE {l : List Nat} (hv : ∀ i ∈ l, i < m.tbl.length) :
    (Node.inter l).toRE (treeOf m.tbl) = some (.inter (l.map (treeD m.tbl))) := by
  simp [Node.toRE, optMapM_treeD h hv]

theorem union_toRE {l : List Nat} (hv : ∀ i ∈ l, i < m.tbl.length) :
    (Node.union l).toRE (treeOf m.tbl) = some (.union (l.map (treeD m.tbl))) := by
  simp [Node.toRE, optMapM_treeD h hv]

/-- **`make_inter` (sorting by actual ids) refines `RE.makeInter (ordOf table)`, hash-consed** -/
theorem good_makeInter {l : List Nat} (hv : ∀ i ∈ l, i < m.tbl.length) :
    Good (fun m => m.makeInterM l) m (makeInter (ordOf m.tbl) (l.map (treeD m.tbl))) := by
  obtain ⟨v2, v3, v4⟩ := valid_builtin h
  have hsso := sso_map (g := treeD m.tbl) (hS_table h) (b := Mgr.sigmaStarId) (top := Mgr.emptyId)
    v3 v2 hv
  rw [treeD_sigmaStar h, treeD_empty h] at hsso
  have hv' : ∀ i ∈ Smt.Ids.simplifySetOperation l Mgr.sigmaStarId Mgr.emptyId, i < m.tbl.length := by
    intro i hi
    rcases IdsL.mem_sso hi with hi | rfl
    · exact hv i hi
    · exact v2
  have hcont := contains_map (g := treeD m.tbl) (hS_table h) (x := Mgr.epsilonId) v4 hv'
  rw [treeD_epsilon h] at hcont
  unfold makeInter
  simp only [hsso, hcont]
  have hop : ∀ m2 : Mgr, m2.makeInterM l =
      if Smt.Ids.contains (Smt.Ids.simplifySetOperation l Mgr.sigmaStarId Mgr.emptyId)
          Mgr.epsilonId = true then
        if (Smt.Ids.simplifySetOperation l Mgr.sigmaStarId Mgr.emptyId).all
            (fun r => m2.nullable r) = true then (m2, Mgr.epsilonId) else (m2, Mgr.emptyId)
      else
        match Smt.Ids.simplifySetOperation l Mgr.sigmaStarId Mgr.emptyId with
        | [] => (m2, Mgr.sigmaStarId)
        | [x] => (m2, x)
        | v => m2.make (.inter v) := by
    intro m2
    unfold Mgr.makeInterM
    generalize Smt.Ids.simplifySetOperation l Mgr.sigmaStarId Mgr.emptyId = L
    rcases L with _ | ⟨x, _ | ⟨y, rest⟩⟩ <;> rfl
  generalize Smt.Ids.simplifySetOperation l Mgr.sigmaStarId Mgr.emptyId = l' at hv' hop
  by_cases hc : Smt.Ids.contains l' Mgr.epsilonId = true
  · simp only [hc, if_true]
    by_cases hn : (l'.map (treeD m.tbl)).all (·.nullable) = true
    · rw [if_pos hn]
      refine good_congr h ?_ (good_ret h (tree_epsilonId h))
      intro m2 hl
      rw [hop m2, if_pos hc, all_nullable_later h hl hv', if_pos hn]
    · rw [if_neg hn]
      refine good_congr h ?_ (good_ret h (tree_emptyId h))
      intro m2 hl
      rw [hop m2, if_pos hc, all_nullable_later h hl hv', if_neg hn]
  · simp only [hc, Bool.false_eq_true, if_false]
    match l', hv', hop with
    | [], _, hop =>
      exact good_congr h (fun m2 _ => by rw [hop m2, if_neg hc]) (good_ret h (tree_sigmaStar h))
    | [x], hv', hop =>
      exact good_congr h (fun m2 _ => by rw [hop m2, if_neg hc])
        (good_ret h (treeOf_treeD h (hv' x (List.mem_cons_self ..))))
    | x :: y :: rest, hv', hop =>
      exact good_congr h (fun m2 _ => by rw [hop m2, if_neg hc])
        (good_make (n := .inter (x :: y :: rest)) h rfl (inter_toRE h hv'))

theorem isSubsumedM_later {m2 : Mgr} (hl : Later m m2) {r : Nat} {a : List Nat}
    (hr : r < m.tbl.length) (ha : ∀ i ∈ a, i < m.tbl.length) :
    m2.isSubsumedM r a = isSubsumed (treeD m.tbl r) (a.map (treeD m.tbl)) := by
  unfold Mgr.isSubsumedM isSubsumed
  rw [List.any_map]
  apply any_congr'
  intro x hx
  have hxv := ha x hx
  simp only [Function.comp, subLanguage_later h hl hr hxv]
  by_cases hxr : x = r
  · subst hxr; simp
  · have : treeD m.tbl x ≠ treeD m.tbl r :=
      fun hh => hxr ((g_inj (hS_table h) hxv hr).1 hh)
    simp [hxr, this]

theorem removeSubsumedAuxM_later {m2 : Mgr} (hl : Later m m2) : ∀ (rest done : List Nat),
    (∀ i ∈ done, i < m.tbl.length) → (∀ i ∈ rest, i < m.tbl.length) →
    m2.removeSubsumedAuxM done rest = m.removeSubsumedAuxM done rest ∧
    (m.removeSubsumedAuxM done rest).map (treeD m.tbl) =
      removeSubsumedAux (done.map (treeD m.tbl)) (rest.map (treeD m.tbl)) ∧
    ∀ i ∈ m.removeSubsumedAuxM done rest, i < m.tbl.length := by
  intro rest
  induction rest with
  | nil => intro done hd _; exact ⟨rfl, rfl, hd⟩
  | cons x rest ih =>
    intro done hd hr
    have hx := hr x (List.mem_cons_self ..)
    have hrest : ∀ i ∈ rest, i < m.tbl.length := fun i hi => hr i (List.mem_cons_of_mem _ hi)
    have hall : ∀ i ∈ done ++ x :: rest, i < m.tbl.length := by
      intro i hi
      rcases List.mem_append.1 hi with hi | hi
      · exact hd i hi
      · exact hr i hi
    have e2 := isSubsumedM_later h hl hx hall
    have e1 := isSubsumedM_later h (Later.refl h) hx hall
    simp only [Mgr.removeSubsumedAuxM, removeSubsumedAux, List.map_cons, e1, e2]
    rw [show done.map (treeD m.tbl) ++ treeD m.tbl x :: rest.map (treeD m.tbl) =
      (done ++ x :: rest).map (treeD m.tbl) by simp]
    split
    · exact ih done hd hrest
    · have hd' : ∀ i ∈ done ++ [x], i < m.tbl.length := by
        intro i hi
        rcases List.mem_append.1 hi with hi | hi
        · exact hd i hi
        · rw [List.mem_singleton.1 hi]; exact hx
      have := ih (done ++ [x]) hd' hrest
      rw [List.map_append] at this
      exact this

/-- **`make_union` refines `RE.makeUnion (ordOf table)`, hash-consed** -/
theorem good_makeUnion {l : List Nat} (hv : ∀ i ∈ l, i < m.tbl.length) :
    Good (fun m => m.makeUnionM l) m (makeUnion (ordOf m.tbl) (l.map (treeD m.tbl))) := by
  obtain ⟨v2, v3, v4⟩ := valid_builtin h
  have hsso := sso_map (g := treeD m.tbl) (hS_table h) (b := Mgr.emptyId) (top := Mgr.sigmaStarId)
    v2 v3 hv
  rw [treeD_sigmaStar h, treeD_empty h] at hsso
  have hv' : ∀ i ∈ Smt.Ids.simplifySetOperation l Mgr.emptyId Mgr.sigmaStarId, i < m.tbl.length := by
    intro i hi
    rcases IdsL.mem_sso hi with hi | rfl
    · exact hv i hi
    · exact v3
  unfold makeUnion
  simp only [hsso]
  have hop0 : ∀ m2 : Mgr, m2.makeUnionM l =
      match (if (Smt.Ids.simplifySetOperation l Mgr.emptyId Mgr.sigmaStarId).length ≥ 2 then
          m2.removeSubsumedM (Smt.Ids.simplifySetOperation l Mgr.emptyId Mgr.sigmaStarId)
        else Smt.Ids.simplifySetOperation l Mgr.emptyId Mgr.sigmaStarId) with
      | [] => (m2, Mgr.emptyId)
      | [x] => (m2, x)
      | v => m2.make (.union v) := by
    intro m2
    unfold Mgr.makeUnionM
    generalize Smt.Ids.simplifySetOperation l Mgr.emptyId Mgr.sigmaStarId = L
    simp only []
    generalize (if L.length ≥ 2 then m2.removeSubsumedM L else L) = L'
    rcases L' with _ | ⟨x, _ | ⟨y, rest⟩⟩ <;> rfl
  generalize Smt.Ids.simplifySetOperation l Mgr.emptyId Mgr.sigmaStarId = l' at hv' hop0
  -- the vector after `remove_subsumed`
  have key : ∀ m2, Later m m2 →
      (if l'.length ≥ 2 then m2.removeSubsumedM l' else l') =
        (if l'.length ≥ 2 then m.removeSubsumedM l' else l') := by
    intro m2 hl
    split
    · exact (removeSubsumedAuxM_later h hl l' [] (fun _ hi => by cases hi) hv').1
    · rfl
  have hmap : (if l'.length ≥ 2 then m.removeSubsumedM l' else l').map (treeD m.tbl) =
      (if (l'.map (treeD m.tbl)).length ≥ 2 then removeSubsumed (l'.map (treeD m.tbl))
        else l'.map (treeD m.tbl)) := by
    rw [List.length_map]
    split
    · exact (removeSubsumedAuxM_later h (Later.refl h) l' [] (fun _ hi => by cases hi) hv').2.1
    · rfl
  have hv'' : ∀ i ∈ (if l'.length ≥ 2 then m.removeSubsumedM l' else l'), i < m.tbl.length := by
    split
    · exact (removeSubsumedAuxM_later h (Later.refl h) l' [] (fun _ hi => by cases hi) hv').2.2
    · exact hv'
  rw [← hmap]
  have hop : ∀ m2, Later m m2 → m2.makeUnionM l =
      match (if l'.length ≥ 2 then m.removeSubsumedM l' else l') with
      | [] => (m2, Mgr.emptyId)
      | [x] => (m2, x)
      | v => m2.make (.union v) := by
    intro m2 hl
    rw [hop0 m2, key m2 hl]
  generalize (if l'.length ≥ 2 then m.removeSubsumedM l' else l') = l'' at hv'' hop
  match l'', hv'', hop with
  | [], _, hop =>
    exact good_congr h (fun m2 hl => by rw [hop m2 hl]) (good_ret h (tree_emptyId h))
  | [x], hv'', hop =>
    exact good_congr h (fun m2 hl => by rw [hop m2 hl])
      (good_ret h (treeOf_treeD h (hv'' x (List.mem_cons_self ..))))
  | x :: y :: rest, hv'', hop =>
    exact good_congr h (fun m2 hl => by rw [hop m2 hl])
      (good_make (n := .union (x :: y :: rest)) h rfl (union_toRE h hv''))

end Table

/-! ### `flatten_inter` -/

theorem flatMap_congr' {α β : Type} {f g : α → List β} : ∀ {a : List α}, (∀ x ∈ a, f x = g x) →
    a.flatMap f = a.flatMap g := by
  intro a
  induction a with
  | nil => intro _; rfl
  | cons x xs ih =>
    intro hfg
    simp only [List.flatMap_cons, hfg x (List.mem_cons_self ..),
      ih (fun y hy => hfg y (List.mem_cons_of_mem _ hy))]

theorem flattenInterList_flat {t : List Node} {F : Nat → List Nat} :
    ∀ {l : List Nat} {ts : List RE}, List.Forall₂ (fun i e => treeOf t i = some e) l ts →
    (∀ i ∈ l, ∀ e, treeOf t i = some e →
      (∀ j ∈ F i, j < t.length) ∧ (F i).map (treeD t) = flattenInter e) →
    (∀ j ∈ l.flatMap F, j < t.length) ∧ (l.flatMap F).map (treeD t) = flattenInterList ts := by
  intro l ts hf
  induction hf with
  | nil => intro _; exact ⟨fun _ hj => (by cases hj), rfl⟩
  | cons h1 _ ih =>
    intro hF
    obtain ⟨a1, a2⟩ := hF _ (List.mem_cons_self ..) _ h1
    obtain ⟨b1, b2⟩ := ih (fun i hi => hF i (List.mem_cons_of_mem _ hi))
    refine ⟨?_, ?_⟩
    · intro j hj
      simp only [List.flatMap_cons, List.mem_append] at hj
      rcases hj with hj | hj
      · exact a1 j hj
      · exact b1 j hj
    · simp only [List.flatMap_cons, List.map_append, flattenInterList, a2, b2]

theorem flattenInterF_spec {t : List Node} (h : TableOK t) : ∀ (f e : Nat) (te : RE), e < f →
    treeOf t e = some te →
    (∀ i ∈ Mgr.flattenInterF t f e, i < t.length) ∧
      (Mgr.flattenInterF t f e).map (treeD t) = flattenInter te := by
  intro f
  induction f with
  | zero => intro e te hlt; omega
  | succ f ih =>
    intro e te hlt r
    obtain ⟨n, hn, ht⟩ := treeOf_node h.children r
    by_cases hc : ∃ ts, te = .inter ts
    · obtain ⟨ts, rfl⟩ := hc
      rw [toRE_eq_inter] at ht
      obtain ⟨l, rfl, hl⟩ := ht
      rw [optMapM_eq_some_iff] at hl
      have hch := h.children e _ hn
      simp only [Mgr.flattenInterF, hn, flattenInter]
      exact flattenInterList_flat hl
        (fun i hi ei hei => ih i ei (by have := hch i (by simpa [children] using hi); omega) hei)
    · have hplain := flattenInter_plain te (fun l hh => hc ⟨l, hh⟩)
      have hne : ¬ ∃ l, n = .inter l := by
        rintro ⟨l, rfl⟩
        simp only [Node.toRE, Option.map_eq_some_iff] at ht
        obtain ⟨ts, _, rfl⟩ := ht
        exact hc ⟨_, rfl⟩
      have : Mgr.flattenInterF t (f + 1) e = [e] := by
        simp only [Mgr.flattenInterF, hn]
        cases n <;> first | rfl | exact absurd ⟨_, rfl⟩ hne
      rw [this, hplain]
      exact ⟨fun i hi => by rw [List.mem_singleton.1 hi]; exact treeOf_lt r,
        by simp [treeD_eq r]⟩

theorem flattenInterF_prefix {t t2 : List Node} (h : TableOK t) (hp : t <+: t2) :
    ∀ (f e : Nat), e < t.length → Mgr.flattenInterF t2 f e = Mgr.flattenInterF t f e := by
  intro f
  induction f with
  | zero => intro e _; rfl
  | succ f ih =>
    intro e he
    have hn : t[e]? = some t[e] := by simp [he]
    have hch := h.children e _ hn
    simp only [Mgr.flattenInterF, hn, prefix_get hp hn]
    cases hne : t[e] with
    | inter l =>
      simp only
      apply flatMap_congr'
      intro c hc
      rw [hne] at hch
      exact ih c (by have := hch c (by simpa [children] using hc); omega)
    | _ => rfl

theorem flattenInterM_spec {m : Mgr} (h : TableOK m.tbl) {e : Nat} {te : RE}
    (r : treeOf m.tbl e = some te) :
    (∀ i ∈ m.flattenInterM e, i < m.tbl.length) ∧
      (m.flattenInterM e).map (treeD m.tbl) = flattenInter te :=
  flattenInterF_spec h (e + 1) e te (by omega) r

theorem flattenInterM_later {m m2 : Mgr} (h : TableOK m.tbl) (hl : Later m m2) {e : Nat}
    (he : e < m.tbl.length) : m2.flattenInterM e = m.flattenInterM e :=
  flattenInterF_prefix h hl.1 (e + 1) e he

/-- flattening a list of operands, each first mapped by `φ` (identity or `xor 1`) -/
theorem flattenInterM_list {m : Mgr} (h : TableOK m.tbl) {φ : Nat → Nat} {ψ : RE → RE}
    (hφ : ∀ i, i < m.tbl.length → treeOf m.tbl (φ i) = some (ψ (treeD m.tbl i))) :
    ∀ {a : List Nat}, (∀ i ∈ a, i < m.tbl.length) →
    (∀ j ∈ a.flatMap (fun r => m.flattenInterM (φ r)), j < m.tbl.length) ∧
    (a.flatMap (fun r => m.flattenInterM (φ r))).map (treeD m.tbl) =
      (a.map (treeD m.tbl)).flatMap (fun r => flattenInter (ψ r)) ∧
    ∀ m2, Later m m2 → a.flatMap (fun r => m2.flattenInterM (φ r)) =
      a.flatMap (fun r => m.flattenInterM (φ r)) := by
  intro a
  induction a with
  | nil => intro _; exact ⟨fun _ hj => (by cases hj), rfl, fun _ _ => rfl⟩
  | cons x xs ih =>
    intro ha
    have hx := ha x (List.mem_cons_self ..)
    obtain ⟨a1, a2⟩ := flattenInterM_spec h (hφ x hx)
    obtain ⟨b1, b2, b3⟩ := ih (fun i hi => ha i (List.mem_cons_of_mem _ hi))
    refine ⟨?_, ?_, ?_⟩
    · intro j hj
      simp only [List.flatMap_cons, List.mem_append] at hj
      rcases hj with hj | hj
      · exact a1 j hj
      · exact b1 j hj
    · simp only [List.flatMap_cons, List.map_append, List.map_cons, a2, b2]
    · intro m2 hl
      simp only [List.flatMap_cons, b3 m2 hl,
        flattenInterM_later h hl (treeOf_lt (hφ x hx))]

/-! ### `flatten_union` -/

theorem flattenUnionList_flat {t : List Node} {F : Nat → List Nat} :
    ∀ {l : List Nat} {ts : List RE}, List.Forall₂ (fun i e => treeOf t i = some e) l ts →
    (∀ i ∈ l, ∀ e, treeOf t i = some e →
      (∀ j ∈ F i, j < t.length) ∧ (F i).map (treeD t) = flattenUnion e) →
    (∀ j ∈ l.flatMap F, j < t.length) ∧ (l.flatMap F).map (treeD t) = flattenUnionList ts := by
  intro l ts hf
  induction hf with
  | nil => intro _; exact ⟨fun _ hj => (by cases hj), rfl⟩
  | cons h1 _ ih =>
    intro hF
    obtain ⟨a1, a2⟩ := hF _ (List.mem_cons_self ..) _ h1
    obtain ⟨b1, b2⟩ := ih (fun i hi => hF i (List.mem_cons_of_mem _ hi))
    refine ⟨?_, ?_⟩
    · intro j hj
      simp only [List.flatMap_cons, List.mem_append] at hj
      rcases hj with hj | hj
      · exact a1 j hj
      · exact b1 j hj
    · simp only [List.flatMap_cons, List.map_append, flattenUnionList, a2, b2]

theorem flattenUnionF_spec {t : List Node} (h : TableOK t) : ∀ (f e : Nat) (te : RE), e < f →
    treeOf t e = some te →
    (∀ i ∈ Mgr.flattenUnionF t f e, i < t.length) ∧
      (Mgr.flattenUnionF t f e).map (treeD t) = flattenUnion te := by
  intro f
  induction f with
  | zero => intro e te hlt; omega
  | succ f ih =>
    intro e te hlt r
    obtain ⟨n, hn, ht⟩ := treeOf_node h.children r
    by_cases hc : ∃ ts, te = .union ts
    · obtain ⟨ts, rfl⟩ := hc
      rw [toRE_eq_union] at ht
      obtain ⟨l, rfl, hl⟩ := ht
      rw [optMapM_eq_some_iff] at hl
      have hch := h.children e _ hn
      simp only [Mgr.flattenUnionF, hn, flattenUnion]
      exact flattenUnionList_flat hl
        (fun i hi ei hei => ih i ei (by have := hch i (by simpa [children] using hi); omega) hei)
    · have hplain := flattenUnion_plain te (fun l hh => hc ⟨l, hh⟩)
      have hne : ¬ ∃ l, n = .union l := by
        rintro ⟨l, rfl⟩
        simp only [Node.toRE, Option.map_eq_some_iff] at ht
        obtain ⟨ts, _, rfl⟩ := ht
        exact hc ⟨_, rfl⟩
      have : Mgr.flattenUnionF t (f + 1) e = [e] := by
        simp only [Mgr.flattenUnionF, hn]
        cases n <;> first | rfl | exact absurd ⟨_, rfl⟩ hne
      rw [this, hplain]
      exact ⟨fun i hi => by rw [List.mem_singleton.1 hi]; exact treeOf_lt r,
        by simp [treeD_eq r]⟩

theorem flattenUnionF_prefix {t t2 : List Node} (h : TableOK t) (hp : t <+: t2) :
    ∀ (f e : Nat), e < t.length → Mgr.flattenUnionF t2 f e = Mgr.flattenUnionF t f e := by
  intro f
  induction f with
  | zero => intro e _; rfl
  | succ f ih =>
    intro e he
    have hn : t[e]? = some t[e] := by simp [he]
    have hch := h.children e _ hn
    simp only [Mgr.flattenUnionF, hn, prefix_get hp hn]
    cases hne : t[e] with
    | union l =>
      simp only
      apply flatMap_congr'
      intro c hc
      rw [hne] at hch
      exact ih c (by have := hch c (by simpa [children] using hc); omega)
    | _ => rfl

theorem flattenUnionM_spec {m : Mgr} (h : TableOK m.tbl) {e : Nat} {te : RE}
    (r : treeOf m.tbl e = some te) :
    (∀ i ∈ m.flattenUnionM e, i < m.tbl.length) ∧
      (m.flattenUnionM e).map (treeD m.tbl) = flattenUnion te :=
  flattenUnionF_spec h (e + 1) e te (by omega) r

theorem flattenUnionM_later {m m2 : Mgr} (h : TableOK m.tbl) (hl : Later m m2) {e : Nat}
    (he : e < m.tbl.length) : m2.flattenUnionM e = m.flattenUnionM e :=
  flattenUnionF_prefix h hl.1 (e + 1) e he

/-- flattening a list of operands, each first mapped by `φ` (identity or `xor 1`) -/
theorem flattenUnionM_list {m : Mgr} (h : TableOK m.tbl) {φ : Nat → Nat} {ψ : RE → RE}
    (hφ : ∀ i, i < m.tbl.length → treeOf m.tbl (φ i) = some (ψ (treeD m.tbl i))) :
    ∀ {a : List Nat}, (∀ i ∈ a, i < m.tbl.length) →
    (∀ j ∈ a.flatMap (fun r => m.flattenUnionM (φ r)), j < m.tbl.length) ∧
    (a.flatMap (fun r => m.flattenUnionM (φ r))).map (treeD m.tbl) =
      (a.map (treeD m.tbl)).flatMap (fun r => flattenUnion (ψ r)) ∧
    ∀ m2, Later m m2 → a.flatMap (fun r => m2.flattenUnionM (φ r)) =
      a.flatMap (fun r => m.flattenUnionM (φ r)) := by
  intro a
  induction a with
  | nil => intro _; exact ⟨fun _ hj => (by cases hj), rfl, fun _ _ => rfl⟩
  | cons x xs ih =>
    intro ha
    have hx := ha x (List.mem_cons_self ..)
    obtain ⟨a1, a2⟩ := flattenUnionM_spec h (hφ x hx)
    obtain ⟨b1, b2, b3⟩ := ih (fun i hi => ha i (List.mem_cons_of_mem _ hi))
    refine ⟨?_, ?_, ?_⟩
    · intro j hj
      simp only [List.flatMap_cons, List.mem_append] at hj
      rcases hj with hj | hj
      · exact a1 j hj
      · exact b1 j hj
    · simp only [List.flatMap_cons, List.map_append, List.map_cons, a2, b2]
    · intro m2 hl
      simp only [List.flatMap_cons, b3 m2 hl,
        flattenUnionM_later h hl (treeOf_lt (hφ x hx))]

/-! ### `inter`, `inter_list`, `union`, `union_list`, `diff`, `diff_list` -/

theorem mem_append_valid {n : Nat} {a b : List Nat} (ha : ∀ i ∈ a, i < n) (hb : ∀ i ∈ b, i < n) :
    ∀ i ∈ a ++ b, i < n := by
  intro i hi
  rcases List.mem_append.1 hi with hi | hi
  · exact ha i hi
  · exact hb i hi

section Ops
variable {m : Mgr} (h : TableOK m.tbl)
include h

/-- the pure constructors read `ord` only on trees of the table: any later table gives the same
    result -/
theorem makeInter_later {l : List Nat} (hv : ∀ i ∈ l, i < m.tbl.length) {T : List Node}
    (hT : TableOK T) (hp : m.tbl <+: T) :
    makeInter (ordOf T) (l.map (treeD m.tbl)) = makeInter (ordOf m.tbl) (l.map (treeD m.tbl)) := by
  apply makeInter_congr
  intro y hy
  obtain ⟨i, hi, rfl⟩ := List.mem_map.1 hy
  exact ordOf_stable h hT hp (treeOf_treeD h (hv i hi))

theorem makeUnion_later {l : List Nat} (hv : ∀ i ∈ l, i < m.tbl.length) {T : List Node}
    (hT : TableOK T) (hp : m.tbl <+: T) :
    makeUnion (ordOf T) (l.map (treeD m.tbl)) = makeUnion (ordOf m.tbl) (l.map (treeD m.tbl)) := by
  apply makeUnion_congr
  intro y hy
  obtain ⟨i, hi, rfl⟩ := List.mem_map.1 hy
  exact ordOf_stable h hT hp (treeOf_treeD h (hv i hi))

theorem good_inter {e1 e2 : Nat} {t1 t2 : RE} (r1 : treeOf m.tbl e1 = some t1)
    (r2 : treeOf m.tbl e2 = some t2) :
    Good (fun m => m.interM e1 e2) m (mkInter (ordOf m.tbl) t1 t2) ∧
    ∀ T, TableOK T → m.tbl <+: T → mkInter (ordOf T) t1 t2 = mkInter (ordOf m.tbl) t1 t2 := by
  obtain ⟨a1, a2⟩ := flattenInterM_spec h r1
  obtain ⟨b1, b2⟩ := flattenInterM_spec h r2
  have hv := mem_append_valid a1 b1
  have hg := good_makeInter h hv
  have hlat := fun T hT hp => makeInter_later h hv (T := T) hT hp
  simp only [List.map_append, a2, b2] at hg hlat
  exact ⟨good_congr h (fun m2 hl => by
    simp only [Mgr.interM, flattenInterM_later h hl (treeOf_lt r1),
      flattenInterM_later h hl (treeOf_lt r2)]) hg, hlat⟩

theorem good_union {e1 e2 : Nat} {t1 t2 : RE} (r1 : treeOf m.tbl e1 = some t1)
    (r2 : treeOf m.tbl e2 = some t2) :
    Good (fun m => m.unionM e1 e2) m (mkUnion (ordOf m.tbl) t1 t2) ∧
    ∀ T, TableOK T → m.tbl <+: T → mkUnion (ordOf T) t1 t2 = mkUnion (ordOf m.tbl) t1 t2 := by
  obtain ⟨a1, a2⟩ := flattenUnionM_spec h r1
  obtain ⟨b1, b2⟩ := flattenUnionM_spec h r2
  have hv := mem_append_valid a1 b1
  have hg := good_makeUnion h hv
  have hlat := fun T hT hp => makeUnion_later h hv (T := T) hT hp
  simp only [List.map_append, a2, b2] at hg hlat
  exact ⟨good_congr h (fun m2 hl => by
    simp only [Mgr.unionM, flattenUnionM_later h hl (treeOf_lt r1),
      flattenUnionM_later h hl (treeOf_lt r2)]) hg, hlat⟩

theorem good_diff {e1 e2 : Nat} {t1 t2 : RE} (r1 : treeOf m.tbl e1 = some t1)
    (r2 : treeOf m.tbl e2 = some t2) :
    Good (fun m => m.diffM e1 e2) m (mkDiff (ordOf m.tbl) t1 t2) ∧
    ∀ T, TableOK T → m.tbl <+: T → mkDiff (ordOf T) t1 t2 = mkDiff (ordOf m.tbl) t1 t2 :=
  good_inter h r1 (treeOf_xor h r2)

theorem good_interList {a : List Nat} (ha : ∀ i ∈ a, i < m.tbl.length) :
    Good (fun m => m.interListM a) m (mkInterList (ordOf m.tbl) (a.map (treeD m.tbl))) ∧
    ∀ T, TableOK T → m.tbl <+: T →
      mkInterList (ordOf T) (a.map (treeD m.tbl)) = mkInterList (ordOf m.tbl) (a.map (treeD m.tbl)) := by
  obtain ⟨b1, b2, b3⟩ := flattenInterM_list h (φ := fun i => i) (ψ := fun e => e)
    (fun i hi => treeOf_treeD h hi) ha
  have hg := good_makeInter h b1
  have hlat := fun T hT hp => makeInter_later h b1 (T := T) hT hp
  simp only [b2] at hg hlat
  exact ⟨good_congr h (fun m2 hl => by
    simp only [Mgr.interListM]
    exact congrArg _ (b3 m2 hl)) hg, hlat⟩

theorem good_unionList {a : List Nat} (ha : ∀ i ∈ a, i < m.tbl.length) :
    Good (fun m => m.unionListM a) m (mkUnionList (ordOf m.tbl) (a.map (treeD m.tbl))) ∧
    ∀ T, TableOK T → m.tbl <+: T →
      mkUnionList (ordOf T) (a.map (treeD m.tbl)) = mkUnionList (ordOf m.tbl) (a.map (treeD m.tbl)) := by
  obtain ⟨b1, b2, b3⟩ := flattenUnionM_list h (φ := fun i => i) (ψ := fun e => e)
    (fun i hi => treeOf_treeD h hi) ha
  have hg := good_makeUnion h b1
  have hlat := fun T hT hp => makeUnion_later h b1 (T := T) hT hp
  simp only [b2] at hg hlat
  exact ⟨good_congr h (fun m2 hl => by
    simp only [Mgr.unionListM]
    exact congrArg _ (b3 m2 hl)) hg, hlat⟩

theorem good_diffList {e1 : Nat} {t1 : RE} (r1 : treeOf m.tbl e1 = some t1) {a : List Nat}
    (ha : ∀ i ∈ a, i < m.tbl.length) :
    Good (fun m => m.diffListM e1 a) m (mkDiffList (ordOf m.tbl) t1 (a.map (treeD m.tbl))) ∧
    ∀ T, TableOK T → m.tbl <+: T →
      mkDiffList (ordOf T) t1 (a.map (treeD m.tbl)) =
        mkDiffList (ordOf m.tbl) t1 (a.map (treeD m.tbl)) := by
  obtain ⟨a1, a2⟩ := flattenInterM_spec h r1
  obtain ⟨b1, b2, b3⟩ := flattenInterM_list h (φ := fun i => i ^^^ 1) (ψ := fun e => e.complement)
    (fun i hi => treeOf_xor h (treeOf_treeD h hi)) ha
  have hv := mem_append_valid a1 b1
  have hg := good_makeInter h hv
  have hlat := fun T hT hp => makeInter_later h hv (T := T) hT hp
  simp only [List.map_append, a2, b2] at hg hlat
  exact ⟨good_congr h (fun m2 hl => by
    simp only [Mgr.diffListM, flattenInterM_later h hl (treeOf_lt r1)]
    exact congrArg (fun l => m2.makeInterM (m.flattenInterM e1 ++ l)) (b3 m2 hl)) hg, hlat⟩

end Ops

/-! ### `flatten_concat`, `concat_list` -/

theorem flattenConcat_plain (e : RE) (h1 : e ≠ .epsilon) (h2 : ¬ ∃ a b, e = .concat a b) :
    flattenConcat e = [e] := by
  cases e <;> first | rfl | exact absurd rfl h1 | exact absurd ⟨_, _, rfl⟩ h2

theorem flattenConcatF_spec {t : List Node} (h : TableOK t) : ∀ (f e : Nat) (te : RE), e < f →
    treeOf t e = some te →
    (∀ i ∈ Mgr.flattenConcatF t f e, i < t.length) ∧
      (Mgr.flattenConcatF t f e).map (treeD t) = flattenConcat te := by
  intro f
  induction f with
  | zero => intro e te hlt; omega
  | succ f ih =>
    intro e te hlt r
    obtain ⟨n, hn, ht⟩ := treeOf_node h.children r
    by_cases c1 : te = .epsilon
    · subst c1
      have := toRE_eq_epsilon.1 ht
      subst this
      simp only [Mgr.flattenConcatF, hn, flattenConcat]
      exact ⟨fun _ hi => (by cases hi), rfl⟩
    by_cases c2 : ∃ a b, te = .concat a b
    · obtain ⟨ta, tb, rfl⟩ := c2
      rw [toRE_eq_concat] at ht
      obtain ⟨x, y, rfl, hx, hy⟩ := ht
      have hch := h.children e _ hn
      have hxl : x < e := hch x (by simp [children])
      have hyl : y < e := hch y (by simp [children])
      obtain ⟨a1, a2⟩ := ih x ta (by omega) hx
      obtain ⟨b1, b2⟩ := ih y tb (by omega) hy
      simp only [Mgr.flattenConcatF, hn, flattenConcat, List.map_append, a2, b2]
      exact ⟨mem_append_valid a1 b1, trivial⟩
    · have hne1 : n ≠ .epsilon := by
        rintro rfl; exact c1 (by simpa [Node.toRE] using ht.symm)
      have hne2 : ¬ ∃ x y, n = .concat x y := fun hh => c2 ((concat_node_iff ht).1 hh)
      have : Mgr.flattenConcatF t (f + 1) e = [e] := by
        simp only [Mgr.flattenConcatF, hn]
        cases n <;> first | rfl | exact absurd rfl hne1 | exact absurd ⟨_, _, rfl⟩ hne2
      rw [this, flattenConcat_plain te c1 c2]
      exact ⟨fun i hi => by rw [List.mem_singleton.1 hi]; exact treeOf_lt r,
        by simp [treeD_eq r]⟩

theorem flattenConcatF_prefix {t t2 : List Node} (h : TableOK t) (hp : t <+: t2) :
    ∀ (f e : Nat), e < t.length → Mgr.flattenConcatF t2 f e = Mgr.flattenConcatF t f e := by
  intro f
  induction f with
  | zero => intro e _; rfl
  | succ f ih =>
    intro e he
    have hn : t[e]? = some t[e] := by simp [he]
    have hch := h.children e _ hn
    simp only [Mgr.flattenConcatF, hn, prefix_get hp hn]
    cases hne : t[e] with
    | concat x y =>
      rw [hne] at hch
      have hxl : x < e := hch x (by simp [children])
      have hyl : y < e := hch y (by simp [children])
      simp only [ih x (by omega), ih y (by omega)]
    | _ => rfl

theorem flattenConcatM_list {m : Mgr} (h : TableOK m.tbl) :
    ∀ {a : List Nat}, (∀ i ∈ a, i < m.tbl.length) →
    (∀ j ∈ a.flatMap m.flattenConcatM, j < m.tbl.length) ∧
    (a.flatMap m.flattenConcatM).map (treeD m.tbl) = (a.map (treeD m.tbl)).flatMap flattenConcat ∧
    ∀ m2, Later m m2 → a.flatMap m2.flattenConcatM = a.flatMap m.flattenConcatM := by
  intro a
  induction a with
  | nil => intro _; exact ⟨fun _ hj => (by cases hj), rfl, fun _ _ => rfl⟩
  | cons x xs ih =>
    intro ha
    have hx := ha x (List.mem_cons_self ..)
    obtain ⟨a1, a2⟩ := flattenConcatF_spec h (x + 1) x _ (by omega) (treeOf_treeD h hx)
    obtain ⟨b1, b2, b3⟩ := ih (fun i hi => ha i (List.mem_cons_of_mem _ hi))
    refine ⟨?_, ?_, ?_⟩
    · intro j hj
      simp only [List.flatMap_cons, List.mem_append] at hj
      rcases hj with hj | hj
      · exact a1 j hj
      · exact b1 j hj
    · simp only [List.flatMap_cons, List.map_append, List.map_cons, b2]
      congr 1
    · intro m2 hl
      simp only [List.flatMap_cons, b3 m2 hl]
      congr 1
      exact flattenConcatF_prefix h hl.1 (x + 1) x hx

theorem good_foldr_concat {m : Mgr} (h : TableOK m.tbl) : ∀ {l : List Nat},
    (∀ i ∈ l, i < m.tbl.length) →
    Good (fun m => l.foldr (fun x acc => acc.1.concatM x acc.2) (m, Mgr.epsilonId)) m
      ((l.map (treeD m.tbl)).foldr mkConcat .epsilon) := by
  intro l
  induction l with
  | nil => intro _; exact good_ret h (tree_epsilonId h)
  | cons x xs ih =>
    intro hl
    have g1 := ih (fun i hi => hl i (List.mem_cons_of_mem _ hi))
    have hx := treeOf_treeD h (hl x (List.mem_cons_self ..))
    exact good_bind (op2 := fun m' r => m'.concatM x r) g1
      (good_concat g1.post.ok (treeOf_prefix g1.post.ext hx) g1.post.rep)

/-- **`concat_list` refines `RE.concatList`, hash-consed** -/
theorem good_concatList {m : Mgr} (h : TableOK m.tbl) {a : List Nat}
    (ha : ∀ i ∈ a, i < m.tbl.length) :
    Good (fun m => m.concatListM a) m (concatList (a.map (treeD m.tbl))) := by
  obtain ⟨b1, b2, b3⟩ := flattenConcatM_list h ha
  have hg := good_foldr_concat h b1
  rw [b2] at hg
  refine good_congr h ?_ hg
  intro m2 hl
  simp only [Mgr.concatListM, b3 m2 hl]

end MgrSet
end Smt
