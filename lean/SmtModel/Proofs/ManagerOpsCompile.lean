/-
  Helper lemmas for Props/C07RefineOps.lean, part 5: `compile_with_bound` / `compile` /
  `try_compile` on the stateful manager (Model/ManagerOps.lean) refine `RE.compileWithBound` /
  `RE.compile` / `RE.tryCompile` (Model/Compile.lean).  The builder is keyed by the index of a term
  in the BFS discovery list in both models, and `treeD T` maps the discovery list of ids to the
  discovery list of trees position by position, so the two runs drive the SAME builder.
-/
import SmtModel.Proofs.ManagerOpsSearch

namespace Smt
namespace MgrOps
open Smt RE Node MgrInv MgrCons MgrSet MgrDeriv

/-! ### one unchecked derivative call -/

/-- what an `Option`-valued derivative entry point (from `m`, returning `d` in `m'`) establishes
    against the pure `P` -/
structure UStep (m m' : Mgr) (d : Nat) (P : (RE → Nat) → Option RE) : Prop where
  inv : MgrDeriv.Inv m'
  ext : m.tbl <+: m'.tbl
  valid : d < m'.tbl.length
  rep : ∀ T, m'.tbl <+: T → TableOK T → P (ordOf T) = none ∨ P (ordOf T) = some (treeD T d)

theorem cachedDerivM_ustep {m : Mgr} (hI : MgrDeriv.Inv m) {e : Nat} {te : RE}
    (r : treeOf m.tbl e = some te) (cid : ClassId) :
    (m.cachedDerivM e cid = none ∧ ∀ ord, cachedDeriv ord te cid = none) ∨
    ∃ m' d, m.cachedDerivM e cid = some (m', d) ∧ UStep m m' d (fun ord => cachedDeriv ord te cid) := by
  rcases cachedDerivM_cases hI r cid with ⟨h1, h2⟩ | ⟨m', d, h1, hs⟩
  · exact Or.inl ⟨h1, fun ord => cachedDeriv_none h2⟩
  · refine Or.inr ⟨m', d, h1, hs.inv, hs.ext, hs.valid, ?_⟩
    intro T hT hok
    cases hpick : te.derivClass.pickInClass cid with
    | none => exact Or.inl (cachedDeriv_none hpick)
    | some c =>
      right
      show cachedDeriv (ordOf T) te cid = _
      rw [cachedDeriv_pick hpick, treeD_eq (hs.rep T hT hok c hpick)]

/-- `set_derivative_unchecked(e, set)` -/
theorem setDerivativeUncheckedM_ustep {m : Mgr} (hI : MgrDeriv.Inv m) {e : Nat} {te : RE}
    (r : treeOf m.tbl e = some te) (set : CharSet) :
    (m.setDerivativeUncheckedM e set = none ∧ ∀ ord, setDerivativeUnchecked ord te set = none) ∨
    ∃ m' d, m.setDerivativeUncheckedM e set = some (m', d) ∧
      UStep m m' d (fun ord => setDerivativeUnchecked ord te set) := by
  unfold Mgr.setDerivativeUncheckedM setDerivativeUnchecked
  rw [derivClass_eq r]
  cases te.derivClass.classOfSet set with
  | error err => exact Or.inl ⟨rfl, fun _ => rfl⟩
  | ok cid => exact cachedDerivM_ustep hI r cid

/-! ### index in the discovery list -/

theorem idxOf_map {T : List Node} (hok : TableOK T) {x : Nat} (hx : x < T.length) :
    ∀ {all : List Nat}, (∀ y ∈ all, y < T.length) →
    idxOf (all.map (treeD T)) (treeD T x) = Mgr.idxOfI all x := by
  intro all
  induction all with
  | nil => intro _; rfl
  | cons a all ih =>
    intro hall
    have ha := hall a (List.mem_cons_self ..)
    have ih := ih (fun y hy => hall y (List.mem_cons_of_mem _ hy))
    unfold idxOf Mgr.idxOfI at ih ⊢
    rw [List.map_cons, List.findIdx_cons, List.findIdx_cons, ih]
    by_cases hax : a = x
    · simp [hax]
    · have h1 : decide (treeD T a = treeD T x) = false :=
        decide_eq_false (fun heq => hax (treeD_inj hok ha hx heq))
      have h2 : decide (a = x) = false := decide_eq_false hax
      rw [h1, h2]

theorem bfsPushI_valid {n : Nat} {all : List Nat} {x : Nat} (hall : ∀ y ∈ all, y < n) (hx : x < n) :
    ∀ y ∈ Mgr.bfsPushI all x, y < n := by
  intro y hy
  rcases mem_bfsPushI hy with hy | rfl
  · exact hall y hy
  · exact hx

/-! ### the `for set in e.char_ranges()` loop -/

structure CRPost (m : Mgr) (res : Mgr × Option (List Nat × Builder))
    (P : List Node → Option (List RE × Builder)) : Prop where
  inv : MgrDeriv.Inv res.1
  ext : m.tbl <+: res.1.tbl
  valid : ∀ ab, res.2 = some ab → ∀ x ∈ ab.1, x < res.1.tbl.length
  rep : ∀ T, res.1.tbl <+: T → TableOK T →
    P T = none ∨ ∃ ab, res.2 = some ab ∧ P T = some (ab.1.map (treeD T), ab.2)

theorem compileRangesM_post {r kr : Nat} {te : RE} : ∀ (sets : List CharSet) {m : Mgr}
    {all : List Nat} {b : Builder}, MgrDeriv.Inv m → treeOf m.tbl r = some te →
    (∀ x ∈ all, x < m.tbl.length) →
    CRPost m (Mgr.compileRangesM r kr m sets all b)
      (fun T => compileRanges (ordOf T) te kr sets (all.map (treeD T)) b) := by
  intro sets
  induction sets with
  | nil =>
    intro m all b hI _ hall
    refine ⟨hI, List.prefix_refl _, ?_, fun T _ _ => Or.inr ⟨(all, b), rfl, rfl⟩⟩
    intro ab h
    cases h
    exact hall
  | cons set rest ih =>
    intro m all b hI hr hall
    rcases setDerivativeUncheckedM_ustep hI hr set with ⟨h1, h2⟩ | ⟨m', d, h1, hs⟩
    · simp only [Mgr.compileRangesM, h1]
      refine ⟨hI, List.prefix_refl _, (fun ab h => by cases h), fun T _ _ => Or.inl ?_⟩
      simp only [compileRanges, h2]
    · simp only [Mgr.compileRangesM, h1]
      have hall' : ∀ x ∈ Mgr.bfsPushI all d, x < m'.tbl.length :=
        bfsPushI_valid (fun y hy => lt_of_prefix hs.ext (hall y hy)) hs.valid
      have p2 := ih (m := m') (all := Mgr.bfsPushI all d)
        (b := b.addTransition kr set (Mgr.idxOfI (Mgr.bfsPushI all d) d)) hs.inv
        (treeOf_prefix hs.ext hr) hall'
      refine ⟨p2.inv, List.IsPrefix.trans hs.ext p2.ext, p2.valid, ?_⟩
      intro T hT hok
      have hT1 : m'.tbl <+: T := List.IsPrefix.trans p2.ext hT
      rcases hs.rep T hT1 hok with hn | hsome
      · left; simp only [compileRanges, hn]
      · simp only [compileRanges, hsome]
        have hallT : ∀ y ∈ all, y < T.length :=
          fun y hy => lt_of_prefix (List.IsPrefix.trans hs.ext hT1) (hall y hy)
        have hdT : d < T.length := lt_of_prefix hT1 hs.valid
        rw [← bfsPushI_map hok hallT hdT, idxOf_map hok hdT (bfsPushI_valid hallT hdT)]
        exact p2.rep T hT hok

/-! ### the default successor -/

/-- the `if !e.empty_complement()` step of the pure loop -/
def compileDefault (ord : RE → Nat) (r : RE) (i : Nat) (all : List RE) (b : Builder) :
    Option (List RE × Builder) :=
  if !r.derivClass.emptyComplement then
    match classDerivativeUnchecked ord r .complement with
    | none => none
    | some d =>
      let all := bfsPush all d
      some (all, b.setDefaultSuccessor i (idxOf all d))
  else some (all, b)

theorem compileDefaultM_post {m : Mgr} (hI : MgrDeriv.Inv m) {r i : Nat} {te : RE}
    (hr : treeOf m.tbl r = some te) {all : List Nat} (b : Builder)
    (hall : ∀ x ∈ all, x < m.tbl.length) :
    CRPost m (m.compileDefaultM r i all b)
      (fun T => compileDefault (ordOf T) te i (all.map (treeD T)) b) := by
  unfold Mgr.compileDefaultM compileDefault
  rw [derivClass_eq hr]
  by_cases hec : te.derivClass.emptyComplement = true
  · simp only [hec, Bool.not_true, Bool.false_eq_true, if_false]
    refine ⟨hI, List.prefix_refl _, ?_, fun T _ _ => Or.inr ⟨(all, b), rfl, rfl⟩⟩
    intro ab h; cases h; exact hall
  · simp only [hec, Bool.not_false, if_true]
    rcases cachedDerivM_ustep hI hr .complement with ⟨h1, h2⟩ | ⟨m', d, h1, hs⟩
    · simp only [Mgr.classDerivativeUncheckedM, h1]
      refine ⟨hI, List.prefix_refl _, (fun ab h => by cases h), fun T _ _ => Or.inl ?_⟩
      simp only [classDerivativeUnchecked, h2]
    · simp only [Mgr.classDerivativeUncheckedM, h1]
      refine ⟨hs.inv, hs.ext, ?_, ?_⟩
      · intro ab h; cases h
        exact bfsPushI_valid (fun y hy => lt_of_prefix hs.ext (hall y hy)) hs.valid
      · intro T hT hok
        rcases hs.rep T hT hok with hn | hsome
        · left; simp only [classDerivativeUnchecked, hn]
        · right
          refine ⟨_, rfl, ?_⟩
          simp only [classDerivativeUnchecked, hsome]
          have hallT : ∀ y ∈ all, y < T.length :=
            fun y hy => lt_of_prefix (List.IsPrefix.trans hs.ext hT) (hall y hy)
          have hdT : d < T.length := lt_of_prefix hT hs.valid
          rw [← bfsPushI_map hok hallT hdT, idxOf_map hok hdT (bfsPushI_valid hallT hdT)]

/-! ### the main loop -/

theorem compileLoop_succ (ord : RE → Nat) (maxStates fuel : Nat) (all : List RE) (i : Nat)
    (b : Builder) :
    compileLoop ord maxStates (fuel + 1) all i b =
      match all[i]? with
      | none => .ok (some b)
      | some r =>
        if i == maxStates then .ok none
        else
          match compileRanges ord r i r.derivClass.list all b with
          | none => .panic
          | some (all, b) =>
            match compileDefault ord r i all b with
            | none => .panic
            | some (all, b) =>
              compileLoop ord maxStates fuel all (i + 1) (if r.nullable then b.markFinal i else b) := by
  rfl

theorem compileLoopM_post (maxStates : Nat) : ∀ (fuel : Nat) {m : Mgr} {all : List Nat} {i : Nat}
    (b : Builder), MgrDeriv.Inv m → (∀ x ∈ all, x < m.tbl.length) →
    RPost m (Mgr.compileLoopM maxStates fuel m all i b) (fun _ o => o)
      (fun T => compileLoop (ordOf T) maxStates fuel (all.map (treeD T)) i b) := by
  intro fuel
  induction fuel with
  | zero =>
    intro m all i b hI _
    exact ⟨hI, List.prefix_refl _, fun T _ _ => Or.inr rfl⟩
  | succ fuel ih =>
    intro m all i b hI hall
    cases hi : all[i]? with
    | none =>
      simp only [Mgr.compileLoopM, hi]
      refine ⟨hI, List.prefix_refl _, fun T _ _ => Or.inr ?_⟩
      simp only [compileLoop_succ, getElem?_map_treeD, hi, Option.map_none, Res.map]
    | some r =>
      have hr : r < m.tbl.length := hall r (List.mem_of_getElem? hi)
      obtain ⟨te, hte⟩ := tree_total hI.ok hr
      simp only [Mgr.compileLoopM, hi]
      by_cases hmax : (i == maxStates) = true
      · simp only [hmax, if_true]
        refine ⟨hI, List.prefix_refl _, fun T hT _ => Or.inr ?_⟩
        simp only [compileLoop_succ, getElem?_map_treeD, hi, Option.map_some, hmax, if_true, Res.map]
      · simp only [hmax, Bool.false_eq_true, if_false]
        have p1 := compileRangesM_post (kr := i) (m.derivClass r).list (b := b) hI hte hall
        rw [derivClass_eq hte] at p1 ⊢
        rw [rep_nullable hte]
        generalize Mgr.compileRangesM r i m te.derivClass.list all b = r1 at p1 ⊢
        obtain ⟨m1, o1⟩ := r1
        cases o1 with
        | none =>
          simp only
          refine ⟨p1.inv, p1.ext, fun T hT hok => Or.inl ?_⟩
          simp only [compileLoop_succ, getElem?_map_treeD, hi, Option.map_some, hmax,
            Bool.false_eq_true, if_false, treeD_later (List.IsPrefix.trans p1.ext hT) hte]
          rcases p1.rep T hT hok with hn | ⟨ab, hab, _⟩
          · rw [hn]
          · cases hab
        | some ab1 =>
          obtain ⟨all1, b1⟩ := ab1
          simp only
          have hall1 := p1.valid _ rfl
          have p2 := compileDefaultM_post (i := i) p1.inv (treeOf_prefix p1.ext hte) b1 hall1
          generalize m1.compileDefaultM r i all1 b1 = r2 at p2 ⊢
          obtain ⟨m2, o2⟩ := r2
          cases o2 with
          | none =>
            simp only
            refine ⟨p2.inv, List.IsPrefix.trans p1.ext p2.ext, fun T hT hok => Or.inl ?_⟩
            have hT1 : m1.tbl <+: T := List.IsPrefix.trans p2.ext hT
            simp only [compileLoop_succ, getElem?_map_treeD, hi, Option.map_some, hmax,
              Bool.false_eq_true, if_false, treeD_later (List.IsPrefix.trans p1.ext hT1) hte]
            rcases p1.rep T hT1 hok with hn | ⟨ab, hab, hpure⟩
            · rw [hn]
            · cases hab
              rw [hpure]
              simp only
              rcases p2.rep T hT hok with hn2 | ⟨ab2, hab2, _⟩
              · rw [hn2]
              · cases hab2
          | some ab2 =>
            obtain ⟨all2, b2⟩ := ab2
            simp only
            have hall2 := p2.valid _ rfl
            have p3 := ih (m := m2) (all := all2) (i := i + 1)
              (if te.nullable then b2.markFinal i else b2) p2.inv hall2
            refine ⟨p3.inv, List.IsPrefix.trans p1.ext (List.IsPrefix.trans p2.ext p3.ext), ?_⟩
            intro T hT hok
            have hT2 : m2.tbl <+: T := List.IsPrefix.trans p3.ext hT
            have hT1 : m1.tbl <+: T := List.IsPrefix.trans p2.ext hT2
            simp only [compileLoop_succ, getElem?_map_treeD, hi, Option.map_some, hmax,
              Bool.false_eq_true, if_false, treeD_later (List.IsPrefix.trans p1.ext hT1) hte]
            rcases p1.rep T hT1 hok with hn | ⟨ab, hab, hpure⟩
            · left; rw [hn]
            · cases hab
              rw [hpure]
              simp only
              rcases p2.rep T hT2 hok with hn2 | ⟨ab2, hab2, hpure2⟩
              · left; rw [hn2]
              · cases hab2
                rw [hpure2]
                simp only
                exact p3.rep T hT hok

/-! ### `compile_with_bound`, `try_compile`, `compile` -/

theorem compileWithBoundM_post (fuel : Nat) {m : Mgr} (hI : MgrDeriv.Inv m) {e : Nat} {te : RE}
    (r : treeOf m.tbl e = some te) (maxStates : Nat) :
    RPost m (m.compileWithBoundM fuel e maxStates) (fun _ o => o)
      (fun T => compileWithBound (ordOf T) fuel te maxStates) := by
  unfold Mgr.compileWithBoundM compileWithBound
  by_cases h0 : (maxStates == 0) = true
  · simp only [h0, if_true]
    exact ⟨hI, List.prefix_refl _, fun T _ _ => Or.inr rfl⟩
  · simp only [h0, Bool.false_eq_true, if_false]
    have hall : ∀ x ∈ [e], x < m.tbl.length := by
      intro x hx; rw [List.mem_singleton.1 hx]; exact treeOf_lt r
    have p := compileLoopM_post maxStates fuel (m := m) (all := [e]) (i := 0) (Builder.new 0) hI hall
    generalize Mgr.compileLoopM maxStates fuel m [e] 0 (Builder.new 0) = r1 at p ⊢
    obtain ⟨m1, ro⟩ := r1
    have key : ∀ T, m1.tbl <+: T → TableOK T →
        compileLoop (ordOf T) maxStates fuel [te] 0 (Builder.new 0) = .panic ∨
        compileLoop (ordOf T) maxStates fuel [te] 0 (Builder.new 0) = ro := by
      intro T hT hok
      have := p.rep T hT hok
      simp only [List.map_cons, List.map_nil, treeD_later (List.IsPrefix.trans p.ext hT) r] at this
      rcases this with h | h
      · exact Or.inl h
      · right; rw [h]; cases ro <;> rfl
    cases ro with
    | outOfFuel =>
      refine ⟨p.inv, p.ext, fun T hT hok => ?_⟩
      rcases key T hT hok with h | h
      · left; rw [h]
      · right; rw [h]; rfl
    | panic =>
      refine ⟨p.inv, p.ext, fun T hT hok => Or.inl ?_⟩
      rcases key T hT hok with h | h <;> rw [h]
    | ok bo =>
      cases bo with
      | none =>
        refine ⟨p.inv, p.ext, fun T hT hok => ?_⟩
        rcases key T hT hok with h | h
        · left; rw [h]
        · right; rw [h]; rfl
      | some b =>
        simp only
        cases hb : b.buildUnchecked with
        | none =>
          refine ⟨p.inv, p.ext, fun T hT hok => Or.inl ?_⟩
          rcases key T hT hok with h | h
          · rw [h]
          · rw [h]; simp only [hb]
        | some A =>
          refine ⟨p.inv, p.ext, fun T hT hok => ?_⟩
          rcases key T hT hok with h | h
          · left; rw [h]
          · right; rw [h]; simp only [hb]; rfl

theorem tryCompileM_post (fuel : Nat) {m : Mgr} (hI : MgrDeriv.Inv m) {e : Nat} {te : RE}
    (r : treeOf m.tbl e = some te) (maxStates : Nat) :
    RPost m (m.tryCompileM fuel e maxStates) (fun _ o => o)
      (fun T => tryCompile (ordOf T) fuel te maxStates) :=
  compileWithBoundM_post fuel hI r maxStates

theorem compileM_post (fuel : Nat) {m : Mgr} (hI : MgrDeriv.Inv m) {e : Nat} {te : RE}
    (r : treeOf m.tbl e = some te) :
    RPost m (m.compileM fuel e) (fun _ A => A) (fun T => compile (ordOf T) fuel te) := by
  have p := compileWithBoundM_post fuel hI r (fuel + 1)
  unfold Mgr.compileM compile
  generalize m.compileWithBoundM fuel e (fuel + 1) = r1 at p ⊢
  obtain ⟨m1, ro⟩ := r1
  cases ro with
  | outOfFuel =>
    refine ⟨p.inv, p.ext, fun T hT hok => ?_⟩
    rcases p.rep T hT hok with h | h
    · left; rw [h]
    · right; rw [h]; rfl
  | panic =>
    refine ⟨p.inv, p.ext, fun T hT hok => Or.inl ?_⟩
    rcases p.rep T hT hok with h | h <;> (rw [h]; try rfl)
  | ok ao =>
    cases ao with
    | none =>
      refine ⟨p.inv, p.ext, fun T hT hok => Or.inl ?_⟩
      rcases p.rep T hT hok with h | h <;> (rw [h]; try rfl)
    | some A =>
      refine ⟨p.inv, p.ext, fun T hT hok => ?_⟩
      rcases p.rep T hT hok with h | h
      · left; rw [h]
      · right; rw [h]; rfl

end MgrOps
end Smt
