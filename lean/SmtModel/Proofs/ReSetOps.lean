/-
  Language theorems for the id-dependent set-operation constructors of `ReManager`
  (Model/ReCons.lean: `simplify_set_operation`, `make_inter`, `make_union` with `remove_subsumed`,
  `inter`, `inter_list`, `union`, `union_list`, `diff`, `diff_list`), for EVERY id assignment
  `ord : RE → Nat` satisfying `PairSound` — no injectivity, no sortedness assumption.

  The facts about the id-independent part of the model (nullable, complement, flattening) are taken
  as ONE explicit hypothesis bundle `CoreFacts` (proved in Proofs/ReLangCore.lean), the soundness of
  the inclusion test `subLanguage` as the hypothesis `SubSound` (proved in Props/C16.lean).
  Proofs/ReSetOpsFinal.lean instantiates both and exports the hypothesis-free theorems.

  Sections
    0. Σ* denotes all SMT strings
    1. sort / dedup / contains
    2. simplify_set_operation: shape, language (∩ and ∪ readings), WF
    3. make_inter
    4. remove_subsumed, make_union
    5. inter, inter_list, union, union_list, diff, diff_list
    6. history independence (C07) and dependence on `ord` only through the operands
-/
import SmtModel.Proofs.ReLang
import SmtModel.Model.ReCons

namespace Smt
namespace RE

/-- the id-independent facts used below (all proved in Proofs/ReLangCore.lean) -/
structure CoreFacts : Prop where
  lang_sub : ∀ e : RE, e.WF → e.lang ≤ allStrings
  nullable_iff : ∀ e : RE, e.WF → (e.nullable = true ↔ [] ∈ e.lang)
  complement_lang : ∀ e : RE, e.WF → e.complement.lang = {w | WFs w ∧ w ∉ e.lang}
  complement_wf : ∀ e : RE, e.WF → e.complement.WF
  flattenUnion_lang : ∀ e : RE, langAny (flattenUnion e) = e.lang
  flattenUnion_wf : ∀ e : RE, e.WF → WFList (flattenUnion e)
  flattenInter_lang : ∀ e : RE, e.WF → {w | WFs w ∧ w ∈ langAll (flattenInter e)} = e.lang
  flattenInter_wf : ∀ e : RE, e.WF → WFList (flattenInter e)

/-- soundness of the syntactic inclusion test (C16) -/
def SubSound : Prop :=
  ∀ r s : RE, r.WF → s.WF → subLanguage r s = true → r.lang ≤ s.lang

namespace CoreFacts

theorem lang_wfs (cf : CoreFacts) {e : RE} (he : e.WF) {w : List ℕ} (hw : w ∈ e.lang) : WFs w :=
  cf.lang_sub e he hw

theorem complement_mem (cf : CoreFacts) {e : RE} (he : e.WF) (w : List ℕ) :
    w ∈ e.complement.lang ↔ WFs w ∧ w ∉ e.lang := by
  rw [cf.complement_lang e he]; exact Iff.rfl

theorem flattenInter_mem (cf : CoreFacts) {e : RE} (he : e.WF) (w : List ℕ) :
    w ∈ e.lang ↔ WFs w ∧ w ∈ langAll (flattenInter e) := by
  conv_lhs => rw [← cf.flattenInter_lang e he]
  exact Iff.rfl

theorem flattenUnion_mem (cf : CoreFacts) (e : RE) (w : List ℕ) :
    w ∈ e.lang ↔ w ∈ langAny (flattenUnion e) := by
  rw [cf.flattenUnion_lang e]

end CoreFacts

/-! ## 0. `Σ*` denotes all SMT strings

  (helper lemmas live in the namespace `Smt.RE.SetOps` so that they cannot clash with the
  same facts proved in Proofs/ReLangLoop.lean / ReLangCore.lean) -/

namespace SetOps

theorem sigma_lang : sigma.lang = {w | ∃ c, w = [c] ∧ c ≤ MAX_CHAR} := by
  simp only [sigma, lang, CharSet.allChars, Nat.zero_le, true_and]
  rfl

theorem sigma_mem (w : List ℕ) : w ∈ sigma.lang ↔ ∃ c, w = [c] ∧ c ≤ MAX_CHAR := by
  rw [sigma_lang]; exact Iff.rfl

theorem sigma_pow_wfs : ∀ (k : ℕ) (w : List ℕ), w ∈ sigma.lang ^ k → WFs w := by
  intro k
  induction k with
  | zero =>
    intro w hw
    rw [pow_zero, Language.mem_one] at hw
    subst hw; intro c hc; cases hc
  | succ k ih =>
    intro w hw
    rw [pow_succ, Language.mem_mul] at hw
    obtain ⟨a, ha, b, hb, rfl⟩ := hw
    obtain ⟨c, rfl, hc⟩ := (sigma_mem b).1 hb
    intro d hd
    rcases List.mem_append.1 hd with hd | hd
    · exact ih a ha d hd
    · rw [List.mem_singleton] at hd; subst hd; exact hc

theorem wfs_mem_sigma_pow : ∀ w : List ℕ, WFs w → w ∈ sigma.lang ^ w.length := by
  intro w
  induction w with
  | nil => intro _; rw [List.length_nil, pow_zero, Language.mem_one]
  | cons c w ih =>
    intro hw
    rw [List.length_cons, pow_succ', Language.mem_mul]
    refine ⟨[c], (sigma_mem _).2 ⟨c, rfl, hw c (List.mem_cons_self ..)⟩, w,
      ih (fun d hd => hw d (List.mem_cons_of_mem _ hd)), rfl⟩

theorem sigmaStar_mem (w : List ℕ) : w ∈ sigmaStar.lang ↔ WFs w := by
  constructor
  · intro hw
    simp only [sigmaStar, lang] at hw
    obtain ⟨k, _, hk⟩ := hw
    exact sigma_pow_wfs k w hk
  · intro hw
    simp only [sigmaStar, lang]
    exact ⟨w.length, ⟨Nat.zero_le _, trivial⟩, wfs_mem_sigma_pow w hw⟩

theorem sigmaStar_lang : sigmaStar.lang = allStrings := by
  ext w; rw [sigmaStar_mem]; exact Iff.rfl

theorem sigmaStar_wf : sigmaStar.WF := by
  simp only [sigmaStar, sigma, WF, CharSet.WF, CharSet.allChars, LoopRange.star, LoopRange.infinite]
  exact ⟨⟨Nat.zero_le _, Nat.le_refl _⟩, trivial⟩

theorem empty_mem (w : List ℕ) : w ∈ RE.empty.lang ↔ False := by
  simp only [lang]; exact Iff.rfl

theorem epsilon_mem (w : List ℕ) : w ∈ RE.epsilon.lang ↔ w = [] := by
  simp only [lang]; exact Language.mem_one w

end SetOps
open SetOps

/-! ## 1. sort / dedup / contains -/

theorem insertByOrd_perm (ord : RE → Nat) (x : RE) (l : List RE) :
    (insertByOrd ord x l).Perm (x :: l) := by
  induction l with
  | nil => exact List.Perm.refl _
  | cons y ys ih =>
    simp only [insertByOrd]
    split
    · exact List.Perm.refl _
    · exact (List.Perm.cons y ih).trans (List.Perm.swap x y ys)

theorem sortByOrd_perm (ord : RE → Nat) (l : List RE) : (sortByOrd ord l).Perm l := by
  induction l with
  | nil => exact List.Perm.refl _
  | cons x xs ih =>
    simp only [sortByOrd]
    exact (insertByOrd_perm ord x _).trans (List.Perm.cons x ih)

theorem mem_sortByOrd (ord : RE → Nat) (l : List RE) (x : RE) : x ∈ sortByOrd ord l ↔ x ∈ l :=
  (sortByOrd_perm ord l).mem_iff

theorem mem_dedup (l : List RE) (x : RE) : x ∈ dedup l ↔ x ∈ l := by
  fun_induction dedup l with
  | case1 => exact Iff.rfl
  | case2 y => exact Iff.rfl
  | case3 b rest ih =>
    rw [ih]; simp only [List.mem_cons]
    constructor
    · intro h; exact Or.inr h
    · rintro (h | h)
      · exact Or.inl h
      · exact h
  | case4 a b rest h ih =>
    simp only [List.mem_cons] at ih ⊢
    rw [ih]

theorem dedup_sublist (l : List RE) : (dedup l).Sublist l := by
  fun_induction dedup l with
  | case1 => exact List.Sublist.refl _
  | case2 y => exact List.Sublist.refl _
  | case3 b rest ih => exact List.Sublist.cons _ ih
  | case4 a b rest h ih => exact List.Sublist.cons_cons _ ih

theorem mem_dedup_sort (ord : RE → Nat) (l : List RE) (x : RE) :
    x ∈ dedup (sortByOrd ord l) ↔ x ∈ l := by
  rw [mem_dedup, mem_sortByOrd]

/-- `contains` never claims a member that is not there.  (The converse needs a sorted slice and an
    injective `ord`; it is never needed: a missed `top`/`ε` only skips a shortcut.) -/
theorem containsSorted_sound (ord : RE → Nat) (l : List RE) (x : RE) :
    containsSorted ord l x = true → x ∈ l := by
  induction l with
  | nil => intro h; simp [containsSorted] at h
  | cons y ys ih =>
    intro h
    simp only [containsSorted] at h
    split at h
    · rename_i hyx; subst hyx; exact List.mem_cons_self ..
    · split at h
      · cases h
      · exact List.mem_cons_of_mem _ (ih h)

/-! ## 2. `simplify_set_operation` -/

theorem simplifyLoop_none (ord : RE → Nat) (bottom : RE) :
    ∀ (rest : List RE) (previous : RE), simplifyLoop ord bottom previous rest = none →
      ∃ p c, p ∈ previous :: rest ∧ c ∈ rest ∧ ord c = ord p + 1 ∧ ord p % 2 = 0 := by
  intro rest
  induction rest with
  | nil => intro previous h; simp [simplifyLoop] at h
  | cons current rest ih =>
    intro previous h
    simp only [simplifyLoop] at h
    split at h
    · rename_i hc
      simp only [Bool.and_eq_true, decide_eq_true_eq] at hc
      exact ⟨previous, current, List.mem_cons_self .., List.mem_cons_self .., hc.1, hc.2⟩
    · split at h
      · rw [Option.map_eq_none_iff] at h
        obtain ⟨p, c, hp, hc, h1, h2⟩ := ih current h
        exact ⟨p, c, List.mem_cons_of_mem _ hp, List.mem_cons_of_mem _ hc, h1, h2⟩
      · obtain ⟨p, c, hp, hc, h1, h2⟩ := ih previous h
        refine ⟨p, c, ?_, List.mem_cons_of_mem _ hc, h1, h2⟩
        rcases List.mem_cons.1 hp with hp | hp
        · subst hp; exact List.mem_cons_self ..
        · exact List.mem_cons_of_mem _ (List.mem_cons_of_mem _ hp)

theorem simplifyLoop_some (ord : RE → Nat) (bottom : RE) :
    ∀ (rest : List RE) (previous : RE) (l : List RE),
      simplifyLoop ord bottom previous rest = some l → ∀ x, x ∈ l ↔ x ∈ rest ∧ x ≠ bottom := by
  intro rest
  induction rest with
  | nil =>
    intro previous l h x
    simp only [simplifyLoop, Option.some.injEq] at h
    subst h; simp
  | cons current rest ih =>
    intro previous l h x
    simp only [simplifyLoop] at h
    split at h
    · cases h
    · split at h
      · rename_i hcb
        rw [Option.map_eq_some_iff] at h
        obtain ⟨l', hl', rfl⟩ := h
        have := ih current l' hl' x
        simp only [List.mem_cons, this]
        constructor
        · rintro (h | h)
          · subst h; exact ⟨Or.inl rfl, hcb⟩
          · exact ⟨Or.inr h.1, h.2⟩
        · rintro ⟨h | h, hb⟩
          · exact Or.inl h
          · exact Or.inr ⟨h, hb⟩
      · rename_i hcb
        have hcb : current = bottom := Classical.not_not.1 hcb
        have := ih previous l h x
        rw [this]; simp only [List.mem_cons]
        constructor
        · rintro ⟨h, hb⟩; exact ⟨Or.inr h, hb⟩
        · rintro ⟨h | h, hb⟩
          · subst h; exact absurd hcb hb
          · exact ⟨h, hb⟩

/-- The shape of the result of `simplify_set_operation`, for an arbitrary `ord`: either it is
    `[top]` — and then `top` is an operand or the adjacency test fired on two operands — or it has
    exactly the operands different from `bottom` as members. -/
theorem simplifySetOperation_shape (ord : RE → Nat) (v : List RE) (bottom top : RE) :
    (simplifySetOperation ord v bottom top = [top] ∧
      (top ∈ v ∨ ∃ p ∈ v, ∃ c ∈ v, ord c = ord p + 1 ∧ ord p % 2 = 0)) ∨
    (∀ x, x ∈ simplifySetOperation ord v bottom top ↔ x ∈ v ∧ x ≠ bottom) := by
  have hs := mem_dedup_sort ord v
  unfold simplifySetOperation
  generalize dedup (sortByOrd ord v) = s at hs
  cases s with
  | nil =>
    right; intro x
    have := hs x
    simp only [List.not_mem_nil, false_iff] at this
    simp [this]
  | cons v0 rest =>
    simp only
    split
    · rename_i hc
      exact Or.inl ⟨rfl, Or.inl ((hs top).1 (containsSorted_sound ord _ _ hc))⟩
    · cases hl : simplifyLoop ord bottom v0 rest with
      | none =>
        obtain ⟨p, c, hp, hc, h1, h2⟩ := simplifyLoop_none ord bottom rest v0 hl
        exact Or.inl ⟨rfl, Or.inr ⟨p, (hs p).1 hp, c, (hs c).1 (List.mem_cons_of_mem _ hc), h1, h2⟩⟩
      | some l =>
        right; intro x
        have hmem := simplifyLoop_some ord bottom rest v0 l hl x
        rw [← hs x]
        simp only
        split
        · rename_i hvb
          simp only [List.mem_cons, hmem]
          constructor
          · rintro (h | h)
            · subst h; exact ⟨Or.inl rfl, hvb⟩
            · exact ⟨Or.inr h.1, h.2⟩
          · rintro ⟨h | h, hb⟩
            · exact Or.inl h
            · exact Or.inr ⟨h, hb⟩
        · rename_i hvb
          have hvb : v0 = bottom := Classical.not_not.1 hvb
          rw [hmem]; simp only [List.mem_cons]
          constructor
          · rintro ⟨h, hb⟩; exact ⟨Or.inr h, hb⟩
          · rintro ⟨h | h, hb⟩
            · subst h; exact absurd hvb hb
            · exact ⟨h, hb⟩

/-- with `PairSound`: the adjacency test fires only on a term and its complement -/
theorem simplifySetOperation_cases {ord : RE → Nat} (hp : PairSound ord)
    (v : List RE) (bottom top : RE) :
    (simplifySetOperation ord v bottom top = [top] ∧ (top ∈ v ∨ ∃ x ∈ v, x.complement ∈ v)) ∨
    (∀ x, x ∈ simplifySetOperation ord v bottom top ↔ x ∈ v ∧ x ≠ bottom) := by
  rcases simplifySetOperation_shape ord v bottom top with ⟨he, h⟩ | h
  · refine Or.inl ⟨he, ?_⟩
    rcases h with h | ⟨p, hpv, c, hcv, h1, h2⟩
    · exact Or.inl h
    · have := hp p c h1 h2
      subst this
      exact Or.inr ⟨p, hpv, hcv⟩
  · exact Or.inr h

/-- every member of the result is an operand or `top` (any `ord`) -/
theorem simplifySetOperation_subset (ord : RE → Nat) (v : List RE) (bottom top : RE) :
    ∀ x ∈ simplifySetOperation ord v bottom top, x ∈ v ∨ x = top := by
  intro x hx
  rcases simplifySetOperation_shape ord v bottom top with ⟨he, _⟩ | h
  · rw [he, List.mem_singleton] at hx; exact Or.inr hx
  · exact Or.inl ((h x).1 hx).1

theorem simplifySetOperation_wf (ord : RE → Nat) (v : List RE) (bottom top : RE)
    (hv : WFList v) (ht : top.WF) : WFList (simplifySetOperation ord v bottom top) := by
  rw [WFList_iff] at hv ⊢
  intro e he
  rcases simplifySetOperation_subset ord v bottom top e he with h | h
  · exact hv e h
  · subst h; exact ht

/-- pointwise form of `simplifySetOperation_inter_lang` -/
theorem simplifySetOperation_inter_mem (cf : CoreFacts) {ord : RE → Nat} (hp : PairSound ord)
    (v : List RE) (hv : WFList v) (w : List ℕ) (hw : WFs w) :
    w ∈ langAll (simplifySetOperation ord v sigmaStar .empty) ↔ w ∈ langAll v := by
  rw [WFList_iff] at hv
  rcases simplifySetOperation_cases hp v sigmaStar .empty with ⟨he, h⟩ | h
  · rw [he]
    have hn : w ∉ langAll v := by
      rw [langAll_iff]; intro hall
      rcases h with h | ⟨x, hx, hxc⟩
      · exact (empty_mem w).1 (hall _ h)
      · exact ((cf.complement_mem (hv x hx) w).1 (hall _ hxc)).2 (hall _ hx)
    constructor
    · intro h1
      rw [langAll_iff] at h1
      exact ((empty_mem w).1 (h1 _ (List.mem_singleton.2 rfl))).elim
    · intro h1; exact absurd h1 hn
  · rw [langAll_iff, langAll_iff]
    constructor
    · intro hall e he
      by_cases hes : e = sigmaStar
      · subst hes; exact (sigmaStar_mem w).2 hw
      · exact hall e ((h e).2 ⟨he, hes⟩)
    · intro hall e he
      exact hall e ((h e).1 he).1

/-- `simplify_set_operation(v, Σ*, ∅)` preserves the intersection (within the SMT strings):
    `Σ*` is neutral, `∅` absorbing, `x ∩ ¬x = ∅`, duplicates are harmless. -/
theorem simplifySetOperation_inter_lang (cf : CoreFacts) {ord : RE → Nat} (hp : PairSound ord)
    (v : List RE) (hv : WFList v) :
    ({w | WFs w ∧ w ∈ langAll (simplifySetOperation ord v sigmaStar .empty)} : Language ℕ)
      = {w | WFs w ∧ w ∈ langAll v} := by
  ext w
  constructor
  · rintro ⟨hw, h⟩; exact ⟨hw, (simplifySetOperation_inter_mem cf hp v hv w hw).1 h⟩
  · rintro ⟨hw, h⟩; exact ⟨hw, (simplifySetOperation_inter_mem cf hp v hv w hw).2 h⟩

/-- `simplify_set_operation(v, ∅, Σ*)` preserves the union: `∅` is neutral, `Σ*` absorbing
    (all languages are sets of SMT strings), `x ∪ ¬x = Σ*`, duplicates are harmless. -/
theorem simplifySetOperation_union_lang (cf : CoreFacts) {ord : RE → Nat} (hp : PairSound ord)
    (v : List RE) (hv : WFList v) :
    langAny (simplifySetOperation ord v .empty sigmaStar) = langAny v := by
  rw [WFList_iff] at hv
  ext w
  rcases simplifySetOperation_cases hp v .empty sigmaStar with ⟨he, h⟩ | h
  · rw [he, langAny_iff, langAny_iff]
    constructor
    · rintro ⟨e, he, hwe⟩
      rw [List.mem_singleton] at he; subst he
      have hw : WFs w := (sigmaStar_mem w).1 hwe
      rcases h with h | ⟨x, hx, hxc⟩
      · exact ⟨_, h, hwe⟩
      · by_cases hwx : w ∈ x.lang
        · exact ⟨x, hx, hwx⟩
        · exact ⟨_, hxc, (cf.complement_mem (hv x hx) w).2 ⟨hw, hwx⟩⟩
    · rintro ⟨e, he, hwe⟩
      exact ⟨_, List.mem_singleton.2 rfl, (sigmaStar_mem w).2 (cf.lang_wfs (hv e he) hwe)⟩
  · rw [langAny_iff, langAny_iff]
    constructor
    · rintro ⟨e, he, hwe⟩; exact ⟨e, ((h e).1 he).1, hwe⟩
    · rintro ⟨e, he, hwe⟩
      refine ⟨e, (h e).2 ⟨he, ?_⟩, hwe⟩
      intro hee; subst hee; exact (empty_mem w).1 hwe

/-! ## 3. `make_inter` -/

theorem SetOps.all_nullable_iff (v : List RE) :
    v.all (·.nullable) = true ↔ ∀ e ∈ v, e.nullable = true := by
  simp [List.all_eq_true]

/-- `make_inter` denotes the intersection of its operands (within the SMT strings). -/
theorem makeInter_lang (cf : CoreFacts) {ord : RE → Nat} (hp : PairSound ord)
    (v : List RE) (hv : WFList v) :
    (makeInter ord v).lang = {w | WFs w ∧ w ∈ langAll v} := by
  rw [← simplifySetOperation_inter_lang cf hp v hv]
  have hv' := simplifySetOperation_wf ord v sigmaStar .empty hv trivial
  unfold makeInter
  generalize simplifySetOperation ord v sigmaStar .empty = v' at hv'
  rw [WFList_iff] at hv'
  simp only
  split
  · rename_i hc
    have heps := containsSorted_sound ord _ _ hc
    split
    · rename_i hall
      rw [all_nullable_iff] at hall
      ext w
      rw [epsilon_mem]
      constructor
      · intro h; subst h
        refine ⟨fun c hc => (by cases hc), ?_⟩
        rw [langAll_iff]
        intro e he
        exact (cf.nullable_iff e (hv' e he)).1 (hall e he)
      · rintro ⟨_, h⟩
        rw [langAll_iff] at h
        exact (epsilon_mem w).1 (h _ heps)
    · rename_i hall
      rw [all_nullable_iff] at hall
      ext w
      rw [empty_mem]
      constructor
      · exact False.elim
      · rintro ⟨_, h⟩
        rw [langAll_iff] at h
        have hw : w = [] := (epsilon_mem w).1 (h _ heps)
        subst hw
        exact hall (fun e he => (cf.nullable_iff e (hv' e he)).2 (h e he))
  · split
    · ext w
      rw [sigmaStar_mem]
      exact ⟨fun h => ⟨h, trivial⟩, fun h => h.1⟩
    · rename_i x _
      ext w
      constructor
      · intro h
        exact ⟨cf.lang_wfs (hv' x (List.mem_singleton.2 rfl)) h, h, trivial⟩
      · rintro ⟨_, h, _⟩; exact h
    · simp only [lang]; rfl

theorem makeInter_wf (ord : RE → Nat) (v : List RE) (hv : WFList v) : (makeInter ord v).WF := by
  have hv' := simplifySetOperation_wf ord v sigmaStar .empty hv trivial
  unfold makeInter
  generalize simplifySetOperation ord v sigmaStar .empty = v' at hv'
  simp only
  split
  · split <;> trivial
  · split
    · exact sigmaStar_wf
    · exact hv'.1
    · simp only [WF]; exact hv'

/-! ## 4. `remove_subsumed`, `make_union` -/

theorem isSubsumed_iff (r : RE) (a : List RE) :
    isSubsumed r a = true ↔ ∃ x ∈ a, x ≠ r ∧ subLanguage r x = true := by
  simp [isSubsumed]

theorem SetOps.langAny_append (a b : List RE) : langAny (a ++ b) = langAny a + langAny b := by
  ext w
  rw [Language.mem_add, langAny_iff, langAny_iff, langAny_iff]
  simp only [List.mem_append]
  constructor
  · rintro ⟨e, he | he, hw⟩
    · exact Or.inl ⟨e, he, hw⟩
    · exact Or.inr ⟨e, he, hw⟩
  · rintro (⟨e, he, hw⟩ | ⟨e, he, hw⟩)
    · exact ⟨e, Or.inl he, hw⟩
    · exact ⟨e, Or.inr he, hw⟩

/-- every element kept by `remove_subsumed` is one of the given elements -/
theorem removeSubsumedAux_subset :
    ∀ (todo done : List RE), ∀ e ∈ removeSubsumedAux done todo, e ∈ done ++ todo := by
  intro todo
  induction todo with
  | nil => intro done e he; simpa [removeSubsumedAux] using he
  | cons x rest ih =>
    intro done e he
    simp only [removeSubsumedAux] at he
    split at he
    · have := ih done e he
      rcases List.mem_append.1 this with h | h
      · exact List.mem_append_left _ h
      · exact List.mem_append_right _ (List.mem_cons_of_mem _ h)
    · have := ih (done ++ [x]) e he
      simpa using this

/-- The loop invariant of `remove_subsumed`: one step drops an element only if it is included in
    another element that is still present, so the union of `done ++ todo` never changes. -/
theorem removeSubsumedAux_lang (hs : SubSound) :
    ∀ (todo done : List RE), WFList (done ++ todo) →
      langAny (removeSubsumedAux done todo) = langAny (done ++ todo) := by
  intro todo
  induction todo with
  | nil => intro done _; simp [removeSubsumedAux]
  | cons x rest ih =>
    intro done hwf
    rw [WFList_iff] at hwf
    simp only [removeSubsumedAux]
    split
    · rename_i hsub
      obtain ⟨y, hy, hyx, hsl⟩ := (isSubsumed_iff _ _).1 hsub
      have hxle : x.lang ≤ y.lang :=
        hs x y (hwf x (List.mem_append_right _ (List.mem_cons_self ..))) (hwf y hy) hsl
      have hy' : y ∈ done ++ rest := by
        rcases List.mem_append.1 hy with h | h
        · exact List.mem_append_left _ h
        · rcases List.mem_cons.1 h with h | h
          · exact absurd h hyx
          · exact List.mem_append_right _ h
      rw [ih done]
      · ext w
        rw [langAny_iff, langAny_iff]
        constructor
        · rintro ⟨e, he, hw⟩
          refine ⟨e, ?_, hw⟩
          rcases List.mem_append.1 he with h | h
          · exact List.mem_append_left _ h
          · exact List.mem_append_right _ (List.mem_cons_of_mem _ h)
        · rintro ⟨e, he, hw⟩
          rcases List.mem_append.1 he with h | h
          · exact ⟨e, List.mem_append_left _ h, hw⟩
          · rcases List.mem_cons.1 h with h | h
            · subst h; exact ⟨y, hy', hxle hw⟩
            · exact ⟨e, List.mem_append_right _ h, hw⟩
      · rw [WFList_iff]
        intro e he
        apply hwf
        rcases List.mem_append.1 he with h | h
        · exact List.mem_append_left _ h
        · exact List.mem_append_right _ (List.mem_cons_of_mem _ h)
    · have hl : done ++ [x] ++ rest = done ++ x :: rest := by simp
      rw [ih (done ++ [x]), hl]
      rw [hl, WFList_iff]; exact hwf

/-- `remove_subsumed` preserves the union, given soundness of the inclusion test. -/
theorem removeSubsumed_lang (hs : SubSound) (a : List RE) (ha : WFList a) :
    langAny (removeSubsumed a) = langAny a := by
  have := removeSubsumedAux_lang hs a [] (by simpa using ha)
  simpa [removeSubsumed] using this

theorem removeSubsumed_subset (a : List RE) : ∀ e ∈ removeSubsumed a, e ∈ a := by
  intro e he
  simpa [removeSubsumed] using removeSubsumedAux_subset a [] e he

theorem removeSubsumed_wf (a : List RE) (ha : WFList a) : WFList (removeSubsumed a) := by
  rw [WFList_iff] at ha ⊢
  exact fun e he => ha e (removeSubsumed_subset a e he)

/-- `make_union` denotes the union of its operands. -/
theorem makeUnion_lang (cf : CoreFacts) (hs : SubSound) {ord : RE → Nat} (hp : PairSound ord)
    (v : List RE) (hv : WFList v) : (makeUnion ord v).lang = langAny v := by
  rw [← simplifySetOperation_union_lang cf hp v hv]
  have hv' := simplifySetOperation_wf ord v .empty sigmaStar hv sigmaStar_wf
  unfold makeUnion
  generalize simplifySetOperation ord v .empty sigmaStar = v' at hv'
  have h2 : langAny (if v'.length ≥ 2 then removeSubsumed v' else v') = langAny v' := by
    split
    · exact removeSubsumed_lang hs v' hv'
    · rfl
  rw [← h2]
  simp only
  generalize (if v'.length ≥ 2 then removeSubsumed v' else v') = v''
  split
  · simp only [lang, langAny]
  · simp only [langAny, add_zero]
  · simp only [lang]

theorem makeUnion_wf (ord : RE → Nat) (v : List RE) (hv : WFList v) : (makeUnion ord v).WF := by
  have hv' := simplifySetOperation_wf ord v .empty sigmaStar hv sigmaStar_wf
  unfold makeUnion
  generalize simplifySetOperation ord v .empty sigmaStar = v' at hv'
  have h2 : WFList (if v'.length ≥ 2 then removeSubsumed v' else v') := by
    split
    · exact removeSubsumed_wf v' hv'
    · exact hv'
  simp only
  generalize (if v'.length ≥ 2 then removeSubsumed v' else v') = v'' at h2
  split
  · trivial
  · exact h2.1
  · simp only [WF]; exact h2

/-! ## 5. `inter`, `inter_list`, `union`, `union_list`, `diff`, `diff_list` -/

theorem SetOps.WFList_append {a b : List RE} (ha : WFList a) (hb : WFList b) : WFList (a ++ b) := by
  rw [WFList_iff] at ha hb ⊢
  intro e he
  rcases List.mem_append.1 he with h | h
  · exact ha e h
  · exact hb e h

theorem SetOps.WFList_flatMap {α : Type} (f : α → List RE) (l : List α) (h : ∀ a ∈ l, WFList (f a)) :
    WFList (l.flatMap f) := by
  rw [WFList_iff]
  intro e he
  obtain ⟨a, ha, hea⟩ := List.mem_flatMap.1 he
  exact (WFList_iff _).1 (h a ha) e hea

theorem SetOps.langAll_append_mem (a b : List RE) (w : List ℕ) :
    w ∈ langAll (a ++ b) ↔ w ∈ langAll a ∧ w ∈ langAll b := by
  simp only [langAll_iff, List.mem_append]
  constructor
  · intro h; exact ⟨fun e he => h e (Or.inl he), fun e he => h e (Or.inr he)⟩
  · rintro ⟨h1, h2⟩ e (he | he)
    · exact h1 e he
    · exact h2 e he

theorem mkInter_wf (cf : CoreFacts) (ord : RE → Nat) (a b : RE) (ha : a.WF) (hb : b.WF) :
    (mkInter ord a b).WF :=
  makeInter_wf ord _ (WFList_append (cf.flattenInter_wf a ha) (cf.flattenInter_wf b hb))

/-- `ReManager::inter` denotes the intersection. -/
theorem mkInter_lang (cf : CoreFacts) {ord : RE → Nat} (hp : PairSound ord)
    (a b : RE) (ha : a.WF) (hb : b.WF) : (mkInter ord a b).lang = a.lang ⊓ b.lang := by
  unfold mkInter
  rw [makeInter_lang cf hp _ (WFList_append (cf.flattenInter_wf a ha) (cf.flattenInter_wf b hb))]
  ext w
  show (WFs w ∧ w ∈ langAll (flattenInter a ++ flattenInter b)) ↔ (w ∈ a.lang ∧ w ∈ b.lang)
  rw [langAll_append_mem, cf.flattenInter_mem ha, cf.flattenInter_mem hb]
  constructor
  · rintro ⟨hw, h1, h2⟩; exact ⟨⟨hw, h1⟩, ⟨hw, h2⟩⟩
  · rintro ⟨⟨hw, h1⟩, ⟨_, h2⟩⟩; exact ⟨hw, h1, h2⟩

theorem mkInterList_wf (cf : CoreFacts) (ord : RE → Nat) (l : List RE) (hl : WFList l) :
    (mkInterList ord l).WF :=
  makeInter_wf ord _ (WFList_flatMap _ l (fun a ha => cf.flattenInter_wf a ((WFList_iff l).1 hl a ha)))

/-- `ReManager::inter_list` denotes the intersection of the list (all SMT strings if empty). -/
theorem mkInterList_lang (cf : CoreFacts) {ord : RE → Nat} (hp : PairSound ord)
    (l : List RE) (hl : WFList l) :
    (mkInterList ord l).lang = {w | WFs w ∧ w ∈ langAll l} := by
  unfold mkInterList
  have hl' := (WFList_iff l).1 hl
  rw [makeInter_lang cf hp _ (WFList_flatMap _ l (fun a ha => cf.flattenInter_wf a (hl' a ha)))]
  ext w
  show (WFs w ∧ w ∈ langAll (l.flatMap flattenInter)) ↔ (WFs w ∧ w ∈ langAll l)
  refine and_congr_right (fun hw => ?_)
  rw [langAll_iff, langAll_iff]
  constructor
  · intro h a ha
    rw [cf.flattenInter_mem (hl' a ha), langAll_iff]
    exact ⟨hw, fun e he => h e (List.mem_flatMap.2 ⟨a, ha, he⟩)⟩
  · intro h e he
    obtain ⟨a, ha, hea⟩ := List.mem_flatMap.1 he
    have := ((cf.flattenInter_mem (hl' a ha) w).1 (h a ha)).2
    rw [langAll_iff] at this
    exact this e hea

theorem mkUnion_wf (cf : CoreFacts) (ord : RE → Nat) (a b : RE) (ha : a.WF) (hb : b.WF) :
    (mkUnion ord a b).WF :=
  makeUnion_wf ord _ (WFList_append (cf.flattenUnion_wf a ha) (cf.flattenUnion_wf b hb))

/-- `ReManager::union` denotes the union. -/
theorem mkUnion_lang (cf : CoreFacts) (hs : SubSound) {ord : RE → Nat} (hp : PairSound ord)
    (a b : RE) (ha : a.WF) (hb : b.WF) : (mkUnion ord a b).lang = a.lang + b.lang := by
  unfold mkUnion
  rw [makeUnion_lang cf hs hp _ (WFList_append (cf.flattenUnion_wf a ha) (cf.flattenUnion_wf b hb)),
    langAny_append, cf.flattenUnion_lang, cf.flattenUnion_lang]

theorem mkUnionList_wf (cf : CoreFacts) (ord : RE → Nat) (l : List RE) (hl : WFList l) :
    (mkUnionList ord l).WF :=
  makeUnion_wf ord _ (WFList_flatMap _ l (fun a ha => cf.flattenUnion_wf a ((WFList_iff l).1 hl a ha)))

/-- `ReManager::union_list` denotes the union of the list (empty if the list is empty). -/
theorem mkUnionList_lang (cf : CoreFacts) (hs : SubSound) {ord : RE → Nat} (hp : PairSound ord)
    (l : List RE) (hl : WFList l) : (mkUnionList ord l).lang = langAny l := by
  unfold mkUnionList
  have hl' := (WFList_iff l).1 hl
  rw [makeUnion_lang cf hs hp _ (WFList_flatMap _ l (fun a ha => cf.flattenUnion_wf a (hl' a ha)))]
  ext w
  rw [langAny_iff, langAny_iff]
  constructor
  · rintro ⟨e, he, hw⟩
    obtain ⟨a, ha, hea⟩ := List.mem_flatMap.1 he
    exact ⟨a, ha, (cf.flattenUnion_mem a w).2 ((langAny_iff _ _).2 ⟨e, hea, hw⟩)⟩
  · rintro ⟨a, ha, hw⟩
    obtain ⟨e, he, hwe⟩ := (langAny_iff _ _).1 ((cf.flattenUnion_mem a w).1 hw)
    exact ⟨e, List.mem_flatMap.2 ⟨a, ha, he⟩, hwe⟩

theorem mkDiff_wf (cf : CoreFacts) (ord : RE → Nat) (a b : RE) (ha : a.WF) (hb : b.WF) :
    (mkDiff ord a b).WF :=
  mkInter_wf cf ord a _ ha (cf.complement_wf b hb)

/-- `ReManager::diff` denotes the set difference. -/
theorem mkDiff_lang (cf : CoreFacts) {ord : RE → Nat} (hp : PairSound ord)
    (a b : RE) (ha : a.WF) (hb : b.WF) :
    (mkDiff ord a b).lang = a.lang \ b.lang := by
  unfold mkDiff
  rw [mkInter_lang cf hp a _ ha (cf.complement_wf b hb)]
  ext w
  show (w ∈ a.lang ∧ w ∈ b.complement.lang) ↔ (w ∈ a.lang ∧ w ∉ b.lang)
  rw [cf.complement_mem hb]
  constructor
  · rintro ⟨h1, _, h2⟩; exact ⟨h1, h2⟩
  · rintro ⟨h1, h2⟩; exact ⟨h1, cf.lang_wfs ha h1, h2⟩

theorem mkDiffList_wf (cf : CoreFacts) (ord : RE → Nat) (a : RE) (l : List RE)
    (ha : a.WF) (hl : WFList l) : (mkDiffList ord a l).WF :=
  makeInter_wf ord _ (WFList_append (cf.flattenInter_wf a ha)
    (WFList_flatMap _ l (fun r hr =>
      cf.flattenInter_wf _ (cf.complement_wf r ((WFList_iff l).1 hl r hr)))))

/-- `ReManager::diff_list` denotes `a` minus every element of the list. -/
theorem mkDiffList_lang (cf : CoreFacts) {ord : RE → Nat} (hp : PairSound ord)
    (a : RE) (l : List RE) (ha : a.WF) (hl : WFList l) :
    (mkDiffList ord a l).lang = {w | w ∈ a.lang ∧ ∀ r ∈ l, w ∉ r.lang} := by
  unfold mkDiffList
  have hl' := (WFList_iff l).1 hl
  rw [makeInter_lang cf hp _ (WFList_append (cf.flattenInter_wf a ha)
    (WFList_flatMap _ l (fun r hr => cf.flattenInter_wf _ (cf.complement_wf r (hl' r hr)))))]
  ext w
  show (WFs w ∧ w ∈ langAll (flattenInter a ++ l.flatMap (fun r => flattenInter r.complement)))
    ↔ (w ∈ a.lang ∧ ∀ r ∈ l, w ∉ r.lang)
  rw [langAll_append_mem, cf.flattenInter_mem ha]
  constructor
  · rintro ⟨hw, h1, h2⟩
    refine ⟨⟨hw, h1⟩, fun r hr => ?_⟩
    have hc : w ∈ r.complement.lang := by
      rw [cf.flattenInter_mem (cf.complement_wf r (hl' r hr)), langAll_iff]
      rw [langAll_iff] at h2
      exact ⟨hw, fun e he => h2 e (List.mem_flatMap.2 ⟨r, hr, he⟩)⟩
    exact ((cf.complement_mem (hl' r hr) w).1 hc).2
  · rintro ⟨⟨hw, h1⟩, h2⟩
    refine ⟨hw, h1, ?_⟩
    rw [langAll_iff]
    intro e he
    obtain ⟨r, hr, her⟩ := List.mem_flatMap.1 he
    have hc : w ∈ r.complement.lang := (cf.complement_mem (hl' r hr) w).2 ⟨hw, h2 r hr⟩
    have := ((cf.flattenInter_mem (cf.complement_wf r (hl' r hr)) w).1 hc).2
    rw [langAll_iff] at this
    exact this e her

/-! ## 6. history independence (C07) -/

/-- the language of a union does not depend on the id assignment (= the history of the manager) -/
theorem mkUnion_lang_history_independent (cf : CoreFacts) (hs : SubSound) {ord₁ ord₂ : RE → Nat}
    (h₁ : PairSound ord₁) (h₂ : PairSound ord₂) (a b : RE) (ha : a.WF) (hb : b.WF) :
    (mkUnion ord₁ a b).lang = (mkUnion ord₂ a b).lang := by
  rw [mkUnion_lang cf hs h₁ a b ha hb, mkUnion_lang cf hs h₂ a b ha hb]

theorem mkUnionList_lang_history_independent (cf : CoreFacts) (hs : SubSound)
    {ord₁ ord₂ : RE → Nat} (h₁ : PairSound ord₁) (h₂ : PairSound ord₂) (l : List RE)
    (hl : WFList l) : (mkUnionList ord₁ l).lang = (mkUnionList ord₂ l).lang := by
  rw [mkUnionList_lang cf hs h₁ l hl, mkUnionList_lang cf hs h₂ l hl]

theorem mkInter_lang_history_independent (cf : CoreFacts) {ord₁ ord₂ : RE → Nat}
    (h₁ : PairSound ord₁) (h₂ : PairSound ord₂) (a b : RE) (ha : a.WF) (hb : b.WF) :
    (mkInter ord₁ a b).lang = (mkInter ord₂ a b).lang := by
  rw [mkInter_lang cf h₁ a b ha hb, mkInter_lang cf h₂ a b ha hb]

theorem mkInterList_lang_history_independent (cf : CoreFacts) {ord₁ ord₂ : RE → Nat}
    (h₁ : PairSound ord₁) (h₂ : PairSound ord₂) (l : List RE) (hl : WFList l) :
    (mkInterList ord₁ l).lang = (mkInterList ord₂ l).lang := by
  rw [mkInterList_lang cf h₁ l hl, mkInterList_lang cf h₂ l hl]

theorem mkDiff_lang_history_independent (cf : CoreFacts) {ord₁ ord₂ : RE → Nat}
    (h₁ : PairSound ord₁) (h₂ : PairSound ord₂) (a b : RE) (ha : a.WF) (hb : b.WF) :
    (mkDiff ord₁ a b).lang = (mkDiff ord₂ a b).lang := by
  rw [mkDiff_lang cf h₁ a b ha hb, mkDiff_lang cf h₂ a b ha hb]

theorem mkDiffList_lang_history_independent (cf : CoreFacts) {ord₁ ord₂ : RE → Nat}
    (h₁ : PairSound ord₁) (h₂ : PairSound ord₂) (a : RE) (l : List RE) (ha : a.WF)
    (hl : WFList l) : (mkDiffList ord₁ a l).lang = (mkDiffList ord₂ a l).lang := by
  rw [mkDiffList_lang cf h₁ a l ha hl, mkDiffList_lang cf h₂ a l ha hl]

/-! ### the constructors depend on `ord` only through its restriction to the (flattened) operands

  `construction_deterministic` of DESIGN.md §7 C07: two id assignments that agree on the operand
  list give the same result tree (no `PairSound`, no well-formedness needed).  Note that `top` and
  `ε` need not be operands: `contains` answers `false` for a non-member whatever its id is. -/

section Congr
variable {ord₁ ord₂ : RE → Nat}

theorem insertByOrd_congr (x : RE) (l : List RE) (hx : ord₁ x = ord₂ x)
    (hl : ∀ y ∈ l, ord₁ y = ord₂ y) : insertByOrd ord₁ x l = insertByOrd ord₂ x l := by
  induction l with
  | nil => rfl
  | cons y ys ih =>
    simp only [insertByOrd, hx, hl y (List.mem_cons_self ..),
      ih (fun z hz => hl z (List.mem_cons_of_mem _ hz))]

theorem sortByOrd_congr (l : List RE) (hl : ∀ y ∈ l, ord₁ y = ord₂ y) :
    sortByOrd ord₁ l = sortByOrd ord₂ l := by
  induction l with
  | nil => rfl
  | cons x xs ih =>
    have ih' := ih (fun z hz => hl z (List.mem_cons_of_mem _ hz))
    simp only [sortByOrd, ih']
    exact insertByOrd_congr x _ (hl x (List.mem_cons_self ..))
      (fun y hy => hl y (List.mem_cons_of_mem _ ((mem_sortByOrd _ _ _).1 hy)))

theorem containsSorted_congr_aux (l : List RE) (x : RE) (hx : ord₁ x = ord₂ x)
    (hl : ∀ y ∈ l, ord₁ y = ord₂ y) : containsSorted ord₁ l x = containsSorted ord₂ l x := by
  induction l with
  | nil => rfl
  | cons y ys ih =>
    simp only [containsSorted, hx, hl y (List.mem_cons_self ..),
      ih (fun z hz => hl z (List.mem_cons_of_mem _ hz))]

/-- `contains(v, x)` depends on the ids of the members of `v` only — and on nothing if `x ∉ v` -/
theorem containsSorted_congr (l : List RE) (x : RE) (hl : x ∈ l → ∀ y ∈ l, ord₁ y = ord₂ y) :
    containsSorted ord₁ l x = containsSorted ord₂ l x := by
  by_cases hx : x ∈ l
  · exact containsSorted_congr_aux l x (hl hx x hx) (hl hx)
  · have h1 : containsSorted ord₁ l x = false :=
      Bool.eq_false_iff.2 (fun h => hx (containsSorted_sound _ _ _ h))
    have h2 : containsSorted ord₂ l x = false :=
      Bool.eq_false_iff.2 (fun h => hx (containsSorted_sound _ _ _ h))
    rw [h1, h2]

theorem simplifyLoop_congr (bottom : RE) : ∀ (rest : List RE) (previous : RE),
    ord₁ previous = ord₂ previous → (∀ y ∈ rest, ord₁ y = ord₂ y) →
    simplifyLoop ord₁ bottom previous rest = simplifyLoop ord₂ bottom previous rest := by
  intro rest
  induction rest with
  | nil => intro _ _ _; rfl
  | cons current rest ih =>
    intro previous hp hl
    have hc := hl current (List.mem_cons_self ..)
    have hr : ∀ y ∈ rest, ord₁ y = ord₂ y := fun z hz => hl z (List.mem_cons_of_mem _ hz)
    simp only [simplifyLoop, hp, hc, ih current hc hr, ih previous hp hr]

/-- `simplify_set_operation` is a function of the operands and of their ids only -/
theorem simplifySetOperation_congr (v : List RE) (bottom top : RE)
    (h : ∀ y ∈ v, ord₁ y = ord₂ y) :
    simplifySetOperation ord₁ v bottom top = simplifySetOperation ord₂ v bottom top := by
  have hs := mem_dedup_sort ord₂ v
  unfold simplifySetOperation
  rw [sortByOrd_congr v h]
  generalize dedup (sortByOrd ord₂ v) = s at hs
  cases s with
  | nil => rfl
  | cons v0 rest =>
    have hall : ∀ y ∈ v0 :: rest, ord₁ y = ord₂ y := fun y hy => h y ((hs y).1 hy)
    simp only
    rw [containsSorted_congr (v0 :: rest) top (fun _ => hall),
      simplifyLoop_congr bottom rest v0 (hall v0 (List.mem_cons_self ..))
        (fun y hy => hall y (List.mem_cons_of_mem _ hy))]

theorem makeInter_congr (v : List RE) (h : ∀ y ∈ v, ord₁ y = ord₂ y) :
    makeInter ord₁ v = makeInter ord₂ v := by
  unfold makeInter
  rw [simplifySetOperation_congr v sigmaStar .empty h]
  have hc : containsSorted ord₁ (simplifySetOperation ord₂ v sigmaStar .empty) .epsilon
      = containsSorted ord₂ (simplifySetOperation ord₂ v sigmaStar .empty) .epsilon := by
    apply containsSorted_congr
    intro heps y hy
    rcases simplifySetOperation_shape ord₂ v sigmaStar .empty with ⟨he, _⟩ | hm
    · rw [he, List.mem_singleton] at heps; cases heps
    · exact h y ((hm y).1 hy).1
  simp only [hc]

theorem makeUnion_congr (v : List RE) (h : ∀ y ∈ v, ord₁ y = ord₂ y) :
    makeUnion ord₁ v = makeUnion ord₂ v := by
  unfold makeUnion
  rw [simplifySetOperation_congr v .empty sigmaStar h]

/-- C07 `construction_deterministic`, `inter`: the result depends on the id assignment only through
    the ids of the flattened operands. -/
theorem mkInter_deterministic (a b : RE)
    (h : ∀ y ∈ flattenInter a ++ flattenInter b, ord₁ y = ord₂ y) :
    mkInter ord₁ a b = mkInter ord₂ a b := makeInter_congr _ h

theorem mkInterList_deterministic (l : List RE)
    (h : ∀ y ∈ l.flatMap flattenInter, ord₁ y = ord₂ y) :
    mkInterList ord₁ l = mkInterList ord₂ l := makeInter_congr _ h

theorem mkUnion_deterministic (a b : RE)
    (h : ∀ y ∈ flattenUnion a ++ flattenUnion b, ord₁ y = ord₂ y) :
    mkUnion ord₁ a b = mkUnion ord₂ a b := makeUnion_congr _ h

theorem mkUnionList_deterministic (l : List RE)
    (h : ∀ y ∈ l.flatMap flattenUnion, ord₁ y = ord₂ y) :
    mkUnionList ord₁ l = mkUnionList ord₂ l := makeUnion_congr _ h

theorem mkDiff_deterministic (a b : RE)
    (h : ∀ y ∈ flattenInter a ++ flattenInter b.complement, ord₁ y = ord₂ y) :
    mkDiff ord₁ a b = mkDiff ord₂ a b := makeInter_congr _ h

theorem mkDiffList_deterministic (a : RE) (l : List RE)
    (h : ∀ y ∈ flattenInter a ++ l.flatMap (fun r => flattenInter r.complement),
      ord₁ y = ord₂ y) :
    mkDiffList ord₁ a l = mkDiffList ord₂ a l := makeInter_congr _ h

end Congr

end RE
end Smt
