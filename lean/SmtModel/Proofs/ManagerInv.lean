/-
  Helper lemmas for Props/C07Refine.lean, part 1: the term table of the stateful manager model
  (Model/Manager.lean) as a function `id → tree`.

    treeOf  is total on valid ids, stable under table extension, injective   (under `TableOK`)
    ordOf   is its inverse on trees of the table, and `PairSound` everywhere
    complement = `id xor 1` is `RE.complement` on trees
    `Mgr.make` = `ReStore.make` (Model/Store.lean), keeps `TableOK`, only appends, returns the id
    whose tree is the requested node over the trees of its children, and is stable for ever
-/
import SmtModel.Props.C07Tree
import SmtModel.Proofs.Store
import SmtModel.Model.Manager

namespace Smt
namespace MgrInv
open Smt RE Node

/-! ### `optMapM` -/

theorem optMapM_cons (f : Nat → Option RE) (x : Nat) (xs : List Nat) (ts : List RE) :
    optMapM f (x :: xs) = some ts ↔ ∃ a as, f x = some a ∧ optMapM f xs = some as ∧ ts = a :: as := by
  simp only [optMapM, Option.bind_eq_some_iff, Option.map_eq_some_iff]
  constructor
  · rintro ⟨a, ha, as, has, rfl⟩; exact ⟨a, as, ha, has, rfl⟩
  · rintro ⟨a, as, ha, has, rfl⟩; exact ⟨a, ha, as, has, rfl⟩

theorem optMapM_eq_some_iff (f : Nat → Option RE) (l : List Nat) (ts : List RE) :
    optMapM f l = some ts ↔ List.Forall₂ (fun i t => f i = some t) l ts := by
  induction l generalizing ts with
  | nil =>
    simp only [optMapM, Option.some.injEq]
    constructor
    · rintro rfl; exact .nil
    · intro h; cases h; rfl
  | cons x xs ih =>
    rw [optMapM_cons]
    constructor
    · rintro ⟨a, as, ha, has, rfl⟩
      exact .cons ha ((ih as).1 has)
    · intro h
      cases h with
      | cons ha has => exact ⟨_, _, ha, (ih _).2 has, rfl⟩

theorem optMapM_congr {f g : Nat → Option RE} {l : List Nat} (h : ∀ c ∈ l, f c = g c) :
    optMapM f l = optMapM g l := by
  induction l with
  | nil => rfl
  | cons x xs ih =>
    simp only [optMapM, h x (List.mem_cons_self ..),
      ih (fun c hc => h c (List.mem_cons_of_mem _ hc))]

theorem optMapM_map {f : Nat → Option RE} {g : Nat → RE} {l : List Nat}
    (h : ∀ c ∈ l, f c = some (g c)) : optMapM f l = some (l.map g) := by
  induction l with
  | nil => rfl
  | cons x xs ih =>
    simp only [optMapM, h x (List.mem_cons_self ..),
      ih (fun c hc => h c (List.mem_cons_of_mem _ hc)), List.map_cons, Option.bind_some,
      Option.map_some]

theorem optMapM_mono {f g : Nat → Option RE} : ∀ {l : List Nat} {ts : List RE},
    (∀ c ∈ l, ∀ t, f c = some t → g c = some t) → optMapM f l = some ts →
    optMapM g l = some ts := by
  intro l
  induction l with
  | nil => intro ts _ h; exact h
  | cons x xs ih =>
    intro ts h hf
    rw [optMapM_cons] at hf ⊢
    obtain ⟨a, as, ha, has, rfl⟩ := hf
    exact ⟨a, as, h x (List.mem_cons_self ..) a ha,
      ih (fun c hc => h c (List.mem_cons_of_mem _ hc)) has, rfl⟩

theorem optMapM_children {f : Nat → Option RE} : ∀ {l : List Nat} {ts : List RE},
    optMapM f l = some ts → ∀ c ∈ l, ∃ tc, f c = some tc := by
  intro l
  induction l with
  | nil => intro _ _ c hc; cases hc
  | cons x xs ih =>
    intro ts hf c hc
    rw [optMapM_cons] at hf
    obtain ⟨a, as, ha, has, rfl⟩ := hf
    rcases List.mem_cons.1 hc with rfl | hc
    · exact ⟨a, ha⟩
    · exact ih has c hc

theorem optMapM_total {f : Nat → Option RE} : ∀ {l : List Nat},
    (∀ c ∈ l, ∃ tc, f c = some tc) → ∃ ts, optMapM f l = some ts := by
  intro l
  induction l with
  | nil => intro _; exact ⟨[], rfl⟩
  | cons x xs ih =>
    intro hl
    obtain ⟨a, ha⟩ := hl x (List.mem_cons_self ..)
    obtain ⟨as, has⟩ := ih (fun c hc => hl c (List.mem_cons_of_mem _ hc))
    exact ⟨a :: as, (optMapM_cons ..).2 ⟨a, as, ha, has, rfl⟩⟩

/-! ### `Node.toRE`: which node has which tree -/

section Inversion
variable {f : Nat → Option RE} {n : Node}

theorem toRE_eq_empty : n.toRE f = some .empty ↔ n = .empty := by
  cases n <;> simp [Node.toRE, Option.bind_eq_some_iff]
theorem toRE_eq_epsilon : n.toRE f = some .epsilon ↔ n = .epsilon := by
  cases n <;> simp [Node.toRE, Option.bind_eq_some_iff]
theorem toRE_eq_range {s : CharSet} : n.toRE f = some (.range s) ↔ n = .range s.start s.stop := by
  cases n <;> simp [Node.toRE, Option.bind_eq_some_iff]
  rename_i a b
  constructor
  · rintro rfl; exact ⟨rfl, rfl⟩
  · rintro ⟨rfl, rfl⟩; rfl
theorem toRE_eq_concat {a b : RE} :
    n.toRE f = some (.concat a b) ↔ ∃ l r, n = .concat l r ∧ f l = some a ∧ f r = some b := by
  cases n <;> simp [Node.toRE, Option.bind_eq_some_iff]
theorem toRE_eq_loop {a : RE} {r : LoopRange} :
    n.toRE f = some (.loop a r) ↔ ∃ e, n = .loop e r.start r.stop ∧ f e = some a := by
  cases n with
  | loop e lo hi =>
    simp only [Node.toRE, Option.map_eq_some_iff, RE.loop.injEq, Node.loop.injEq]
    constructor
    · rintro ⟨x, hx, rfl, rfl⟩; exact ⟨e, ⟨rfl, rfl, rfl⟩, hx⟩
    · rintro ⟨e', ⟨rfl, rfl, rfl⟩, hx⟩; exact ⟨a, hx, rfl, rfl⟩
  | _ => simp [Node.toRE, Option.bind_eq_some_iff]
theorem toRE_eq_compl {a : RE} :
    n.toRE f = some (.compl a) ↔ ∃ e, n = .compl e ∧ f e = some a := by
  cases n <;> simp [Node.toRE, Option.bind_eq_some_iff]
theorem toRE_eq_union {ts : List RE} :
    n.toRE f = some (.union ts) ↔ ∃ l, n = .union l ∧ optMapM f l = some ts := by
  cases n <;> simp [Node.toRE, Option.bind_eq_some_iff]
theorem toRE_eq_inter {ts : List RE} :
    n.toRE f = some (.inter ts) ↔ ∃ l, n = .inter l ∧ optMapM f l = some ts := by
  cases n <;> simp [Node.toRE, Option.bind_eq_some_iff]

end Inversion

theorem toRE_congr {f g : Nat → Option RE} {n : Node} (h : ∀ c ∈ n.children, f c = g c) :
    n.toRE f = n.toRE g := by
  cases n with
  | empty => rfl
  | epsilon => rfl
  | range a b => rfl
  | concat l r =>
    simp only [Node.toRE, h l (by simp [children]), h r (by simp [children])]
  | loop e lo hi => simp only [Node.toRE, h e (by simp [children])]
  | compl e => simp only [Node.toRE, h e (by simp [children])]
  | union l => simp only [Node.toRE]; rw [optMapM_congr (fun c hc => h c (by simpa [children] using hc))]
  | inter l => simp only [Node.toRE]; rw [optMapM_congr (fun c hc => h c (by simpa [children] using hc))]

theorem toRE_mono {f g : Nat → Option RE} {n : Node} {t : RE}
    (h : ∀ c ∈ n.children, ∀ t, f c = some t → g c = some t) (hf : n.toRE f = some t) :
    n.toRE g = some t := by
  cases n with
  | empty => exact hf
  | epsilon => exact hf
  | range a b => exact hf
  | concat l r =>
    simp only [Node.toRE, Option.bind_eq_some_iff, Option.map_eq_some_iff] at hf ⊢
    obtain ⟨a, ha, b, hb, rfl⟩ := hf
    exact ⟨a, h l (by simp [children]) _ ha, b, h r (by simp [children]) _ hb, rfl⟩
  | loop e lo hi =>
    simp only [Node.toRE, Option.map_eq_some_iff] at hf ⊢
    obtain ⟨a, ha, rfl⟩ := hf
    exact ⟨a, h e (by simp [children]) _ ha, rfl⟩
  | compl e =>
    simp only [Node.toRE, Option.map_eq_some_iff] at hf ⊢
    obtain ⟨a, ha, rfl⟩ := hf
    exact ⟨a, h e (by simp [children]) _ ha, rfl⟩
  | union l =>
    simp only [Node.toRE, Option.map_eq_some_iff] at hf ⊢
    obtain ⟨a, ha, rfl⟩ := hf
    exact ⟨a, optMapM_mono (fun c hc => h c (by simpa [children] using hc)) ha, rfl⟩
  | inter l =>
    simp only [Node.toRE, Option.map_eq_some_iff] at hf ⊢
    obtain ⟨a, ha, rfl⟩ := hf
    exact ⟨a, optMapM_mono (fun c hc => h c (by simpa [children] using hc)) ha, rfl⟩

/-- every child of a node that has a tree has a tree -/
theorem toRE_children {f : Nat → Option RE} {n : Node} {t : RE} (hf : n.toRE f = some t) :
    ∀ c ∈ n.children, ∃ tc, f c = some tc := by
  cases n with
  | empty => intro c hc; simp [children] at hc
  | epsilon => intro c hc; simp [children] at hc
  | range a b => intro c hc; simp [children] at hc
  | concat l r =>
    simp only [Node.toRE, Option.bind_eq_some_iff, Option.map_eq_some_iff] at hf
    obtain ⟨a, ha, b, hb, _⟩ := hf
    intro c hc
    simp only [children, List.mem_cons, List.not_mem_nil, or_false] at hc
    rcases hc with rfl | rfl
    · exact ⟨a, ha⟩
    · exact ⟨b, hb⟩
  | loop e lo hi =>
    simp only [Node.toRE, Option.map_eq_some_iff] at hf
    obtain ⟨a, ha, _⟩ := hf
    intro c hc; simp only [children, List.mem_singleton] at hc; subst hc; exact ⟨a, ha⟩
  | compl e =>
    simp only [Node.toRE, Option.map_eq_some_iff] at hf
    obtain ⟨a, ha, _⟩ := hf
    intro c hc; simp only [children, List.mem_singleton] at hc; subst hc; exact ⟨a, ha⟩
  | union l =>
    simp only [Node.toRE, Option.map_eq_some_iff] at hf
    obtain ⟨a, ha, _⟩ := hf
    exact optMapM_children ha
  | inter l =>
    simp only [Node.toRE, Option.map_eq_some_iff] at hf
    obtain ⟨a, ha, _⟩ := hf
    exact optMapM_children ha

/-- a node all of whose children have trees has a tree -/
theorem toRE_total {f : Nat → Option RE} {n : Node} (h : ∀ c ∈ n.children, ∃ tc, f c = some tc) :
    ∃ t, n.toRE f = some t := by
  cases n with
  | empty => exact ⟨_, rfl⟩
  | epsilon => exact ⟨_, rfl⟩
  | range a b => exact ⟨_, rfl⟩
  | concat l r =>
    obtain ⟨a, ha⟩ := h l (by simp [children])
    obtain ⟨b, hb⟩ := h r (by simp [children])
    exact ⟨.concat a b, by simp [Node.toRE, ha, hb]⟩
  | loop e lo hi =>
    obtain ⟨a, ha⟩ := h e (by simp [children])
    exact ⟨.loop a ⟨lo, hi⟩, by simp [Node.toRE, ha]⟩
  | compl e =>
    obtain ⟨a, ha⟩ := h e (by simp [children])
    exact ⟨.compl a, by simp [Node.toRE, ha]⟩
  | union l =>
    obtain ⟨ts, hts⟩ := optMapM_total (f := f) (l := l) (fun c hc => h c (by simpa [children] using hc))
    exact ⟨.union ts, by simp [Node.toRE, hts]⟩
  | inter l =>
    obtain ⟨ts, hts⟩ := optMapM_total (f := f) (l := l) (fun c hc => h c (by simpa [children] using hc))
    exact ⟨.inter ts, by simp [Node.toRE, hts]⟩

/-! ### `treeFuel`, `treeOf` -/

theorem treeFuel_succ (t : List Node) (f i : Nat) :
    treeFuel t (f + 1) i = (t[i]?).bind fun n => n.toRE (treeFuel t f) := by
  simp only [treeFuel]
  cases t[i]? <;> rfl

theorem treeFuel_mono (t : List Node) : ∀ (f f' i : Nat) (e : RE), f ≤ f' →
    treeFuel t f i = some e → treeFuel t f' i = some e := by
  intro f
  induction f with
  | zero => intro f' i e _ h; simp [treeFuel] at h
  | succ f ih =>
    intro f' i e hle h
    obtain ⟨f'', rfl⟩ : ∃ f'', f' = f'' + 1 := ⟨f' - 1, by omega⟩
    rw [treeFuel_succ] at h ⊢
    cases hn : t[i]? with
    | none => rw [hn] at h; cases h
    | some n =>
      rw [hn] at h
      simp only [Option.bind_some] at h ⊢
      exact toRE_mono (fun c _ tc hc => ih f'' c tc (by omega) hc) h

theorem treeFuel_prefix {t t' : List Node} (hp : t <+: t') : ∀ (f i : Nat) (e : RE),
    treeFuel t f i = some e → treeFuel t' f i = some e := by
  intro f
  induction f with
  | zero => intro i e h; simp [treeFuel] at h
  | succ f ih =>
    intro i e h
    rw [treeFuel_succ] at h ⊢
    cases hn : t[i]? with
    | none => rw [hn] at h; cases h
    | some n =>
      rw [hn] at h
      rw [prefix_get hp hn]
      simp only [Option.bind_some] at h ⊢
      exact toRE_mono (fun c _ tc hc => ih c tc hc) h

theorem treeOf_prefix {t t' : List Node} (hp : t <+: t') {i : Nat} {e : RE}
    (h : treeOf t i = some e) : treeOf t' i = some e :=
  treeFuel_prefix hp _ _ _ h

theorem treeOf_lt {t : List Node} {i : Nat} {e : RE} (h : treeOf t i = some e) : i < t.length := by
  unfold treeOf at h
  rw [treeFuel_succ] at h
  cases hn : t[i]? with
  | none => rw [hn] at h; cases h
  | some n => exact (List.getElem?_eq_some_iff.mp hn).1

/-- valid ids have trees -/
theorem treeOf_total {t : List Node} (hc : ChildrenSmaller t) :
    ∀ i, i < t.length → ∃ e, treeOf t i = some e := by
  intro i
  induction i using Nat.strong_induction_on with
  | _ i ih =>
    intro hi
    have hn : t[i]? = some t[i] := by simp [hi]
    unfold treeOf
    rw [treeFuel_succ, hn]
    simp only [Option.bind_some]
    apply toRE_total
    intro c hcn
    have hlt := hc i _ hn c hcn
    obtain ⟨e, he⟩ := ih c hlt (by omega)
    exact ⟨e, treeFuel_mono t _ _ _ _ (by omega) he⟩

theorem treeFuel_eq_treeOf {t : List Node} (hc : ChildrenSmaller t) {c f : Nat}
    (hlt : c < f) (hlen : c < t.length) : treeFuel t f c = treeOf t c := by
  obtain ⟨e, he⟩ := treeOf_total hc c hlen
  rw [he]
  exact treeFuel_mono t _ _ _ _ (by omega) he

/-- the unfolding equation of `treeOf` -/
theorem treeOf_unfold {t : List Node} (hc : ChildrenSmaller t) {i : Nat} {n : Node}
    (hn : t[i]? = some n) : treeOf t i = n.toRE (treeOf t) := by
  have hi : i < t.length := (List.getElem?_eq_some_iff.mp hn).1
  unfold treeOf
  rw [treeFuel_succ, hn]
  simp only [Option.bind_some]
  apply toRE_congr
  intro c hcn
  have hlt := hc i _ hn c hcn
  exact treeFuel_eq_treeOf hc hlt (by omega)

theorem treeOf_node {t : List Node} (hc : ChildrenSmaller t) {i : Nat} {e : RE}
    (h : treeOf t i = some e) : ∃ n, t[i]? = some n ∧ n.toRE (treeOf t) = some e := by
  have hi := treeOf_lt h
  have hn : t[i]? = some t[i] := by simp [hi]
  exact ⟨_, hn, by rw [← treeOf_unfold hc hn]; exact h⟩

/-! ### shape of the tree of each kind of node -/

section Shape
variable {t : List Node} (hc : ChildrenSmaller t) {i : Nat}
include hc

theorem tree_empty (hn : t[i]? = some .empty) : treeOf t i = some .empty := by
  rw [treeOf_unfold hc hn]; rfl
theorem tree_epsilon (hn : t[i]? = some .epsilon) : treeOf t i = some .epsilon := by
  rw [treeOf_unfold hc hn]; rfl
theorem tree_range {a b : Nat} (hn : t[i]? = some (.range a b)) :
    treeOf t i = some (.range ⟨a, b⟩) := by
  rw [treeOf_unfold hc hn]; rfl
theorem tree_concat {l r : Nat} {a b : RE} (hn : t[i]? = some (.concat l r))
    (ha : treeOf t l = some a) (hb : treeOf t r = some b) : treeOf t i = some (.concat a b) := by
  rw [treeOf_unfold hc hn]; simp [Node.toRE, ha, hb]
theorem tree_loop {e lo : Nat} {hi : Option Nat} {a : RE} (hn : t[i]? = some (.loop e lo hi))
    (ha : treeOf t e = some a) : treeOf t i = some (.loop a ⟨lo, hi⟩) := by
  rw [treeOf_unfold hc hn]; simp only [Node.toRE, ha, Option.map_some]
theorem tree_compl {e : Nat} {a : RE} (hn : t[i]? = some (.compl e))
    (ha : treeOf t e = some a) : treeOf t i = some (.compl a) := by
  rw [treeOf_unfold hc hn]; simp only [Node.toRE, ha, Option.map_some]
theorem tree_union {l : List Nat} {ts : List RE} (hn : t[i]? = some (.union l))
    (ha : optMapM (treeOf t) l = some ts) : treeOf t i = some (.union ts) := by
  rw [treeOf_unfold hc hn]; simp only [Node.toRE, ha, Option.map_some]
theorem tree_inter {l : List Nat} {ts : List RE} (hn : t[i]? = some (.inter l))
    (ha : optMapM (treeOf t) l = some ts) : treeOf t i = some (.inter ts) := by
  rw [treeOf_unfold hc hn]; simp only [Node.toRE, ha, Option.map_some]

end Shape

/-! ### injectivity -/

theorem forall₂_inj {t : List Node} {ts : List RE}
    (ih : ∀ e ∈ ts, ∀ i j, treeOf t i = some e → treeOf t j = some e → i = j) :
    ∀ {l l' : List Nat}, List.Forall₂ (fun i e => treeOf t i = some e) l ts →
      List.Forall₂ (fun i e => treeOf t i = some e) l' ts → l = l' := by
  induction ts with
  | nil => intro l l' h h'; cases h; cases h'; rfl
  | cons e es ihs =>
    intro l l' h h'
    cases h with
    | cons h1 h2 =>
      cases h' with
      | cons h1' h2' =>
        rw [ih e (List.mem_cons_self ..) _ _ h1 h1',
          ihs (fun e he => ih e (List.mem_cons_of_mem _ he)) h2 h2']

/-- **two ids with the same tree are the same id** -/
theorem treeOf_inj {t : List Node} (hnd : t.Nodup) (hc : ChildrenSmaller t) :
    ∀ (e : RE) (i j : Nat), treeOf t i = some e → treeOf t j = some e → i = j := by
  have close : ∀ {i j : Nat} {n : Node}, t[i]? = some n → t[j]? = some n → i = j := by
    intro i j n hi hj
    obtain ⟨hil, hiv⟩ := List.getElem?_eq_some_iff.mp hi
    obtain ⟨hjl, hjv⟩ := List.getElem?_eq_some_iff.mp hj
    exact (List.getElem_inj (h₀ := hil) (h₁ := hjl) hnd).mp (hiv.trans hjv.symm)
  intro e
  induction e using Deriv.re_ind with
  | h_empty =>
    intro i j hi hj
    obtain ⟨ni, hni, hti⟩ := treeOf_node hc hi
    obtain ⟨nj, hnj, htj⟩ := treeOf_node hc hj
    rw [toRE_eq_empty] at hti htj
    subst hti htj
    exact close hni hnj
  | h_eps =>
    intro i j hi hj
    obtain ⟨ni, hni, hti⟩ := treeOf_node hc hi
    obtain ⟨nj, hnj, htj⟩ := treeOf_node hc hj
    rw [toRE_eq_epsilon] at hti htj
    subst hti htj
    exact close hni hnj
  | h_range s =>
    intro i j hi hj
    obtain ⟨ni, hni, hti⟩ := treeOf_node hc hi
    obtain ⟨nj, hnj, htj⟩ := treeOf_node hc hj
    rw [toRE_eq_range] at hti htj
    subst hti htj
    exact close hni hnj
  | h_concat a b iha ihb =>
    intro i j hi hj
    obtain ⟨ni, hni, hti⟩ := treeOf_node hc hi
    obtain ⟨nj, hnj, htj⟩ := treeOf_node hc hj
    rw [toRE_eq_concat] at hti htj
    obtain ⟨l, r, rfl, hl, hr⟩ := hti
    obtain ⟨l', r', rfl, hl', hr'⟩ := htj
    have e1 := iha _ _ hl hl'
    have e2 := ihb _ _ hr hr'
    subst e1 e2
    exact close hni hnj
  | h_loop e r ih =>
    intro i j hi hj
    obtain ⟨ni, hni, hti⟩ := treeOf_node hc hi
    obtain ⟨nj, hnj, htj⟩ := treeOf_node hc hj
    rw [toRE_eq_loop] at hti htj
    obtain ⟨x, rfl, hx⟩ := hti
    obtain ⟨x', rfl, hx'⟩ := htj
    have e1 := ih _ _ hx hx'
    subst e1
    exact close hni hnj
  | h_compl e ih =>
    intro i j hi hj
    obtain ⟨ni, hni, hti⟩ := treeOf_node hc hi
    obtain ⟨nj, hnj, htj⟩ := treeOf_node hc hj
    rw [toRE_eq_compl] at hti htj
    obtain ⟨x, rfl, hx⟩ := hti
    obtain ⟨x', rfl, hx'⟩ := htj
    have e1 := ih _ _ hx hx'
    subst e1
    exact close hni hnj
  | h_inter l ih =>
    intro i j hi hj
    obtain ⟨ni, hni, hti⟩ := treeOf_node hc hi
    obtain ⟨nj, hnj, htj⟩ := treeOf_node hc hj
    rw [toRE_eq_inter] at hti htj
    obtain ⟨x, rfl, hx⟩ := hti
    obtain ⟨x', rfl, hx'⟩ := htj
    rw [optMapM_eq_some_iff] at hx hx'
    have := forall₂_inj ih hx hx'
    subst this
    exact close hni hnj
  | h_union l ih =>
    intro i j hi hj
    obtain ⟨ni, hni, hti⟩ := treeOf_node hc hi
    obtain ⟨nj, hnj, htj⟩ := treeOf_node hc hj
    rw [toRE_eq_union] at hti htj
    obtain ⟨x, rfl, hx⟩ := hti
    obtain ⟨x', rfl, hx'⟩ := htj
    rw [optMapM_eq_some_iff] at hx hx'
    have := forall₂_inj ih hx hx'
    subst this
    exact close hni hnj

/-! ### the table invariant (`Smt.TableOK`, Proofs/Store.lean: exactly what `checkTable` decides) -/

theorem _root_.Smt.TableOK.get_init {t : List Node} (h : TableOK t) {j : Nat} (hj : j < 6) :
    t[j]? = initNodes[j]? := by
  rw [← h.init, List.getElem?_take]; simp [hj]

theorem _root_.Smt.TableOK.six_le {t : List Node} (h : TableOK t) : 6 ≤ t.length := by
  have := congrArg List.length h.init
  simp [initNodes] at this
  omega

/-- the `ReStore` invariant of Proofs/Store.lean for the manager state seen as a store -/
theorem _root_.Smt.TableOK.storeInv {m : Mgr} (h : TableOK m.tbl) : Inv m.toStore :=
  ⟨rfl, h.init, h.even, h.nodup, h.pair⟩

theorem tableOK_new : TableOK Mgr.new.tbl := by
  have h := inv_new
  exact ⟨h.init, h.even, h.nodup, h.pair, by
    show ChildrenSmaller ReStore.new.table
    rw [new_table]; exact childrenSmaller_init⟩

section Builtins
variable {t : List Node} (h : TableOK t)
include h

theorem tree_sigma : treeOf t Mgr.sigmaId = some RE.sigma :=
  tree_range h.children (by rw [Mgr.sigmaId, h.get_init (by omega)]; rfl)
theorem tree_notSigma : treeOf t 1 = some (.compl RE.sigma) :=
  tree_compl h.children (by rw [h.get_init (by omega)]; rfl) (tree_sigma h)
theorem tree_emptyId : treeOf t Mgr.emptyId = some .empty :=
  tree_empty h.children (by rw [Mgr.emptyId, h.get_init (by omega)]; rfl)
theorem tree_sigmaStar : treeOf t Mgr.sigmaStarId = some RE.sigmaStar :=
  tree_loop h.children (by rw [Mgr.sigmaStarId, h.get_init (by omega)]; rfl) (tree_sigma h)
theorem tree_epsilonId : treeOf t Mgr.epsilonId = some .epsilon :=
  tree_epsilon h.children (by rw [Mgr.epsilonId, h.get_init (by omega)]; rfl)
theorem tree_sigmaPlus : treeOf t Mgr.sigmaPlusId = some RE.sigmaPlus :=
  tree_loop h.children (by rw [Mgr.sigmaPlusId, h.get_init (by omega)]; rfl) (tree_sigma h)

theorem tree_inj {e : RE} {i j : Nat} (hi : treeOf t i = some e) (hj : treeOf t j = some e) :
    i = j := treeOf_inj h.nodup h.children e i j hi hj

theorem tree_total {i : Nat} (hi : i < t.length) : ∃ e, treeOf t i = some e :=
  treeOf_total h.children i hi

end Builtins

/-! ### `ordOf` is the inverse of `treeOf` -/

theorem ordOf_spec {t : List Node} (h : TableOK t) {i : Nat} {e : RE} (hi : treeOf t i = some e) :
    ordOf t e = i := by
  unfold ordOf
  cases hf : (List.range t.length).find? (fun i => decide (treeOf t i = some e)) with
  | some j =>
    have := List.find?_some hf
    simp only [decide_eq_true_eq] at this
    exact tree_inj h this hi
  | none =>
    rw [List.find?_eq_none] at hf
    have := hf i (List.mem_range.2 (treeOf_lt hi))
    simp only [decide_eq_true_eq] at this
    exact absurd hi this

theorem ordOf_absent {t : List Node} {e : RE} (ha : ∀ i, treeOf t i ≠ some e) :
    ordOf t e = t.length + 1 := by
  unfold ordOf
  cases hf : (List.range t.length).find? (fun i => decide (treeOf t i = some e)) with
  | some j =>
    have := List.find?_some hf
    simp only [decide_eq_true_eq] at this
    exact absurd this (ha j)
  | none => rfl

theorem ordOf_cases {t : List Node} (h : TableOK t) (e : RE) :
    (∃ i, treeOf t i = some e ∧ ordOf t e = i) ∨
      ((∀ i, treeOf t i ≠ some e) ∧ ordOf t e = t.length + 1) := by
  by_cases hex : ∃ i, treeOf t i = some e
  · obtain ⟨i, hi⟩ := hex
    exact Or.inl ⟨i, hi, ordOf_spec h hi⟩
  · have ha : ∀ i, treeOf t i ≠ some e := fun i hi => hex ⟨i, hi⟩
    exact Or.inr ⟨ha, ordOf_absent ha⟩

/-- ids of existing terms never change: a later table gives every tree of the earlier table
    the id it had -/
theorem ordOf_stable {t t' : List Node} (h : TableOK t) (h' : TableOK t') (hp : t <+: t')
    {i : Nat} {e : RE} (hi : treeOf t i = some e) : ordOf t' e = ordOf t e := by
  rw [ordOf_spec h hi, ordOf_spec h' (treeOf_prefix hp hi)]

/-! ### complement = `id xor 1` is `RE.complement` -/

theorem complement_sigma : RE.sigma.complement = .compl RE.sigma := by decide

/-- the tree at an even id ≥ 6 is complemented by wrapping it in a `compl` node -/
theorem complement_of_even {t : List Node} (h : TableOK t) {i : Nat} {e : RE} (h6 : 6 ≤ i)
    (hev : i % 2 = 0) (hi : treeOf t i = some e) : e.complement = .compl e := by
  have hlt := treeOf_lt hi
  have h1 : e ≠ .empty := by
    rintro rfl; have := tree_inj h hi (tree_emptyId h); simp [Mgr.emptyId] at this; omega
  have h2 : e ≠ .epsilon := by
    rintro rfl; have := tree_inj h hi (tree_epsilonId h); simp [Mgr.epsilonId] at this; omega
  have h3 : ∀ y, e ≠ .compl y := by
    rintro y rfl
    obtain ⟨n, hn, hnt⟩ := treeOf_node h.children hi
    rw [toRE_eq_compl] at hnt
    obtain ⟨x, rfl, _⟩ := hnt
    exact (h.pair i h6 hev hlt).2 x hn
  have h4 : e ≠ sigmaStar := by
    rintro rfl; have := tree_inj h hi (tree_sigmaStar h); simp [Mgr.sigmaStarId] at this; omega
  have h5 : e ≠ sigmaPlus := by
    rintro rfl; have := tree_inj h hi (tree_sigmaPlus h); simp [Mgr.sigmaPlusId] at this; omega
  rw [complement_plain e h1 h2 h3, if_neg h4, if_neg h5]

/-- **`complement`: the term with id `i xor 1` is the tree-level complement of the term `i`** -/
theorem treeOf_xor {t : List Node} (h : TableOK t) {i : Nat} {e : RE} (hi : treeOf t i = some e) :
    treeOf t (i ^^^ 1) = some e.complement := by
  have hlt := treeOf_lt hi
  rw [xor_one]
  by_cases hev : i % 2 = 0
  · rw [if_pos hev]
    by_cases h6 : 6 ≤ i
    · rw [complement_of_even h h6 hev hi]
      exact tree_compl h.children (h.pair i h6 hev hlt).1 hi
    · have hcases : i = 0 ∨ i = 2 ∨ i = 4 := by omega
      rcases hcases with rfl | rfl | rfl
      · have := tree_sigma h; rw [Mgr.sigmaId] at this; rw [this] at hi; cases hi
        rw [complement_sigma]; exact tree_notSigma h
      · have := tree_emptyId h; rw [Mgr.emptyId] at this; rw [this] at hi; cases hi
        exact tree_sigmaStar h
      · have := tree_epsilonId h; rw [Mgr.epsilonId] at this; rw [this] at hi; cases hi
        exact tree_sigmaPlus h
  · rw [if_neg hev]
    by_cases h6 : 6 ≤ i
    · have hx := (h.pair (i - 1) (by omega) (by omega) (by omega)).1
      rw [show i - 1 + 1 = i by omega] at hx
      obtain ⟨ex, hex⟩ := tree_total h (i := i - 1) (by omega)
      have := tree_compl h.children hx hex
      rw [this] at hi; cases hi
      exact hex
    · have hcases : i = 1 ∨ i = 3 ∨ i = 5 := by omega
      rcases hcases with rfl | rfl | rfl
      · rw [tree_notSigma h] at hi; cases hi; exact tree_sigma h
      · have := tree_sigmaStar h; rw [Mgr.sigmaStarId] at this; rw [this] at hi; cases hi
        rw [complement_sigmaStar]; exact tree_emptyId h
      · have := tree_sigmaPlus h; rw [Mgr.sigmaPlusId] at this; rw [this] at hi; cases hi
        rw [complement_sigmaPlus]; exact tree_epsilonId h

theorem xor_lt {t : List Node} (h : TableOK t) {i : Nat} (hi : i < t.length) :
    i ^^^ 1 < t.length := by
  rw [xor_one]; have := h.even; split <;> omega

/-- **PairSound for the id assignment of every table that passes the check** (full strength: also
    for trees that are not in the table, whose `ordOf` is the odd number `length + 1`) -/
theorem pairSound_ordOf {t : List Node} (h : TableOK t) : PairSound (ordOf t) := by
  intro x y hxy hev
  rcases ordOf_cases h x with ⟨i, hi, hox⟩ | ⟨_, hox⟩
  · rw [hox] at hxy hev
    have hlt := treeOf_lt hi
    rcases ordOf_cases h y with ⟨j, hj, hoy⟩ | ⟨_, hoy⟩
    · rw [hoy] at hxy
      subst hxy
      have := treeOf_xor h hi
      rw [xor_one, if_pos hev, hj] at this
      exact Option.some.inj this
    · rw [hoy] at hxy; omega
  · rw [hox] at hev
    have := h.even
    omega

/-! ### `Mgr.make` -/

/-- the two outcomes of `alloc` -/
theorem alloc_cases (m : Mgr) (n : Node) :
    (∃ i, m.tbl[i]? = some n ∧ m.alloc n = (m, i)) ∨
    (n ∉ m.tbl ∧ m.alloc n = ({ m with tbl := m.tbl ++ [n, .compl m.tbl.length] }, m.tbl.length)) := by
  unfold Mgr.alloc
  cases hf : m.tbl.idxOf? n with
  | some i =>
    left
    rw [List.idxOf?_eq_some_iff] at hf
    exact ⟨i, List.getElem?_eq_some_iff.2 ⟨hf.1, hf.2.1⟩, rfl⟩
  | none =>
    right
    exact ⟨List.idxOf?_eq_none_iff.1 hf, rfl⟩

theorem make_eq_alloc (m : Mgr) {n : Node} (hnc : n.isCompl = false) : m.make n = m.alloc n := by
  cases n <;> first | rfl | simp [isCompl] at hnc

theorem tableOK_extend {t : List Node} (h : TableOK t) {n : Node} (hnc : n.isCompl = false)
    (hmem : n ∉ t) (hv : ∀ c ∈ n.children, c < t.length) :
    TableOK (t ++ [n, .compl t.length]) := by
  let m : Mgr := ⟨t, []⟩
  have hI : Inv m.toStore := TableOK.storeInv (m := m) h
  have hE := inv_extend hI hnc hmem
  have hC := childrenSmaller_extend (m := m.toStore) h.children (ast := n) hv
  have htab : (m.toStore.extend n).table = t ++ [n, .compl t.length] := ReStore.extend_table _ _
  rw [htab] at hC
  exact ⟨htab ▸ hE.init, htab ▸ hE.even, htab ▸ hE.nodup, htab ▸ hE.pair, hC⟩

/-- what a call of `make` on a non-`Complement` key with existing children does -/
structure MakePost (m : Mgr) (n : Node) (m' : Mgr) (i : Nat) : Prop where
  ok : TableOK m'.tbl
  ext : m.tbl <+: m'.tbl
  cache : m'.cache = m.cache
  node : m'.tbl[i]? = some n
  /-- hash-consing: in every later state the same request returns the same id, allocating nothing -/
  stable : ∀ m2 : Mgr, m'.tbl <+: m2.tbl → TableOK m2.tbl → m2.make n = (m2, i)

theorem make_of_get {m : Mgr} (h : TableOK m.tbl) {n : Node} (hnc : n.isCompl = false) {i : Nat}
    (hi : m.tbl[i]? = some n) : m.make n = (m, i) := by
  rw [make_eq_alloc m hnc]
  rcases alloc_cases m n with ⟨j, hj, hmk⟩ | ⟨hmem, _⟩
  · have hij : j = i := by
      obtain ⟨hjl, hjv⟩ := List.getElem?_eq_some_iff.mp hj
      obtain ⟨hil, hiv⟩ := List.getElem?_eq_some_iff.mp hi
      exact (List.getElem_inj (h₀ := hjl) (h₁ := hil) h.nodup).mp (hjv.trans hiv.symm)
    rw [hmk, hij]
  · exact absurd (List.mem_iff_getElem?.mpr ⟨i, hi⟩) hmem

theorem make_post {m : Mgr} (h : TableOK m.tbl) {n : Node} (hnc : n.isCompl = false)
    (hv : ∀ c ∈ n.children, c < m.tbl.length) : MakePost m n (m.make n).1 (m.make n).2 := by
  rw [make_eq_alloc m hnc]
  rcases alloc_cases m n with ⟨i, hi, hmk⟩ | ⟨hmem, hmk⟩
  · rw [hmk]
    exact ⟨h, List.prefix_refl _, rfl, hi,
      fun m2 hp h2 => make_of_get h2 hnc (prefix_get hp hi)⟩
  · rw [hmk]
    have hnode : (m.tbl ++ [n, Node.compl m.tbl.length])[m.tbl.length]? = some n := by simp
    exact ⟨tableOK_extend h hnc hmem hv, List.prefix_append _ _, rfl, hnode,
      fun m2 hp h2 => make_of_get h2 hnc (prefix_get hp hnode)⟩

/-- `Mgr.make` is the literal `ReManager::make` of Model/Store.lean (with its three
    `debug_assert!`s, which do not fire) -/
theorem make_eq_store {m : Mgr} (h : TableOK m.tbl) {n : Node} (hnc : n.isCompl = false) :
    m.toStore.make n = some ((m.make n).1.toStore, (m.make n).2) := by
  have hI := TableOK.storeInv h
  rw [Smt.make_eq_other _ hnc, make_eq_alloc m hnc]
  rcases makeOther_spec hI n hnc with ⟨i, hi, hmk⟩ | ⟨hmem, hmk⟩
  · have := make_of_get h hnc (i := i) hi
    rw [make_eq_alloc m hnc] at this
    rw [hmk, this]
  · rcases alloc_cases m n with ⟨i, hi, _⟩ | ⟨_, hmk'⟩
    · exact absurd (List.mem_iff_getElem?.mpr ⟨i, hi⟩) hmem
    · rw [hmk, hmk']
      simp only [Mgr.toStore, ReStore.extend, ReStore.table, Option.some.injEq, Prod.mk.injEq,
        and_true]
      congr 1
      · simp
      · simp only [List.length_append, List.length_cons, List.length_nil]
        rw [show m.tbl.length + (0 + 1 + 1) = m.tbl.length + 1 + 1 by omega,
          List.range_succ, List.range_succ]
        simp

/-- the `Complement(x)` arm: `id_to_re(x.id + 1)` -/
theorem make_compl_eq_store {m : Mgr} (h : TableOK m.tbl) {x : Nat} (hx : x + 1 < m.tbl.length) :
    m.toStore.make (.compl x) = some ((m.make (.compl x)).1.toStore, (m.make (.compl x)).2) := by
  have hI := TableOK.storeInv h
  rw [make_compl, hI.idToRe hx]
  rfl

/-- `complement` does not panic either: `id_to_re(e.id ^ 1)` -/
theorem complement_eq_store {m : Mgr} (h : TableOK m.tbl) {e : Nat} (he : e < m.tbl.length) :
    m.toStore.complement e = some (m.complementM e).2 := by
  have hI := TableOK.storeInv h
  exact hI.idToRe (xor_lt h he)

end MgrInv
end Smt
