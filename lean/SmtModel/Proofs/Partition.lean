/-
  Specification of the model of `BasePartition::refine_block`, `Partition::refine_block` and
  `Partition::refine_block_with_fun` (`partitions.rs`, model in `SmtModel/Model/Partition.lean`).
  Core Lean only (no Mathlib lemma is needed).

  Notation: for block `i` with header `h`, `B = window p.segment h = segment[h.start .. h.stop)`
  (the old `blockElements i`), `B1 = B.filter pr`, `B2 = B.filter (!pr ·)`.

  * `swapLoop_spec`       loop invariant of the swap loop: started on `T ++ F ++ R` with `k = |T|+|F|`,
                          `j = |T|` it ends in `T ++ R.filter true ++ F'`, `F' ~ F ++ R.filter false`,
                          `j = |T| + |R.filter true|` (true-elements in order, false-elements permuted);
                          if no element of `R` is true then `F' = F ++ R` (nothing moves)
  * `swapLoop_congr`, `swapLoop_none`   the loop reads the predicate only on the elements it reaches;
                          a panic of the predicate on some element makes the loop panic
  * `refineBlock_eq`      closed form of `BasePartition.refineBlock`
  * `RefineSpec`, `BasePartition.refine_block_spec`   the specification proper (frame conditions,
                          the three result cases, exact contents of the two blocks, other blocks untouched)
  * `Partition.refine_block_spec`   same + `block_id` update.  NOTE: the Rust guards the update with
                          `b1 != 0 && b2 != 0`, so a real split of block `i = 0` (never happens while
                          block 0 is the empty block) would NOT update `block_id`; hence the `i ≠ 0`
                          in the statement
  * `Partition.refine_block_with_fun_eq/_none/_spec`
  * non-vacuity examples (by `decide`) at the end
-/
import SmtModel.Model.Partition

namespace Smt
namespace BasePartition

/-! ### the swap loop -/

theorem length_filter_add (pr : Nat → Bool) (l : List Nat) :
    l.length = (l.filter pr).length + (l.filter (fun x => !pr x)).length := by
  have := (List.filter_append_perm pr l).length_eq
  rw [List.length_append] at this
  exact this.symm

theorem swap_mid (T F0 R0 : List Nat) (f x : Nat) :
    BasePartition.swap (T ++ (f :: F0) ++ x :: R0) (T.length + (f :: F0).length) T.length
      = some (T ++ (x :: F0) ++ f :: R0) := by
  have hk : (T ++ (f :: F0) ++ x :: R0)[T.length + (f :: F0).length]? = some x := by
    rw [List.getElem?_append_right (by simp)]
    simp
  have hj : (T ++ (f :: F0) ++ x :: R0)[T.length]? = some f := by
    simp [List.append_assoc]
  unfold BasePartition.swap
  rw [hk, hj]
  simp only [Option.some.injEq]
  rw [List.set_append_right _ _ (by simp)]
  simp only [List.length_append, List.length_cons]
  rw [List.append_assoc, List.set_append_right _ _ (by simp)]
  simp

/-- reading the element at the loop index -/
theorem getElem?_loop_index (T F R0 : List Nat) (x : Nat) :
    (T ++ F ++ x :: R0)[T.length + F.length]? = some x := by
  rw [List.getElem?_append_right (by simp)]
  simp

/-- one iteration, predicate false: the element joins the "false" zone -/
theorem swapLoop_step_false (pr : Nat → Option Bool) (T F R0 : List Nat) (x : Nat)
    (hx : pr x = some false) :
    swapLoop pr (R0.length + 1) (T.length + F.length) T.length (T ++ F ++ x :: R0)
      = swapLoop pr R0.length (T.length + (F ++ [x]).length) T.length (T ++ (F ++ [x]) ++ R0) := by
  rw [swapLoop, getElem?_loop_index]
  simp only [hx]
  simp [Nat.add_assoc]

/-- one iteration, predicate true, empty "false" zone: no swap -/
theorem swapLoop_step_true_nil (pr : Nat → Option Bool) (T R0 : List Nat) (x : Nat)
    (hx : pr x = some true) :
    swapLoop pr (R0.length + 1) (T.length + ([] : List Nat).length) T.length (T ++ [] ++ x :: R0)
      = swapLoop pr R0.length ((T ++ [x]).length + ([] : List Nat).length) (T ++ [x]).length
          ((T ++ [x]) ++ [] ++ R0) := by
  rw [swapLoop, getElem?_loop_index]
  simp only [hx]
  simp

/-- one iteration, predicate true, non-empty "false" zone: swap with its first element -/
theorem swapLoop_step_true_cons (pr : Nat → Option Bool) (T F0 R0 : List Nat) (f x : Nat)
    (hx : pr x = some true) :
    swapLoop pr (R0.length + 1) (T.length + (f :: F0).length) T.length (T ++ (f :: F0) ++ x :: R0)
      = swapLoop pr R0.length ((T ++ [x]).length + (F0 ++ [f]).length) (T ++ [x]).length
          ((T ++ [x]) ++ (F0 ++ [f]) ++ R0) := by
  rw [swapLoop, getElem?_loop_index]
  simp only [hx]
  rw [if_pos (by simp), swap_mid]
  simp [Nat.add_assoc, Nat.add_comm 1]

theorem swapLoop_spec (pr : Nat → Option Bool) (R : List Nat) :
    ∀ (T F : List Nat), (∀ x ∈ R, pr x ≠ none) →
    ∃ F', F'.Perm (F ++ R.filter (fun x => pr x = some false)) ∧
      (R.filter (fun x => pr x = some true) = [] → F' = F ++ R) ∧
      swapLoop pr R.length (T.length + F.length) T.length (T ++ F ++ R)
        = some (T ++ R.filter (fun x => pr x = some true) ++ F',
                T.length + (R.filter (fun x => pr x = some true)).length) := by
  induction R with
  | nil => intro T F _; exact ⟨F, by simp, by simp, by simp [swapLoop]⟩
  | cons x R0 ih =>
    intro T F hdef
    have hdef0 : ∀ y ∈ R0, pr y ≠ none := fun y hy => hdef y (List.mem_cons_of_mem _ hy)
    have hx := hdef x (List.mem_cons_self ..)
    cases hpx : pr x with
    | none => exact absurd hpx hx
    | some b =>
      cases b with
      | false =>
        obtain ⟨F', hperm, hnil, heq⟩ := ih T (F ++ [x]) hdef0
        refine ⟨F', ?_, ?_, ?_⟩
        · simpa [hpx] using hperm
        · simpa [hpx] using hnil
        · rw [List.length_cons, swapLoop_step_false pr T F R0 x hpx, heq]
          simp [hpx]
      | true =>
        cases F with
        | nil =>
          obtain ⟨F', hperm, hnil, heq⟩ := ih (T ++ [x]) [] hdef0
          refine ⟨F', ?_, ?_, ?_⟩
          · simpa [hpx] using hperm
          · simp [hpx]
          · rw [List.length_cons, swapLoop_step_true_nil pr T R0 x hpx, heq]
            simp [hpx, Nat.add_assoc, Nat.add_comm 1]
        | cons f F0 =>
          obtain ⟨F', hperm, hnil, heq⟩ := ih (T ++ [x]) (F0 ++ [f]) hdef0
          refine ⟨F', ?_, ?_, ?_⟩
          · refine hperm.trans ?_
            simp [hpx]
          · simp [hpx]
          · rw [List.length_cons, swapLoop_step_true_cons pr T F0 R0 f x hpx, heq]
            simp [hpx, Nat.add_assoc, Nat.add_comm 1]

/-! ### windows of the segment -/

/-- the window `segment[start..stop)` of a block header -/
def window (seg : List Nat) (h : BlockHeader) : List Nat :=
  (seg.drop h.start).take (h.stop - h.start)

theorem window_length (seg : List Nat) (h : BlockHeader)
    (hstop : h.stop ≤ seg.length) : (window seg h).length = h.stop - h.start := by
  simp [window]; omega

theorem take_window_drop (seg : List Nat) (h : BlockHeader) (hle : h.start ≤ h.stop) :
    seg.take h.start ++ window seg h ++ seg.drop h.stop = seg := by
  have : seg.drop h.stop = (seg.drop h.start).drop (h.stop - h.start) := by
    rw [List.drop_drop]; congr 1; omega
  rw [window, this, List.append_assoc, List.take_append_drop, List.take_append_drop]

theorem slice_eq (p : BasePartition) (i : Nat) (h : BlockHeader)
    (hi : p.block[i]? = some h) (hle : h.start ≤ h.stop) (hstop : h.stop ≤ p.segment.length) :
    p.slice i = some (window p.segment h) := by
  simp [slice, hi, hle, hstop, window]

theorem swapLoop_bool (pr : Nat → Bool) (B : List Nat) :
    ∃ B2', B2'.Perm (B.filter (fun x => !pr x)) ∧ (B.filter pr = [] → B2' = B) ∧
      swapLoop (fun x => some (pr x)) B.length 0 0 B = some (B.filter pr ++ B2', (B.filter pr).length) := by
  obtain ⟨F', h1, h2, h3⟩ := swapLoop_spec (fun x => some (pr x)) B [] [] (by simp)
  refine ⟨F', ?_, ?_, ?_⟩
  · simpa using h1
  · simpa using h2
  · simpa using h3

theorem refineBlock_eq (p : BasePartition) (i : Nat) (pr : Nat → Bool) (h : BlockHeader)
    (hi : p.block[i]? = some h) (hle : h.start ≤ h.stop) (hstop : h.stop ≤ p.segment.length)
    (hsz : p.segment.length = p.size) :
    ∃ B2', B2'.Perm ((window p.segment h).filter (fun x => !pr x)) ∧
      ((window p.segment h).filter pr = [] → B2' = window p.segment h) ∧
      p.refineBlock i pr = some (
        if (window p.segment h).filter pr = [] then (p, (0, i))
        else if B2' = [] then (p, (i, 0))
        else ({ size := p.size,
                block := p.block.set i ⟨h.start, h.start + ((window p.segment h).filter pr).length⟩
                          ++ [⟨h.start + ((window p.segment h).filter pr).length, h.stop⟩],
                segment := p.segment.take h.start ++ ((window p.segment h).filter pr ++ B2')
                          ++ p.segment.drop h.stop }, (i, p.numBlocks))) := by
  obtain ⟨B2', hperm, hnil, hloop⟩ := swapLoop_bool pr (window p.segment h)
  refine ⟨B2', hperm, hnil, ?_⟩
  have hlen := window_length p.segment h hstop
  have hlen2 : (window p.segment h).length
      = ((window p.segment h).filter pr).length + B2'.length := by
    rw [hperm.length_eq]
    exact length_filter_add pr _
  unfold refineBlock refineBlockOpt
  rw [hi, slice_eq p i h hi hle hstop]
  simp only [hloop]
  by_cases h1 : (window p.segment h).filter pr = []
  · rw [if_pos (by simp [h1]), if_pos h1]
    rw [h1, hnil h1, List.nil_append, take_window_drop _ _ hle]
  · have hj : ((window p.segment h).filter pr).length ≠ 0 := by
      simpa [List.length_eq_zero_iff] using h1
    rw [if_neg hj, if_neg h1]
    by_cases h2 : B2' = []
    · rw [if_pos (by rw [hlen2, h2]; simp), if_pos h2]
      have hB : (window p.segment h).filter pr = window p.segment h := by
        have h3 : (window p.segment h).filter (fun x => !pr x) = [] := by
          rw [h2] at hperm; exact List.nil_perm.mp hperm
        rw [List.filter_eq_self]
        intro a ha
        have := List.filter_eq_nil_iff.mp h3 a ha
        simpa using this
      rw [h2, List.append_nil, hB, take_window_drop _ _ hle]
    · have hb : B2'.length ≠ 0 := by simpa [List.length_eq_zero_iff] using h2
      rw [if_neg (by omega), if_neg h2]
      simp only [splitBlock, hi, addBlock]
      rw [if_pos (by omega), if_pos (by constructor <;> omega)]
      simp [numBlocks]

theorem window_append (X Y Z : List Nat) (a b : Nat)
    (h1 : X.length = a) (h2 : a + Y.length = b) :
    window (X ++ Y ++ Z) ⟨a, b⟩ = Y := by
  subst h1 h2
  rw [window, List.append_assoc, List.drop_left' rfl, List.take_left' (by simp)]

theorem window_eq_of_frame (seg seg' : List Nat) (a b : Nat) (hk : BlockHeader)
    (ht : seg'.take a = seg.take a) (hd : seg'.drop b = seg.drop b)
    (hdis : hk.stop ≤ a ∨ b ≤ hk.start) : window seg' hk = window seg hk := by
  rcases hdis with hdis | hdis
  · have e : ∀ l : List Nat, window l hk = ((l.take a).take hk.stop).drop hk.start := by
      intro l
      rw [window, List.take_take, Nat.min_eq_left hdis, List.drop_take]
    rw [e, e, ht]
  · have e : ∀ l : List Nat, window l hk = ((l.drop b).drop (hk.start - b)).take (hk.stop - hk.start) := by
      intro l
      rw [window, List.drop_drop]; congr 2; omega
    rw [e, e, hd]

theorem blockElements_eq_window (p : BasePartition) (k : Nat) (hk : BlockHeader)
    (h : p.block[k]? = some hk) :
    p.blockElements k
      = if hk.start ≤ hk.stop ∧ hk.stop ≤ p.segment.length then some (window p.segment hk) else none := by
  simp [blockElements, slice, h, window]

/-- the specification of `BasePartition::refine_block(i, pr)` on block `i` with header `h`:
    `p'` is the partition after the call, `r` the returned pair -/
structure RefineSpec (p : BasePartition) (i : Nat) (pr : Nat → Bool) (h : BlockHeader)
    (p' : BasePartition) (r : Nat × Nat) : Prop where
  size_eq : p'.size = p.size
  length_eq : p'.segment.length = p.segment.length
  perm : p'.segment.Perm p.segment
  take_eq : p'.segment.take h.start = p.segment.take h.start
  drop_eq : p'.segment.drop h.stop = p.segment.drop h.stop
  /-- no element satisfies `pr`: nothing changes, result `(0, i)` -/
  none_true : (window p.segment h).filter pr = [] → r = (0, i) ∧ p' = p
  /-- every element satisfies `pr` (and there is one): nothing changes, result `(i, 0)` -/
  all_true : (window p.segment h).filter pr ≠ [] → (window p.segment h).filter (fun x => !pr x) = [] →
    r = (i, 0) ∧ p' = p
  /-- a real split: block `i` keeps the `pr`-elements in their old order, the new block
      `p.numBlocks` gets the others (in some order) -/
  split : (window p.segment h).filter pr ≠ [] → (window p.segment h).filter (fun x => !pr x) ≠ [] →
    r = (i, p.numBlocks) ∧
    p'.block = p.block.set i ⟨h.start, h.start + ((window p.segment h).filter pr).length⟩
                ++ [⟨h.start + ((window p.segment h).filter pr).length, h.stop⟩] ∧
    p'.blockElements i = some ((window p.segment h).filter pr) ∧
    ∃ B2', p'.blockElements p.numBlocks = some B2' ∧
      B2'.Perm ((window p.segment h).filter (fun x => !pr x))
  /-- every block whose window is disjoint from the window of block `i` is untouched -/
  others : ∀ k hk, p.block[k]? = some hk → (hk.stop ≤ h.start ∨ h.stop ≤ hk.start) →
    p'.block[k]? = some hk ∧ p'.blockElements k = p.blockElements k

theorem refine_block_spec (p : BasePartition) (i : Nat) (pr : Nat → Bool) (h : BlockHeader)
    (hi : p.block[i]? = some h) (hle : h.start ≤ h.stop) (hstop : h.stop ≤ p.segment.length)
    (hsz : p.segment.length = p.size) :
    ∃ p' r, p.refineBlock i pr = some (p', r) ∧ RefineSpec p i pr h p' r := by
  obtain ⟨B2', hperm, hnil, heq⟩ := refineBlock_eq p i pr h hi hle hstop hsz
  have hself : ∀ r : Nat × Nat,
      ((window p.segment h).filter pr = [] → r = (0, i)) →
      ((window p.segment h).filter pr ≠ [] → (window p.segment h).filter (fun x => !pr x) = [] → r = (i, 0)) →
      ((window p.segment h).filter pr ≠ [] → (window p.segment h).filter (fun x => !pr x) ≠ [] → False) →
      RefineSpec p i pr h p r := by
    intro r h1 h2 h3
    exact ⟨rfl, rfl, List.Perm.refl _, rfl, rfl, fun a => ⟨h1 a, rfl⟩, fun a b => ⟨h2 a b, rfl⟩,
      fun a b => (h3 a b).elim, fun k hk e _ => ⟨e, rfl⟩⟩
  have hB2 : B2' = [] ↔ (window p.segment h).filter (fun x => !pr x) = [] := by
    constructor
    · intro e; rw [e] at hperm; exact List.nil_perm.mp hperm
    · intro e; rw [e] at hperm; exact List.perm_nil.mp hperm
  by_cases h1 : (window p.segment h).filter pr = []
  · rw [if_pos h1] at heq
    exact ⟨p, (0, i), heq, hself _ (fun _ => rfl) (fun a => (a h1).elim) (fun a => (a h1).elim)⟩
  · rw [if_neg h1] at heq
    by_cases h2 : B2' = []
    · rw [if_pos h2] at heq
      exact ⟨p, (i, 0), heq, hself _ (fun a => (h1 a).elim) (fun _ _ => rfl)
        (fun _ b => b (hB2.mp h2))⟩
    · rw [if_neg h2] at heq
      refine ⟨_, _, heq, ?_⟩
      have hlen := window_length p.segment h hstop
      have hlen2 : (window p.segment h).length
          = ((window p.segment h).filter pr).length + B2'.length := by
        rw [hperm.length_eq]
        exact length_filter_add pr _
      have hta : (p.segment.take h.start).length = h.start := by
        rw [List.length_take]; omega
      have hseglen : (p.segment.take h.start ++ ((window p.segment h).filter pr ++ B2')
          ++ p.segment.drop h.stop).length = p.segment.length := by
        simp only [List.length_append, hta, List.length_drop]; omega
      have hilt : i < p.block.length := by
        rcases List.getElem?_eq_some_iff.mp hi with ⟨hlt, _⟩; exact hlt
      have hb : B2'.length ≠ 0 := by simpa [List.length_eq_zero_iff] using h2
      have hj : ((window p.segment h).filter pr).length ≠ 0 := by
        simpa [List.length_eq_zero_iff] using h1
      have htake : (p.segment.take h.start ++ ((window p.segment h).filter pr ++ B2')
          ++ p.segment.drop h.stop).take h.start = p.segment.take h.start := by
        rw [List.append_assoc, List.take_left' hta]
      have hdrop : (p.segment.take h.start ++ ((window p.segment h).filter pr ++ B2')
          ++ p.segment.drop h.stop).drop h.stop = p.segment.drop h.stop := by
        rw [List.drop_left']
        simp only [List.length_append, hta]; omega
      refine ⟨rfl, hseglen, ?_, htake, hdrop, fun a => (h1 a).elim,
        fun _ b => (h2 (hB2.mpr b)).elim, fun _ _ => ⟨rfl, rfl, ?_, B2', ?_, hperm⟩, ?_⟩
      · -- perm
        have hw : ((window p.segment h).filter pr ++ B2').Perm (window p.segment h) :=
          (List.Perm.append_left _ hperm).trans (List.filter_append_perm pr _)
        have := (List.Perm.append_left (p.segment.take h.start) hw).append_right
          (p.segment.drop h.stop)
        rwa [take_window_drop _ _ hle] at this
      · -- block i
        rw [blockElements_eq_window _ i ⟨h.start, h.start + ((window p.segment h).filter pr).length⟩
          (by simp [List.getElem?_append_left, hilt])]
        rw [if_pos (by simp only [hseglen]; constructor <;> omega)]
        simp only
        rw [← List.append_assoc, List.append_assoc _ B2', window_append _ _ _ _ _ hta rfl]
      · -- the new block
        rw [blockElements_eq_window _ p.numBlocks ⟨h.start + ((window p.segment h).filter pr).length, h.stop⟩
          (by simp [numBlocks])]
        rw [if_pos (by simp only [hseglen]; constructor <;> omega)]
        simp only
        rw [← List.append_assoc, window_append _ _ _ _ _ (by simp [hta]) (by omega)]
      · -- others
        intro k hk hkb hdis
        have hki : k ≠ i := by
          rintro rfl
          rw [hi] at hkb; cases hkb; omega
        have hklt : k < p.block.length := by
          rcases List.getElem?_eq_some_iff.mp hkb with ⟨hlt, _⟩; exact hlt
        have hkb' : (p.block.set i ⟨h.start, h.start + ((window p.segment h).filter pr).length⟩
            ++ [⟨h.start + ((window p.segment h).filter pr).length, h.stop⟩])[k]? = some hk := by
          rw [List.getElem?_append_left (by simpa using hklt), List.getElem?_set_ne (Ne.symm hki), hkb]
        refine ⟨hkb', ?_⟩
        rw [blockElements_eq_window _ k hk hkb', blockElements_eq_window _ k hk hkb]
        simp only [hseglen]
        rw [window_eq_of_frame _ _ h.start h.stop hk htake hdrop hdis]

/-! ### congruence and failure of the loop -/

/-- the loop only looks at the predicate on the elements it reaches -/
theorem swapLoop_congr (pr pr' : Nat → Option Bool) : ∀ (m k j : Nat) (s : List Nat),
    (∀ n x, k ≤ n → s[n]? = some x → pr x = pr' x) →
    swapLoop pr m k j s = swapLoop pr' m k j s := by
  intro m
  induction m with
  | zero => intro k j s _; rfl
  | succ m ih =>
    intro k j s hs
    unfold swapLoop
    cases hk : s[k]? with
    | none => rfl
    | some x =>
      simp only
      rw [hs k x (Nat.le_refl _) hk]
      have hs' : ∀ n x, k + 1 ≤ n → s[n]? = some x → pr x = pr' x :=
        fun n x hn => hs n x (by omega)
      cases pr' x with
      | none => rfl
      | some b =>
        cases b with
        | false => exact ih _ _ _ hs'
        | true =>
          simp only
          split
          · rename_i hjk
            unfold swap
            rw [hk]
            cases hj : s[j]? with
            | none => rfl
            | some y =>
              simp only
              apply ih
              intro n z hn hz
              rw [List.getElem?_set_ne (by omega), List.getElem?_set_ne (by omega)] at hz
              exact hs' n z hn hz
          · exact ih _ _ _ hs'

/-- a panic of the predicate on some element of the block makes the loop panic -/
theorem swapLoop_none (pr : Nat → Option Bool) (R : List Nat) :
    ∀ (T F : List Nat), (∃ y ∈ R, pr y = none) →
      swapLoop pr R.length (T.length + F.length) T.length (T ++ F ++ R) = none := by
  induction R with
  | nil => intro T F h; simp at h
  | cons x R0 ih =>
    intro T F hy
    cases hpx : pr x with
    | none =>
      rw [List.length_cons, swapLoop, getElem?_loop_index]
      simp only [hpx]
    | some b =>
      have hy0 : ∃ y ∈ R0, pr y = none := by
        obtain ⟨y, hmem, hn⟩ := hy
        rcases List.mem_cons.mp hmem with rfl | hmem
        · rw [hpx] at hn; cases hn
        · exact ⟨y, hmem, hn⟩
      cases b with
      | false => rw [List.length_cons, swapLoop_step_false pr T F R0 x hpx]; exact ih _ _ hy0
      | true =>
        cases F with
        | nil => rw [List.length_cons, swapLoop_step_true_nil pr T R0 x hpx]; exact ih _ _ hy0
        | cons f F0 =>
          rw [List.length_cons, swapLoop_step_true_cons pr T F0 R0 f x hpx]; exact ih _ _ hy0

theorem refineBlockOpt_congr (p : BasePartition) (i : Nat) (pr pr' : Nat → Option Bool)
    (h : ∀ s, p.slice i = some s → ∀ x ∈ s, pr x = pr' x) :
    p.refineBlockOpt i pr = p.refineBlockOpt i pr' := by
  unfold refineBlockOpt
  cases hb : p.block[i]? with
  | none => rfl
  | some hd =>
    cases hs : p.slice i with
    | none => rfl
    | some s =>
      simp only
      rw [swapLoop_congr pr pr' s.length 0 0 s
        (fun n x _ hx => h s hs x (List.mem_of_getElem? hx))]

theorem refineBlockOpt_none (p : BasePartition) (i : Nat) (pr : Nat → Option Bool)
    (h : ∀ s, p.slice i = some s → ∃ y ∈ s, pr y = none) :
    p.refineBlockOpt i pr = none := by
  unfold refineBlockOpt
  cases hb : p.block[i]? with
  | none => rfl
  | some hd =>
    cases hs : p.slice i with
    | none => rfl
    | some s =>
      simp only
      have := swapLoop_none pr s [] [] (h s hs)
      simp only [List.length_nil, Nat.add_zero, List.nil_append] at this
      rw [this]

end BasePartition

/-! ### Partition -/

namespace Partition
open BasePartition

theorem setIds_spec (b2 : Nat) : ∀ (xs ids : List Nat), (∀ x ∈ xs, x < ids.length) →
    ∃ ids', Partition.setIds b2 xs ids = some ids' ∧ ids'.length = ids.length ∧
      ∀ x, ids'[x]? = if x ∈ xs then some b2 else ids[x]? := by
  intro xs
  induction xs with
  | nil => intro ids _; exact ⟨ids, rfl, rfl, by simp⟩
  | cons y rest ih =>
    intro ids hlt
    have hy : y < ids.length := hlt y (List.mem_cons_self ..)
    obtain ⟨ids', h1, h2, h3⟩ := ih (ids.set y b2)
      (fun x hx => by simpa using hlt x (List.mem_cons_of_mem _ hx))
    refine ⟨ids', by simp [Partition.setIds, hy, h1], by simpa using h2, ?_⟩
    intro x
    rw [h3 x, List.getElem?_set]
    by_cases hx : x ∈ rest
    · simp [hx]
    · by_cases hxy : y = x
      · subst hxy; simp [hy]
      · have : ¬ x = y := fun e => hxy e.symm
        simp [hx, hxy, this]

theorem refine_block_spec (p : Partition) (i : Nat) (pr : Nat → Bool) (h : BlockHeader)
    (hi : p.base.block[i]? = some h) (hle : h.start ≤ h.stop)
    (hstop : h.stop ≤ p.base.segment.length) (hsz : p.base.segment.length = p.base.size)
    (hid : ∀ x ∈ window p.base.segment h, x < p.blockId.length) :
    ∃ q r, p.refineBlock i pr = some (q, r) ∧ RefineSpec p.base i pr h q.base r ∧
      q.blockId.length = p.blockId.length ∧
      ∀ x, q.blockId[x]? =
        if i ≠ 0 ∧ (window p.base.segment h).filter pr ≠ [] ∧
            x ∈ (window p.base.segment h).filter (fun x => !pr x)
        then some p.base.numBlocks else p.blockId[x]? := by
  obtain ⟨p', r, heq, spec⟩ := BasePartition.refine_block_spec p.base i pr h hi hle hstop hsz
  obtain ⟨b1, b2⟩ := r
  unfold Partition.refineBlock
  rw [heq]
  unfold Partition.finishRefine
  simp only
  by_cases h1 : (window p.base.segment h).filter pr = []
  · have hr := (spec.none_true h1).1
    cases hr
    exact ⟨⟨p', p.blockId⟩, (0, i), by simp, spec, rfl, by simp [h1]⟩
  · by_cases h2 : (window p.base.segment h).filter (fun x => !pr x) = []
    · have hr := (spec.all_true h1 h2).1
      cases hr
      exact ⟨⟨p', p.blockId⟩, (i, 0), by simp, spec, rfl, by simp [h2]⟩
    · obtain ⟨hr, _, _, B2', hB2', hperm⟩ := spec.split h1 h2
      cases hr
      by_cases hi0 : i = 0
      · exact ⟨⟨p', p.blockId⟩, (i, p.base.numBlocks), by simp [hi0], spec, rfl, by simp [hi0]⟩
      · have hilt : i < p.base.numBlocks := by
          rcases List.getElem?_eq_some_iff.mp hi with ⟨hlt, _⟩; exact hlt
        have hnb : p.base.numBlocks ≠ 0 := by omega
        obtain ⟨ids', e1, e2, e3⟩ := setIds_spec p.base.numBlocks B2' p.blockId
          (fun x hx => hid x ((List.mem_filter.mp (hperm.mem_iff.mp hx)).1))
        rw [if_pos ⟨hi0, hnb⟩, hB2']
        simp only [e1]
        refine ⟨⟨p', ids'⟩, (i, p.base.numBlocks), rfl, spec, e2, ?_⟩
        intro x
        simp only [e3 x, hperm.mem_iff, ne_eq, hi0, not_false_eq_true, h1, true_and]

/-- `refine_block_with_fun(i, f, b)` is `refine_block(i, |y| block_id[f(y)] == b)` as soon as
    `f` maps the elements of block `i` into the domain of `block_id` -/
theorem refine_block_with_fun_eq (p : Partition) (i : Nat) (f : Nat → Nat) (b : Nat)
    (hf : ∀ s, p.base.blockElements i = some s → ∀ y ∈ s, f y < p.blockId.length) :
    p.refineBlockWithFun i f b = p.refineBlock i (fun y => p.blockId.getD (f y) 0 == b) := by
  unfold refineBlockWithFun refineBlock BasePartition.refineBlock
  rw [refineBlockOpt_congr]
  intro s hs y hy
  have := hf s hs y hy
  simp [List.getD, this]

/-- if `f` maps some element of block `i` outside the domain of `block_id`, the call panics -/
theorem refine_block_with_fun_none (p : Partition) (i : Nat) (f : Nat → Nat) (b : Nat)
    (hf : ∀ s, p.base.blockElements i = some s → ∃ y ∈ s, p.blockId.length ≤ f y) :
    p.refineBlockWithFun i f b = none := by
  unfold refineBlockWithFun
  rw [refineBlockOpt_none]
  · rfl
  · intro s hs
    obtain ⟨y, hy, hlt⟩ := hf s hs
    exact ⟨y, hy, by simp [hlt]⟩

/-- the specification of `Partition::refine_block_with_fun(i, f, b)`: it behaves as
    `refine_block` with the predicate "the block id of `f y` is `b`" -/
theorem refine_block_with_fun_spec (p : Partition) (i : Nat) (f : Nat → Nat) (b : Nat)
    (h : BlockHeader)
    (hi : p.base.block[i]? = some h) (hle : h.start ≤ h.stop)
    (hstop : h.stop ≤ p.base.segment.length) (hsz : p.base.segment.length = p.base.size)
    (hid : ∀ x ∈ window p.base.segment h, x < p.blockId.length)
    (hf : ∀ y ∈ window p.base.segment h, f y < p.blockId.length) :
    ∃ q r, p.refineBlockWithFun i f b = some (q, r) ∧
      RefineSpec p.base i (fun y => p.blockId.getD (f y) 0 == b) h q.base r ∧
      q.blockId.length = p.blockId.length ∧
      ∀ x, q.blockId[x]? =
        if i ≠ 0 ∧ (window p.base.segment h).filter (fun y => p.blockId.getD (f y) 0 == b) ≠ [] ∧
            x ∈ (window p.base.segment h).filter (fun y => !(p.blockId.getD (f y) 0 == b))
        then some p.base.numBlocks else p.blockId[x]? := by
  rw [refine_block_with_fun_eq]
  · exact refine_block_spec p i _ h hi hle hstop hsz hid
  · intro s hs y hy
    rw [blockElements_eq_window _ i h hi, if_pos ⟨hle, hstop⟩] at hs
    cases hs
    exact hf y hy

end Partition

/-! ### non-vacuity: concrete runs -/

section Examples

/-- `Partition::new(6)`, block 1 refined by "even": `[0,2,4]` stay in order, the odd elements
    end up as `[3,1,5]` (permuted by the swaps) in the new block 2 -/
example : (Partition.new 6).refineBlock 1 (fun x => x % 2 == 0)
    = some (⟨⟨6, [⟨0, 0⟩, ⟨0, 3⟩, ⟨3, 6⟩], [0, 2, 4, 3, 1, 5]⟩, [1, 2, 1, 2, 1, 2]⟩, (1, 2)) := by
  decide

/-- the partition reached above -/
private def exQ : Partition := ⟨⟨6, [⟨0, 0⟩, ⟨0, 3⟩, ⟨3, 6⟩], [0, 2, 4, 3, 1, 5]⟩, [1, 2, 1, 2, 1, 2]⟩

/-- then block 1 by "x < 3": `[0,2]` / `[4]`, block 2 (window `[3,6)`) untouched -/
example : exQ.refineBlock 1 (fun x => x < 3)
    = some (⟨⟨6, [⟨0, 0⟩, ⟨0, 2⟩, ⟨3, 6⟩, ⟨2, 3⟩], [0, 2, 4, 3, 1, 5]⟩, [1, 2, 1, 2, 3, 2]⟩, (1, 3)) := by
  decide

/-- block 2 = `[3,1,5]` by "x = 5": the false elements `[3,1]` come out as `[1,3]` -/
example : exQ.refineBlock 2 (fun x => x == 5)
    = some (⟨⟨6, [⟨0, 0⟩, ⟨0, 3⟩, ⟨3, 4⟩, ⟨4, 6⟩], [0, 2, 4, 5, 1, 3]⟩, [1, 3, 1, 3, 1, 2]⟩, (2, 3)) := by
  decide

/-- no element / every element satisfies the predicate: nothing changes -/
example : exQ.refineBlock 2 (fun x => x > 9) = some (exQ, (0, 2)) := by decide
example : exQ.refineBlock 2 (fun x => x < 9) = some (exQ, (2, 0)) := by decide

/-- `refine_block_with_fun`: block 1 = `[0,2,4]`, `f y = y / 2` has block ids `1,2,1`, `b = 2` -/
example : exQ.refineBlockWithFun 1 (fun y => y / 2) 2
    = some (⟨⟨6, [⟨0, 0⟩, ⟨0, 1⟩, ⟨3, 6⟩, ⟨1, 3⟩], [2, 0, 4, 3, 1, 5]⟩, [3, 2, 1, 2, 3, 2]⟩, (1, 3)) := by
  decide

/-- `f` leaves the domain of `block_id`: panic -/
example : exQ.refineBlockWithFun 1 (fun y => y + 10) 2 = none := by decide

/-- the hypotheses of the specification theorems are satisfiable (here with a real split) -/
example : ∃ q r, exQ.refineBlock 2 (fun x => x == 5) = some (q, r) ∧
    BasePartition.RefineSpec exQ.base 2 (fun x => x == 5) ⟨3, 6⟩ q.base r ∧
    q.blockId.length = exQ.blockId.length ∧
    ∀ x, q.blockId[x]? =
      if 2 ≠ 0 ∧ (BasePartition.window exQ.base.segment ⟨3, 6⟩).filter (fun x => x == 5) ≠ [] ∧
          x ∈ (BasePartition.window exQ.base.segment ⟨3, 6⟩).filter (fun x => !(x == 5))
      then some exQ.base.numBlocks else exQ.blockId[x]? :=
  Partition.refine_block_spec exQ 2 _ ⟨3, 6⟩ (by decide) (by decide) (by decide) (by decide)
    (by decide)

example : ∃ q r, exQ.refineBlockWithFun 1 (fun y => y / 2) 2 = some (q, r) ∧
    BasePartition.RefineSpec exQ.base 1 (fun y => exQ.blockId.getD (y / 2) 0 == 2) ⟨0, 3⟩ q.base r :=
  let ⟨q, r, h1, h2, _⟩ := Partition.refine_block_with_fun_spec exQ 1 (fun y => y / 2) 2 ⟨0, 3⟩
    (by decide) (by decide) (by decide) (by decide) (by decide) (by decide)
  ⟨q, r, h1, h2⟩

end Examples

end Smt
