/-
  C04, Hopcroft layer 4: `StateMapping::from_partition` and `Automaton::minimize`
  (Model/Hopcroft.lean) on top of the proved partition (`Proofs/Hopcroft.lean: run_spec`) and of the
  generic quotient context of `Proofs/Quotient.lean` (`QCtx A blk nb rep Q`).

  * `newIds_spec`, `oldIds_spec`, `pickElement_mem`   the two loops of `from_partition`:
        `new_id[s] = block_id(s) - 1`, `old_id[b-1] = pick_element(b)`, a member of block `b`
  * `remap_isQuot`      `remap_nodes` with such a mapping does not panic and builds the quotient
  * `check_of_ctx`      a quotient by a Nerode block list passes the verified checker
  * `minimize_passes`   for every automaton as the crate hands them out (`AutWF`, and `wfAut`):
                        if the model's `minimize` returns `A'` then `checkMinimized A A' = true`
-/
import SmtModel.Proofs.Hopcroft
import SmtModel.Proofs.Quotient
import SmtModel.Props.C14

namespace Smt
open BasePartition Partition

/-! ### `from_partition` -/
namespace StateMapping

theorem newIds_spec (p : Partition) : ∀ (xs newId r : List Nat),
    fromPartitionNewIds p xs newId = some r →
    r.length = newId.length ∧
    (∀ s ∈ xs, ∃ b, p.blockIdOf s = some b ∧ b ≠ 0 ∧ r[s]? = some (b - 1)) ∧
    (∀ s, s ∉ xs → r[s]? = newId[s]?) := by
  intro xs
  induction xs with
  | nil =>
    intro newId r h
    simp only [fromPartitionNewIds, Option.some.injEq] at h
    subst h
    exact ⟨rfl, (fun s hs => by cases hs), fun _ _ => rfl⟩
  | cons s0 rest ih =>
    intro newId r h
    unfold fromPartitionNewIds at h
    split at h
    · cases h
    · rename_i b0 hb0
      split at h
      · cases h
      · rename_i hb0z
        split at h
        · rename_i hlt
          obtain ⟨hlen, hin, hout⟩ := ih _ r h
          refine ⟨by rw [hlen, List.length_set], ?_, ?_⟩
          · intro s hs
            by_cases hsr : s ∈ rest
            · exact hin s hsr
            · rcases List.mem_cons.1 hs with rfl | hs
              · refine ⟨b0, hb0, hb0z, ?_⟩
                rw [hout s hsr]
                simp [hlt]
              · exact absurd hs hsr
          · intro s hs
            have h1 : s ∉ rest := fun a => hs (List.mem_cons_of_mem _ a)
            have h2 : s ≠ s0 := fun a => hs (a ▸ List.mem_cons_self ..)
            rw [hout s h1, List.getElem?_set_ne (fun e => h2 e.symm)]
        · cases h

theorem oldIds_spec (p : Partition) : ∀ (bs oldId r : List Nat), (∀ b ∈ bs, 1 ≤ b) →
    fromPartitionOldIds p bs oldId = some r →
    r.length = oldId.length ∧
    (∀ b ∈ bs, ∃ x, p.pickElement b = some x ∧ r[b - 1]? = some x) := by
  intro bs
  induction bs with
  | nil =>
    intro oldId r _ h
    simp only [fromPartitionOldIds, Option.some.injEq] at h
    subst h
    exact ⟨rfl, fun b hb => by cases hb⟩
  | cons b0 rest ih =>
    intro oldId r hpos h
    unfold fromPartitionOldIds at h
    split at h
    · cases h
    · rename_i x0 hx0
      split at h
      · rename_i hlt
        -- a stronger statement for the tail: indices not touched keep their value
        have key : ∀ (bs oldId r : List Nat), fromPartitionOldIds p bs oldId = some r →
            ∀ j, (∀ b ∈ bs, b - 1 ≠ j) → r[j]? = oldId[j]? := by
          intro bs
          induction bs with
          | nil =>
            intro oldId r h j _
            simp only [fromPartitionOldIds, Option.some.injEq] at h
            subst h; rfl
          | cons b1 rest1 ih1 =>
            intro oldId r h j hj
            unfold fromPartitionOldIds at h
            split at h
            · cases h
            · split at h
              · rw [ih1 _ r h j (fun b hb => hj b (List.mem_cons_of_mem _ hb)),
                  List.getElem?_set_ne (hj b1 (List.mem_cons_self ..))]
              · cases h
        obtain ⟨hlen, hin⟩ := ih _ r (fun b hb => hpos b (List.mem_cons_of_mem _ hb)) h
        refine ⟨by rw [hlen, List.length_set], ?_⟩
        intro b hb
        by_cases hbr : b ∈ rest
        · exact hin b hbr
        · rcases List.mem_cons.1 hb with rfl | hb
          · refine ⟨x0, hx0, ?_⟩
            by_cases hdup : ∃ b' ∈ rest, b' - 1 = b - 1
            · obtain ⟨b', hb', e⟩ := hdup
              have h1 := hpos b' (List.mem_cons_of_mem _ hb')
              have h2 := hpos b (List.mem_cons_self ..)
              have : b' = b := by omega
              exact absurd (this ▸ hb') hbr
            · rw [key _ _ r h (b - 1) (fun b' hb' e => hdup ⟨b', hb', e⟩)]
              simp [hlt]
          · exact absurd hb hbr
      · cases h

end StateMapping

namespace BasePartition

/-- `pick_element(b)` is an element of block `b` -/
theorem pickElement_mem {p : BasePartition} {n : Nat} (hp : PWF p n) {b : Nat} (hb0 : 0 < b)
    (hb : b < p.numBlocks) : ∃ x, p.pickElement b = some x ∧ Mem p b x := by
  obtain ⟨y, hy⟩ := hp.nonempty b hb0 hb
  obtain ⟨h, hbh, hyw⟩ := (mem_iff hp b y).1 hy
  obtain ⟨hle, hstop⟩ := hp.hdr b h hbh
  have hwlen := window_length p.segment h (by rw [hp.seg_len]; exact hstop)
  have hpos : 0 < (window p.segment h).length := List.length_pos_of_mem hyw
  have hlt : h.start < p.segment.length := by rw [hp.seg_len]; omega
  refine ⟨p.segment[h.start], ?_, ?_⟩
  · unfold pickElement
    rw [if_neg (by omega), hbh]
    exact List.getElem?_eq_getElem hlt
  · rw [mem_iff hp]
    refine ⟨h, hbh, ?_⟩
    unfold window
    rw [List.drop_eq_getElem_cons hlt]
    have : h.stop - h.start = (h.stop - h.start - 1) + 1 := by omega
    rw [this, List.take_succ_cons]
    exact List.mem_cons_self ..

end BasePartition

namespace Minimize

/-! ### `remap_nodes` builds the quotient -/

theorem remap_isQuot {A : Automaton} (h : wfAut A = true) {blk : List Nat} {nb : Nat} {rep : Nat → Nat}
    (hlen : blk.length = A.states.length)
    (hrep : ∀ j, j < nb → rep j < A.states.length ∧ blk[rep j]? = some j) :
    ∃ Q, A.remapNodes ⟨blk, (List.range nb).map rep⟩ = some Q ∧ IsQuot A blk nb rep Q := by
  have hinit : A.initialState < blk.length := hlen ▸ (wfAut_spec h).2.1
  set reps := (List.range nb).map rep with hreps
  have hloop := remapLoop_spec A blk reps reps 0 0 (fun k hk => by
    have hk' : k < nb := by simpa [hreps] using hk
    have hrk : reps[k] = rep k := by simp [hreps]
    have hlt : rep k < A.states.length := (hrep k hk').1
    refine ⟨A.states[rep k], by rw [hrk, List.getElem?_eq_getElem hlt], ?_⟩
    have hst := List.getElem?_eq_getElem hlt
    have hid := wf_id h hst
    obtain ⟨_, _, _, hsucc, hd1, _⟩ := wfState_spec ((wfAut_spec h).2.2 _ _ hst)
    rw [Nat.zero_add]
    apply state_remap
    · rw [hid]; exact (hrep k hk').2
    · rw [hid, List.getElem?_eq_getElem hk, hrk]
    · intro j hj; rw [hlen]; exact hsucc j hj
    · intro d hd; rw [hlen]; exact hd1 d hd)
  obtain ⟨sts, e, hl, hall⟩ := hloop
  refine ⟨{ numStates := nb, numFinalStates := 0 + (sts.filter (·.isFinal)).length,
            initialState := blk[A.initialState], states := sts }, ?_, ?_⟩
  · simp only [Automaton.remapNodes, List.getElem?_eq_getElem hinit, e,
      StateMapping.numNewStates]
    simp [hreps]
  · refine ⟨rfl, by simp [hl, hreps], by simp [List.getElem?_eq_getElem hinit], ?_, by simp⟩
    intro j hj
    have hj' : j < reps.length := by simpa [hreps] using hj
    obtain ⟨s, hs, hq⟩ := hall j hj'
    have hrk : reps[j] = rep j := by simp [hreps]
    rw [hrk] at hs
    exact ⟨s, hs, by simpa using hq⟩

/-- a quotient by a Nerode block list passes the verified checker -/
theorem check_of_ctx {A Q : Automaton} {blk : List Nat} {nb : Nat} {rep : Nat → Nat}
    (cx : QCtx A blk nb rep Q) (hN : IsNerode A blk) : checkMinimized A Q = true := by
  unfold checkMinimized
  rw [cx.wfA, cx.wfQ, cx.findHom_quot hN]
  simp only [Bool.and_self, Bool.true_and, cx.checkHom_quot hN, cx.discrete hN]
  unfold countsOk
  rw [beq_iff_eq]
  exact cx.isq.counts

/-! ### `Automaton::minimize` -/

section
open Hopcroft

theorem qState_range_self {A : Automaton} (h : wfAut A = true) {j : Nat} {s : State}
    (hs : A.states[j]? = some s) : qState (List.range A.states.length) j s = s := by
  obtain ⟨hid, _, _, hsucc, hd1, _⟩ := wfState_spec ((wfAut_spec h).2.2 _ _ hs)
  have hget : ∀ x, x < A.states.length → (List.range A.states.length).getD x 0 = x := by
    intro x hx
    simp [List.getD_eq_getElem?_getD, hx]
  have e1 : s.successor.map (fun x => (List.range A.states.length).getD x 0) = s.successor := by
    conv => rhs; rw [← List.map_id s.successor]
    apply List.map_congr_left
    intro x hx
    exact hget x (hsucc x hx)
  have e2 : s.defaultSuccessor.map (fun x => (List.range A.states.length).getD x 0)
      = s.defaultSuccessor := by
    cases hd : s.defaultSuccessor with
    | none => rfl
    | some d =>
      show some ((List.range A.states.length).getD d 0) = some d
      rw [hget d (hd1 d hd)]
  unfold qState
  rw [e1, e2, ← hid]

/-- T:minimize_model_passes_check (proof) -/
theorem minimize_passes {A : Automaton} (hw : AutWF A) (h : wfAut A = true) {A' : Automaton}
    (hm : A.minimize = some A') : checkMinimized A A' = true := by
  obtain ⟨T, hT, _, hTa, heval⟩ := C14.compile_successors_eval hw
  have hnum : A.numStates = A.states.length := (wfAut_spec h).1
  have hcov := alphabet_covers h
  have hale : ∀ c ∈ A.pickAlphabet, c ≤ MAX_CHAR := hcov.1
  -- the closures passed to the minimizer
  have hδ : ∀ i j, i < A.states.length → j < A.pickAlphabet.length →
      T.eval i j = some (stepD A i (A.pickAlphabet.getD j 0)) ∧
      stepD A i (A.pickAlphabet.getD j 0) < A.states.length := by
    intro i j hi hj
    obtain ⟨t, ht, he⟩ := heval i hi j hj
    have hc : A.pickAlphabet.getD j 0 = A.pickAlphabet[j] := by
      simp [List.getD_eq_getElem?_getD, hj]
    have hcm : A.pickAlphabet[j] ≤ MAX_CHAR := hale _ (List.getElem_mem hj)
    have hs : stepD A i A.pickAlphabet[j] = t.id := by
      simp [stepD, stepIdx, List.getElem?_eq_getElem hi, ht]
    rw [hc, hs]
    exact ⟨he, by rw [← hs]; exact stepD_lt h hi hcm⟩
  have hcl : Hopcroft.Closed (fun i j => T.eval i j) A.states.length A.pickAlphabet.length :=
    fun x c hx hc => ⟨_, (hδ x c hx hc).1, (hδ x c hx hc).2⟩
  have hdd : ∀ i j, i < A.states.length → j < A.pickAlphabet.length →
      dd (fun i j => T.eval i j) i j = stepD A i (A.pickAlphabet.getD j 0) := by
    intro i j hi hj
    simp [dd, (hδ i j hi hj).1]
  have hff : ∀ i, ff (fun i => (A.state i).map (·.isFinal)) i = finD A i := by
    intro i
    unfold ff finD Automaton.state
    cases hs : A.states[i]? <;> simp [hs]
  -- unfold the call sequence
  unfold Automaton.minimize at hm
  simp only [hT] at hm
  split at hm
  · cases hm
  · rename_i mz hnew
    split at hm
    · cases hm
    · rename_i mz' hrefine
      rw [hnum, hTa] at hnew
      have hrun : Hopcroft.run (fun i j => T.eval i j) (fun i => (A.state i).map (·.isFinal))
          A.states.length A.pickAlphabet.length = some mz'.mainPartition := by
        unfold Hopcroft.run
        rw [hnew]
        simp only [hrefine, Option.map_some]
      obtain ⟨hP, hfin, hcoarse, hst⟩ := run_spec hcl hrun
      -- words over letter indices versus words over the representatives
      have hfold : ∀ (v : List Nat), (∀ j ∈ v, j < A.pickAlphabet.length) → ∀ s, s < A.states.length →
          v.foldl (dd (fun i j => T.eval i j)) s
            = runD A s (v.map (fun j => A.pickAlphabet.getD j 0)) := by
        intro v
        induction v with
        | nil => intro _ s _; rfl
        | cons j v ih =>
          intro hv s hs
          have hj := hv j (List.mem_cons_self ..)
          simp only [List.foldl_cons, List.map_cons, runD_cons]
          rw [hdd s j hs hj]
          exact ih (fun j' hj' => hv j' (List.mem_cons_of_mem _ hj')) _ (hδ s j hs hj).2
      have hwfs : ∀ (v : List Nat), (∀ j ∈ v, j < A.pickAlphabet.length) →
          WFs (v.map (fun j => A.pickAlphabet.getD j 0)) := by
        intro v hv c hc
        obtain ⟨j, hj, rfl⟩ := List.mem_map.1 hc
        have hj' := hv j hj
        have : A.pickAlphabet.getD j 0 = A.pickAlphabet[j] := by
          simp [List.getD_eq_getElem?_getD, hj']
        rw [this]
        exact hale _ (List.getElem_mem hj')
      -- the Hopcroft partition is the Nerode equivalence
      have hNer : ∀ s t, s < A.states.length → t < A.states.length →
          (blk mz'.mainPartition s = blk mz'.mainPartition t ↔ resid A s = resid A t) := by
        intro s t hs ht
        constructor
        · intro hb
          have hind := indist_of_stable hcl hfin hst s t hs ht hb
          ext w
          rw [resid_iff h hs, resid_iff h ht]
          have key : ∀ w, WFs w → finD A (runD A s w) = finD A (runD A t w) := by
            intro w hw'
            obtain ⟨w', hw'm, hsame⟩ := normalize h hcov hw'
            rw [← hsame s hs, ← hsame t ht]
            -- w' as a word of indices
            have hidx : ∀ c ∈ w', A.pickAlphabet.idxOf c < A.pickAlphabet.length :=
              fun c hc => List.idxOf_lt_length_iff.2 (hw'm c hc)
            have hback : (w'.map (fun c => A.pickAlphabet.idxOf c)).map
                (fun j => A.pickAlphabet.getD j 0) = w' := by
              rw [List.map_map]
              conv => rhs; rw [← List.map_id w']
              apply List.map_congr_left
              intro c hc
              have := hidx c hc
              simp [List.getD_eq_getElem?_getD, this]
            have hv : ∀ j ∈ w'.map (fun c => A.pickAlphabet.idxOf c), j < A.pickAlphabet.length := by
              intro j hj
              obtain ⟨c, hc, rfl⟩ := List.mem_map.1 hj
              exact hidx c hc
            have := hind _ hv
            rw [hfold _ hv s hs, hfold _ hv t ht, hback, hff, hff] at this
            exact this
          constructor
          · rintro ⟨hw', hf⟩; exact ⟨hw', by rw [← key w hw']; exact hf⟩
          · rintro ⟨hw', hf⟩; exact ⟨hw', by rw [key w hw']; exact hf⟩
        · intro he
          apply hcoarse s t hs ht
          intro v hv
          rw [hfold v hv s hs, hfold v hv t ht, hff, hff]
          have hw' := hwfs v hv
          have h1 := resid_iff h hs (v.map (fun j => A.pickAlphabet.getD j 0))
          have h2 := resid_iff h ht (v.map (fun j => A.pickAlphabet.getD j 0))
          rw [he] at h1
          have : finD A (runD A s (v.map fun j => A.pickAlphabet.getD j 0)) = true ↔
              finD A (runD A t (v.map fun j => A.pickAlphabet.getD j 0)) = true := by
            constructor
            · intro hf; exact (h2.1 (h1.2 ⟨hw', hf⟩)).2
            · intro hf; exact (h1.1 (h2.2 ⟨hw', hf⟩)).2
          cases e1 : finD A (runD A s (v.map fun j => A.pickAlphabet.getD j 0)) <;>
            cases e2 : finD A (runD A t (v.map fun j => A.pickAlphabet.getD j 0)) <;> simp_all
      split at hm
      · cases hm
      · rename_i idx hidx
        have hidx' : idx = mz'.mainPartition.numBlocks - 1 := by
          unfold Partition.index BasePartition.index at hidx
          split at hidx
          · cases hidx
          · exact (Option.some.inj hidx).symm
        split at hm
        · -- some states are merged
          split at hm
          · cases hm
          · rename_i remap hremap
            unfold StateMapping.fromPartition at hremap
            simp only [hidx] at hremap
            split at hremap
            · cases hremap
            · rename_i newId hnewId
              split at hremap
              · cases hremap
              · rename_i oldId holdId
                simp only [Option.some.injEq] at hremap
                subst hremap
                have hsize : mz'.mainPartition.sizeOf = A.states.length := hP.base.size_eq
                rw [hsize] at hnewId
                obtain ⟨hnlen, hnin, _⟩ := StateMapping.newIds_spec _ _ _ _ hnewId
                have hbs : ∀ b ∈ (List.range mz'.mainPartition.numBlocks).drop 1, 1 ≤ b ∧
                    b < mz'.mainPartition.numBlocks := by
                  intro b hb
                  obtain ⟨i, hi, rfl⟩ := List.getElem_of_mem hb
                  simp only [List.getElem_drop, List.getElem_range]
                  simp only [List.length_drop, List.length_range] at hi
                  omega
                obtain ⟨holen, hoin⟩ := StateMapping.oldIds_spec _ _ _ _ (fun b hb => (hbs b hb).1) holdId
                -- the two arrays
                have hnew : newId = (List.range A.states.length).map
                    (fun x => blk mz'.mainPartition x - 1) := by
                  apply List.ext_getElem?
                  intro s
                  by_cases hs : s < A.states.length
                  · obtain ⟨b, hb, _, e⟩ := hnin s (List.mem_range.2 hs)
                    rw [blockIdOf_eq hP hs] at hb
                    cases hb
                    rw [e]
                    simp [hs]
                  · rw [List.getElem?_eq_none (by simp [hnlen]; omega),
                      List.getElem?_eq_none (by simp; omega)]
                set nb := mz'.mainPartition.numBlocks - 1 with hnb
                have hpick : ∀ j, j < nb → ∃ x, mz'.mainPartition.pickElement (j + 1) = some x ∧
                    Mem mz'.mainPartition.base (j + 1) x ∧ oldId[j]? = some x := by
                  intro j hj
                  have hmem : j + 1 ∈ (List.range mz'.mainPartition.numBlocks).drop 1 := by
                    rw [List.mem_iff_getElem]
                    refine ⟨j, by simp; omega, by simp; omega⟩
                  obtain ⟨x, hx, hox⟩ := hoin _ hmem
                  obtain ⟨x', hx', hmx⟩ := pickElement_mem hP.base (b := j + 1) (by omega)
                    (by show j + 1 < mz'.mainPartition.numBlocks; omega)
                  have : mz'.mainPartition.pickElement (j + 1) = mz'.mainPartition.base.pickElement (j + 1) := rfl
                  have hxx : x' = x := by
                    rw [this, hx'] at hx; exact Option.some.inj hx
                  subst hxx
                  exact ⟨x', by rw [this]; exact hx', hmx, by simpa using hox⟩
                let rep : Nat → Nat := fun j => (mz'.mainPartition.pickElement (j + 1)).getD 0
                have hold : oldId = (List.range nb).map rep := by
                  apply List.ext_getElem?
                  intro j
                  by_cases hj : j < nb
                  · obtain ⟨x, hx, _, hox⟩ := hpick j hj
                    rw [hox]
                    simp [hj, rep, hx]
                  · rw [List.getElem?_eq_none (by simp [holen, hidx']; omega),
                      List.getElem?_eq_none (by simp; omega)]
                have hblkL : ∀ x, x < A.states.length →
                    ((List.range A.states.length).map (fun x => blk mz'.mainPartition x - 1)).getD x 0
                      = blk mz'.mainPartition x - 1 := by
                  intro x hx
                  simp [List.getD_eq_getElem?_getD, hx]
                have hrep : ∀ j, j < nb → rep j < A.states.length ∧
                    ((List.range A.states.length).map (fun x => blk mz'.mainPartition x - 1))[rep j]?
                      = some j := by
                  intro j hj
                  obtain ⟨x, hx, hmx, _⟩ := hpick j hj
                  have hrx : rep j = x := by simp [rep, hx]
                  have hxn := hP.base.bound _ _ hmx
                  have hbx := (blk_spec hP hxn (j + 1)).2 hmx
                  rw [hrx]
                  refine ⟨hxn, ?_⟩
                  simp [hxn, hbx]
                obtain ⟨Q, hQ, hisq⟩ := remap_isQuot h (blk := (List.range A.states.length).map
                  (fun x => blk mz'.mainPartition x - 1)) (by simp) hrep
                obtain rfl : Q = A' := by
                  rw [hnew, hold, hQ] at hm; exact Option.some.inj hm
                have cx : QCtx A ((List.range A.states.length).map
                    (fun x => blk mz'.mainPartition x - 1)) nb rep Q := by
                  refine ⟨h, by simp, ?_, fun j hj => (hrep j hj).1, ?_, hisq⟩
                  · intro x hx
                    rw [hblkL x hx]
                    have := blk_pos hP hx
                    show blk mz'.mainPartition x - 1 < mz'.mainPartition.numBlocks - 1
                    omega
                  · intro j hj
                    obtain ⟨h1, h2⟩ := hrep j hj
                    rw [List.getD_eq_getElem?_getD, h2]; rfl
                apply check_of_ctx cx
                intro s t hs ht
                rw [hblkL s hs, hblkL t ht, ← hNer s t hs ht]
                have := blk_pos hP hs
                have := blk_pos hP ht
                omega
        · -- nothing to merge: the partition is discrete
          rename_i hge
          simp only [Option.some.injEq] at hm
          subst hm
          have hnbge : A.states.length ≤ mz'.mainPartition.numBlocks - 1 := by
            rw [hnum] at hge; omega
          have hdisc := discrete_of_blocks hP hnbge
          have cx : QCtx A (List.range A.states.length) A.states.length id A := by
            refine ⟨h, by simp, ?_, fun j hj => hj, ?_, ⟨hnum, rfl, ?_, ?_, hw.numFinal⟩⟩
            · intro x hx; simp [List.getD_eq_getElem?_getD, hx]
            · intro j hj; simp [List.getD_eq_getElem?_getD, hj]
            · have := (wfAut_spec h).2.1
              simp [this]
            · intro j hj
              refine ⟨A.states[j], List.getElem?_eq_getElem hj, ?_⟩
              rw [qState_range_self h (List.getElem?_eq_getElem hj)]
              exact List.getElem?_eq_getElem hj
          apply check_of_ctx cx
          intro s t hs ht
          have e1 : (List.range A.states.length).getD s 0 = s := by
            simp [List.getD_eq_getElem?_getD, hs]
          have e2 : (List.range A.states.length).getD t 0 = t := by
            simp [List.getD_eq_getElem?_getD, ht]
          rw [e1, e2]
          constructor
          · rintro rfl; rfl
          · intro he
            exact hdisc s t hs ht ((hNer s t hs ht).2 he)

end

end Minimize
end Smt
