/-
  Helper lemmas for C14: `remove_unreachable_states` — the BFS, the sort, `StateMapping::from_array`
  and `remap_nodes`.
-/
import SmtModel.Proofs.AutomatonOps
import Mathlib.Data.List.Perm.Subperm

namespace Smt
open CharPartition

/-! ### reachability -/

/-- the states (indices) reachable from the initial state along the edges `edges` enumerates -/
inductive Reachable (A : Automaton) : Nat → Prop
  | init : Reachable A A.initialState
  | step {i j : Nat} {s : State} : Reachable A i → A.states[i]? = some s → j ∈ s.edgeTargets →
      Reachable A j

theorem State.mem_edgeTargets {s : State} {j : Nat} (h : j ∈ s.edgeTargets) :
    j ∈ s.successor ∨ s.defaultSuccessor = some j := by
  unfold State.edgeTargets at h
  rcases List.mem_append.1 h with h | h
  · exact .inl (List.mem_of_mem_take h)
  · right
    cases hd : s.defaultSuccessor with
    | none => rw [hd] at h; cases h
    | some d =>
      rw [hd] at h
      simp only [Option.toList_some, List.mem_singleton] at h
      rw [h]

theorem StateWF.edgeTargets_lt {n : Nat} {s : State} (h : StateWF n s) {j : Nat}
    (hj : j ∈ s.edgeTargets) : j < n := by
  rcases State.mem_edgeTargets hj with h1 | h1
  · exact h.succBound j h1
  · exact h.defBound j h1

theorem StateWF.edgeTargets_eq {n : Nat} {s : State} (h : StateWF n s) :
    s.edgeTargets = s.successor ++ s.defaultSuccessor.toList := by
  unfold State.edgeTargets State.numSuccessors
  rw [← h.succLen, List.take_length]

theorem Reachable.lt {A : Automaton} (h : AutWF A) {i : Nat} (hr : Reachable A i) :
    i < A.states.length := by
  induction hr with
  | init => exact h.init
  | step _ hs hj _ => exact (h.state_wf hs).edgeTargets_lt hj

/-! ### BfsQueue -/

theorem BfsQueue.pushAll_spec (q : BfsQueue) (l : List Nat) :
    ∃ ext, (q.pushAll l).queue = q.queue ++ ext ∧ (q.pushAll l).set = q.set ++ ext ∧
      (q.set.Nodup → (q.set ++ ext).Nodup) ∧ ∀ x, x ∈ q.set ++ ext ↔ x ∈ q.set ∨ x ∈ l := by
  induction l generalizing q with
  | nil => exact ⟨[], by simp [BfsQueue.pushAll], by simp [BfsQueue.pushAll], by simp, by simp⟩
  | cons a l ih =>
    have hstep : q.pushAll (a :: l) = (q.push a).1.pushAll l := by
      simp [BfsQueue.pushAll]
    rw [hstep]
    by_cases ha : a ∈ q.set
    · have hp : (q.push a).1 = q := by simp [BfsQueue.push, ha]
      rw [hp]
      obtain ⟨ext, h1, h2, h3, h4⟩ := ih q
      refine ⟨ext, h1, h2, h3, ?_⟩
      intro x
      rw [h4 x]
      constructor
      · rintro (h | h)
        · exact .inl h
        · exact .inr (by simp [h])
      · rintro (h | h)
        · exact .inl h
        · rcases List.mem_cons.1 h with rfl | h'
          · exact .inl ha
          · exact .inr h'
    · have hp : (q.push a).1 = ⟨q.queue ++ [a], q.set ++ [a]⟩ := by simp [BfsQueue.push, ha]
      rw [hp]
      obtain ⟨ext, h1, h2, h3, h4⟩ := ih ⟨q.queue ++ [a], q.set ++ [a]⟩
      refine ⟨a :: ext, by simpa using h1, by simpa using h2, ?_, ?_⟩
      · intro hn
        have : (q.set ++ [a]).Nodup := by
          rw [List.nodup_append]
          refine ⟨hn, by simp, ?_⟩
          intro x hx y hy
          simp only [List.mem_singleton] at hy
          subst hy
          intro e; subst e; exact ha hx
        have := h3 this
        simpa using this
      · intro x
        have := h4 x
        simp only [List.append_assoc, List.singleton_append] at this
        rw [this]
        simp only [List.mem_append, List.mem_cons, List.not_mem_nil, false_or, or_assoc]

theorem nodup_bounded_length {l : List Nat} {n : Nat} (h : l.Nodup) (hb : ∀ x ∈ l, x < n) :
    l.length ≤ n := by
  have := (List.subperm_of_subset h (l₂ := List.range n)
    (fun x hx => List.mem_range.2 (hb x hx))).length_le
  simpa using this

/-! ### the BFS loop -/

theorem bfsLoop_spec {A : Automaton} (h : AutWF A) :
    ∀ (fuel : Nat) (q : BfsQueue) (reach : List Nat),
      q.set = reach ++ q.queue → q.set.Nodup → (∀ x ∈ q.set, Reachable A x) →
      A.initialState ∈ q.set →
      (∀ x ∈ reach, ∀ s, A.states[x]? = some s → ∀ j ∈ s.edgeTargets, j ∈ q.set) →
      fuel + reach.length ≥ A.states.length + 1 →
      ∃ r, A.bfsLoop fuel q reach = some r ∧ r.Nodup ∧ ∀ x, x ∈ r ↔ Reachable A x := by
  intro fuel
  induction fuel with
  | zero =>
    intro q reach h1 h2 h3 _ _ hf
    have hsub : reach.Nodup := by
      rw [h1] at h2
      exact (List.nodup_append.1 h2).1
    have := nodup_bounded_length hsub (fun x hx => (h3 x (by rw [h1]; simp [hx])).lt h)
    omega
  | succ fuel ih =>
    intro q reach h1 h2 h3 h4 h5 hf
    cases hq : q.queue with
    | nil =>
      have hset : q.set = reach := by rw [h1, hq]; simp
      refine ⟨reach, ?_, hset ▸ h2, ?_⟩
      · simp [Automaton.bfsLoop, BfsQueue.pop, hq]
      · intro x
        constructor
        · intro hx; exact h3 x (hset ▸ hx)
        · intro hr
          induction hr with
          | init => exact hset ▸ h4
          | step _ hs hj ih' => exact hset ▸ h5 _ ih' _ hs _ hj
    | cons x rest =>
      have hxs : x ∈ q.set := by rw [h1, hq]; simp
      have hxr := h3 x hxs
      have hxl := hxr.lt h
      have hsx : A.states[x]? = some A.states[x] := by simp [hxl]
      obtain ⟨es, hes⟩ := h.edges_isSome (List.getElem_mem hxl)
      have hids := h.edges_ids hes
      obtain ⟨ext, e1, e2, e3, e4⟩ :=
        BfsQueue.pushAll_spec ⟨rest, q.set⟩ (es.map (·.2.id))
      simp only at e1 e2 e3 e4
      have hlen : reach.length + 1 ≤ A.states.length := by
        have hn : (reach ++ [x]).Nodup := by
          rw [h1, hq] at h2
          have : (reach ++ [x] ++ rest).Nodup := by simpa using h2
          exact (List.nodup_append.1 this).1
        have := nodup_bounded_length hn (fun y hy => by
          apply (h3 y _).lt h
          rw [h1, hq]
          simp only [List.mem_append, List.mem_singleton] at hy
          rcases hy with hy | rfl
          · simp [hy]
          · simp)
        simpa using this
      obtain ⟨r, hr, hrn, hrs⟩ := ih (BfsQueue.pushAll ⟨rest, q.set⟩ (es.map (·.2.id)))
        (reach ++ [x])
        (by rw [e2, e1, h1, hq]; simp)
        (by rw [e2]; exact e3 h2)
        (by
          intro y hy
          rw [e2] at hy
          rcases (e4 y).1 hy with hy | hy
          · exact h3 y hy
          · rw [hids] at hy
            exact .step hxr hsx hy)
        (by rw [e2]; exact (e4 _).2 (.inl h4))
        (by
          intro y hy s hs j hj
          rw [e2]
          simp only [List.mem_append, List.mem_singleton] at hy
          rcases hy with hy | rfl
          · exact (e4 j).2 (.inl (h5 y hy s hs j hj))
          · rw [hsx] at hs
            cases hs
            exact (e4 j).2 (.inr (by rw [hids]; exact hj)))
        (by simp only [List.length_append, List.length_singleton]; omega)
      refine ⟨r, ?_, hrn, hrs⟩
      simp only [Automaton.bfsLoop, BfsQueue.pop, hq, hsx, hes]
      exact hr

theorem reachableList_spec {A : Automaton} (h : AutWF A) :
    ∃ r, A.reachableList = some r ∧ r.Nodup ∧ ∀ x, x ∈ r ↔ Reachable A x := by
  unfold Automaton.reachableList
  have hp : (BfsQueue.new.push A.initialState).1 = ⟨[A.initialState], [A.initialState]⟩ := by
    simp [BfsQueue.push, BfsQueue.new]
  rw [hp]
  apply bfsLoop_spec h
  · simp
  · simp
  · intro x hx
    simp only [List.mem_singleton] at hx
    subst hx
    exact .init
  · simp
  · intro x hx; cases hx
  · simp

/-! ### `sort_unstable` -/

theorem insertNat_perm (x : Nat) (l : List Nat) : (Automaton.insertNat x l).Perm (x :: l) := by
  induction l with
  | nil => exact List.Perm.refl _
  | cons y l ih =>
    simp only [Automaton.insertNat]
    split
    · exact List.Perm.refl _
    · exact (List.Perm.cons y ih).trans (List.Perm.swap x y l)

theorem sortNat_perm (l : List Nat) : (Automaton.sortNat l).Perm l := by
  induction l with
  | nil => exact List.Perm.refl _
  | cons x l ih => exact (insertNat_perm x _).trans (List.Perm.cons x ih)

theorem insertNat_sorted (x : Nat) {l : List Nat} (h : l.Pairwise (· ≤ ·)) :
    (Automaton.insertNat x l).Pairwise (· ≤ ·) := by
  induction l with
  | nil => simp [Automaton.insertNat]
  | cons y l ih =>
    obtain ⟨hy, hl⟩ := List.pairwise_cons.1 h
    simp only [Automaton.insertNat]
    split
    · rename_i hle
      refine List.pairwise_cons.2 ⟨?_, h⟩
      intro z hz
      rcases List.mem_cons.1 hz with rfl | hz
      · exact hle
      · have := hy z hz; omega
    · rename_i hgt
      refine List.pairwise_cons.2 ⟨?_, ih hl⟩
      intro z hz
      rcases List.mem_cons.1 ((insertNat_perm x l).subset hz) with rfl | hz'
      · omega
      · exact hy z hz'

theorem sortNat_sorted (l : List Nat) : (Automaton.sortNat l).Pairwise (· ≤ ·) := by
  induction l with
  | nil => simp [Automaton.sortNat]
  | cons x l ih => exact insertNat_sorted x ih

/-- sorting a duplicate-free list gives a strictly increasing list with the same elements -/
theorem sortNat_strict {l : List Nat} (h : l.Nodup) :
    (Automaton.sortNat l).Pairwise (· < ·) ∧ (Automaton.sortNat l).Nodup ∧
      ∀ x, x ∈ Automaton.sortNat l ↔ x ∈ l := by
  have hp := sortNat_perm l
  have hn : (Automaton.sortNat l).Nodup := hp.nodup_iff.2 h
  refine ⟨?_, hn, fun x => hp.mem_iff⟩
  have := (sortNat_sorted l).and (List.nodup_iff_pairwise_ne.1 hn)
  exact this.imp (fun ⟨h1, h2⟩ => by omega)

/-! ### `StateMapping::from_array` -/

theorem fromArrayLoop_spec (n : Nat) :
    ∀ (rest pre : List Nat) (newId oldId : List Nat),
      (pre ++ rest).Nodup → (∀ x ∈ pre ++ rest, x < n) →
      newId.length = n → oldId.length = (pre ++ rest).length →
      (∀ k (hk : k < pre.length), oldId[k]? = some pre[k] ∧ newId[pre[k]]? = some k) →
      ∃ newId' oldId', StateMapping.fromArrayLoop pre.length rest newId oldId = some (newId', oldId') ∧
        newId'.length = n ∧ oldId'.length = (pre ++ rest).length ∧
        ∀ k (hk : k < (pre ++ rest).length),
          oldId'[k]? = some (pre ++ rest)[k] ∧ newId'[(pre ++ rest)[k]]? = some k := by
  intro rest
  induction rest with
  | nil =>
    intro pre newId oldId _ _ h3 h4 h5
    refine ⟨newId, oldId, rfl, h3, h4, ?_⟩
    intro k hk
    have hk' : k < pre.length := by simpa using hk
    have := h5 k hk'
    simpa using this
  | cons node rest ih =>
    intro pre newId oldId h1 h2 h3 h4 h5
    have hnode : node < n := h2 node (by simp)
    have hlen : pre.length < oldId.length := by rw [h4]; simp
    have hnd : (pre ++ [node] ++ rest).Nodup := by simpa using h1
    obtain ⟨newId', oldId', hl, r1, r2, r3⟩ := ih (pre ++ [node]) (newId.set node pre.length)
      (oldId.set pre.length node) hnd (by simpa using h2) (by simpa using h3)
      (by simpa using h4)
      (by
        intro k hk
        simp only [List.length_append, List.length_singleton] at hk
        by_cases hkp : k < pre.length
        · obtain ⟨a, b⟩ := h5 k hkp
          have hne : pre.length ≠ k := by omega
          have hne2 : node ≠ pre[k] := by
            intro e
            have hn1 := (List.nodup_append.1 h1).2.2
            exact hn1 pre[k] (List.getElem_mem hkp) node (by simp) e.symm
          simp only [List.getElem_append_left hkp, List.getElem?_set_ne hne,
            List.getElem?_set_ne hne2]
          exact ⟨a, b⟩
        · have hk' : k = pre.length := by omega
          subst hk'
          simp only [List.getElem_append_right (Nat.le_refl _), Nat.sub_self,
            List.getElem_cons_zero]
          refine ⟨by simp [List.getElem?_set_self hlen], ?_⟩
          have : node < newId.length := by omega
          simp [List.getElem?_set_self this])
    refine ⟨newId', oldId', ?_, r1, by simpa using r2, ?_⟩
    · simp only [StateMapping.fromArrayLoop, h3, hnode, hlen, if_true]
      have : (pre ++ [node]).length = pre.length + 1 := by simp
      rw [this] at hl
      exact hl
    · intro k hk
      have := r3 k (by simpa using hk)
      simpa using this

/-- what `from_array` computes on a duplicate-free list of valid nodes -/
theorem fromArray_spec {n : Nat} {keep : List Nat} (hn : keep.Nodup) (hb : ∀ x ∈ keep, x < n) :
    ∃ m, StateMapping.fromArray n keep = some m ∧ m.oldId = keep ∧ m.newId.length = n ∧
      ∀ k (hk : k < keep.length), m.newId[keep[k]]? = some k := by
  obtain ⟨newId', oldId', hl, r1, r2, r3⟩ := fromArrayLoop_spec n keep [] (List.replicate n 0)
    (List.replicate keep.length 0) (by simpa using hn) (by simpa using hb) (by simp) (by simp)
    (fun k hk => by cases hk)
  simp only [List.nil_append, List.length_nil] at hl r2 r3
  refine ⟨⟨newId', oldId'⟩, by simp [StateMapping.fromArray, hl], ?_, r1, fun k hk => (r3 k hk).2⟩
  show oldId' = keep
  apply List.ext_getElem?
  intro k
  by_cases hk : k < keep.length
  · rw [(r3 k hk).1, List.getElem?_eq_getElem hk]
  · rw [List.getElem?_eq_none (by omega), List.getElem?_eq_none (by omega)]

/-! ### `remap_nodes` -/

/-- `s'` (new index `k`) is the state `s` with every successor index `j` replaced by its
    position in `keep` -/
structure Pruned (keep : List Nat) (s s' : State) (k : Nat) : Prop where
  id : s'.id = k
  fin : s'.isFinal = s.isFinal
  classes : s'.classes = s.classes
  succLen : s'.successor.length = s.successor.length
  succ : ∀ i j : Nat, s.successor[i]? = some j →
    ∃ k' : Nat, keep[k']? = some j ∧ s'.successor[i]? = some k'
  defNone : s.defaultSuccessor = none → s'.defaultSuccessor = none
  defSome : ∀ d : Nat, s.defaultSuccessor = some d →
    ∃ k' : Nat, keep[k']? = some d ∧ s'.defaultSuccessor = some k'

theorem remapNodes_spec {keep : List Nat} {m : StateMapping} (hold : m.oldId = keep)
    (hnew : ∀ k (hk : k < keep.length), m.newId[keep[k]]? = some k)
    {s : State} {k : Nat} (hk : k < keep.length) (hid : s.id = keep[k])
    (hclosed : ∀ j, j ∈ s.successor ∨ s.defaultSuccessor = some j → j ∈ keep) :
    ∃ s', s.remapNodes m = some s' ∧ Pruned keep s s' k := by
  have hpos : ∀ j, j ∈ keep → ∃ k', keep[k']? = some j ∧ m.newId[j]? = some k' := by
    intro j hj
    obtain ⟨k', hk', rfl⟩ := List.getElem_of_mem hj
    exact ⟨k', by simp [hk'], hnew k' hk'⟩
  have hrep : m.isClassRep s.id = some true := by
    unfold StateMapping.isClassRep
    rw [hid, hnew k hk, hold]
    simp [hk]
  obtain ⟨succ', hsucc'⟩ := mapOpt_isSome (fun j => m.newId[j]?) s.successor (by
    intro j hj
    obtain ⟨k', _, h2⟩ := hpos j (hclosed j (.inl hj))
    exact ⟨k', h2⟩)
  obtain ⟨hslen, hsget⟩ := (mapOpt_some_iff _ _ _).1 hsucc'
  cases hd : s.defaultSuccessor with
  | none =>
    refine ⟨{ id := k, isFinal := s.isFinal, classes := s.classes, successor := succ',
              defaultSuccessor := none }, ?_, ⟨rfl, rfl, rfl, hslen, ?_, fun _ => rfl, ?_⟩⟩
    · unfold State.remapNodes
      simp only [hrep, hd, hsucc']
      rw [hid, hnew k hk]
    · intro i j hij
      obtain ⟨hi, rfl⟩ := List.getElem?_eq_some_iff.1 hij
      obtain ⟨k', h1, h2⟩ := hpos _ (hclosed _ (.inl (List.getElem_mem hi)))
      refine ⟨k', h1, ?_⟩
      have := hsget i hi (by omega)
      rw [h2] at this
      cases this
      simp [List.getElem?_eq_getElem (by omega : i < succ'.length)]
    · intro d hdd; rw [hd] at hdd; cases hdd
  | some d =>
    obtain ⟨kd, hkd1, hkd2⟩ := hpos d (hclosed d (.inr hd))
    refine ⟨{ id := k, isFinal := s.isFinal, classes := s.classes, successor := succ',
              defaultSuccessor := some kd }, ?_, ⟨rfl, rfl, rfl, hslen, ?_, ?_, ?_⟩⟩
    · unfold State.remapNodes
      simp only [hrep, hd, hkd2, Option.map_some, hsucc']
      rw [hid, hnew k hk]
    · intro i j hij
      obtain ⟨hi, rfl⟩ := List.getElem?_eq_some_iff.1 hij
      obtain ⟨k', h1, h2⟩ := hpos _ (hclosed _ (.inl (List.getElem_mem hi)))
      refine ⟨k', h1, ?_⟩
      have := hsget i hi (by omega)
      rw [h2] at this
      cases this
      simp [List.getElem?_eq_getElem (by omega : i < succ'.length)]
    · intro hn; rw [hd] at hn; cases hn
    · intro d' hdd
      rw [hd] at hdd
      cases hdd
      exact ⟨kd, hkd1, rfl⟩

theorem remapLoop_spec {A : Automaton} {keep : List Nat} {m : StateMapping} :
    ∀ (rest pre : List Nat) (nf : Nat), keep = pre ++ rest →
      (∀ k (hk : k < keep.length), ∃ s s', A.states[keep[k]]? = some s ∧
        s.remapNodes m = some s' ∧ Pruned keep s s' k) →
      ∃ sts nf', A.remapLoop m pre.length rest nf = some (sts, nf') ∧
        sts.length = rest.length ∧ nf' = nf + (sts.filter (·.isFinal)).length ∧
        ∀ k (hk : k < rest.length), ∃ s s', A.states[rest[k]]? = some s ∧
          sts[k]? = some s' ∧ Pruned keep s s' (pre.length + k) := by
  intro rest
  induction rest with
  | nil =>
    intro pre nf _ _
    exact ⟨[], nf, rfl, rfl, by simp, fun k hk => by cases hk⟩
  | cons o rest ih =>
    intro pre nf hkeep hall
    have hk0 : pre.length < keep.length := by rw [hkeep]; simp
    obtain ⟨s, s', hs, hs', hp⟩ := hall pre.length hk0
    have ho : keep[pre.length] = o := by
      simp [hkeep]
    rw [ho] at hs
    obtain ⟨sts, nf', hl, hlen, hnf, hspec⟩ := ih (pre ++ [o])
      (if s.isFinal then nf + 1 else nf) (by simp [hkeep]) hall
    refine ⟨s' :: sts, nf', ?_, by simp [hlen], ?_, ?_⟩
    · simp only [Automaton.remapLoop, hs, hs']
      have : (pre ++ [o]).length = pre.length + 1 := by simp
      rw [this] at hl
      simp [hp.id, hl]
    · rw [hnf]
      simp only [List.filter_cons, hp.fin]
      cases s.isFinal <;> simp <;> omega
    · intro k hk
      cases k with
      | zero => exact ⟨s, s', by simpa using hs, rfl, by simpa using hp⟩
      | succ k =>
        obtain ⟨t, t', h1, h2, h3⟩ := hspec k (by simpa using hk)
        refine ⟨t, t', by simpa using h1, by simpa using h2, ?_⟩
        have : (pre ++ [o]).length + k = pre.length + (k + 1) := by simp; omega
        rw [this] at h3
        exact h3

/-- what `remove_unreachable_states` computes on a well-formed automaton -/
theorem removeUnreachable_spec {A : Automaton} (h : AutWF A) :
    ∃ keep A', A.removeUnreachableStates = some A' ∧ keep.Pairwise (· < ·) ∧
      (∀ x, x ∈ keep ↔ Reachable A x) ∧
      A'.states.length = keep.length ∧ A'.numStates = keep.length ∧
      A'.numFinalStates = (A'.states.filter (·.isFinal)).length ∧
      keep[A'.initialState]? = some A.initialState ∧
      ∀ k (hk : k < keep.length), ∃ s s', A.states[keep[k]]? = some s ∧
        A'.states[k]? = some s' ∧ Pruned keep s s' k := by
  obtain ⟨r, hr, hrn, hrs⟩ := reachableList_spec h
  obtain ⟨hlt, hnd, hmem⟩ := sortNat_strict hrn
  have hmem' : ∀ x, x ∈ Automaton.sortNat r ↔ Reachable A x := fun x => (hmem x).trans (hrs x)
  have hb : ∀ x ∈ Automaton.sortNat r, x < A.numStates := by
    intro x hx
    rw [h.num]
    exact ((hmem' x).1 hx).lt h
  obtain ⟨m, hm, hold, _, hnew⟩ := fromArray_spec hnd hb
  have hall : ∀ k (hk : k < (Automaton.sortNat r).length), ∃ s s',
      A.states[(Automaton.sortNat r)[k]]? = some s ∧ s.remapNodes m = some s' ∧
        Pruned (Automaton.sortNat r) s s' k := by
    intro k hk
    have hreach := (hmem' _).1 (List.getElem_mem hk)
    have hl := hreach.lt h
    have hs : A.states[(Automaton.sortNat r)[k]]? = some A.states[(Automaton.sortNat r)[k]] := by
      simp [hl]
    obtain ⟨s', h1, h2⟩ := remapNodes_spec hold hnew hk (h.ids _ hl) (by
      intro j hj
      apply (hmem' j).2
      refine .step hreach hs ?_
      rw [(h.state_wf hs).edgeTargets_eq]
      rcases hj with hj | hj
      · exact List.mem_append_left _ hj
      · exact List.mem_append_right _ (by simp [hj]))
    exact ⟨_, s', hs, h1, h2⟩
  obtain ⟨sts, nf', hl, hlen, hnf, hspec⟩ :=
    remapLoop_spec (A := A) (m := m) (Automaton.sortNat r) [] 0 (by simp) hall
  -- the initial state is kept
  have hinit : A.initialState ∈ Automaton.sortNat r := (hmem' _).2 .init
  obtain ⟨k0, hk0, hk0e⟩ := List.getElem_of_mem hinit
  have hni : m.newId[A.initialState]? = some k0 := by rw [← hk0e]; exact hnew k0 hk0
  refine ⟨Automaton.sortNat r,
    { numStates := m.numNewStates, numFinalStates := nf', initialState := k0, states := sts },
    ?_, hlt, hmem', by simpa using hlen, ?_, ?_, ?_, ?_⟩
  · simp only [Automaton.removeUnreachableStates, hr, hm, Automaton.remapNodes, hni, hold]
    simp only [List.length_nil] at hl
    rw [hl]
  · simp [StateMapping.numNewStates, hold]
  · simpa using hnf
  · simp [hk0, hk0e]
  · intro k hk
    obtain ⟨s, s', h1, h2, h3⟩ := hspec k hk
    exact ⟨s, s', h1, h2, by simpa using h3⟩

/-! ### consequences: well-formedness, `next`, language -/

/-- the data `removeUnreachable_spec` provides -/
structure PruneOf (A A' : Automaton) (keep : List Nat) : Prop where
  sorted : keep.Pairwise (· < ·)
  mem : ∀ x, x ∈ keep ↔ Reachable A x
  len : A'.states.length = keep.length
  num : A'.numStates = keep.length
  numFinal : A'.numFinalStates = (A'.states.filter (·.isFinal)).length
  init : keep[A'.initialState]? = some A.initialState
  states : ∀ k (hk : k < keep.length), ∃ s s', A.states[keep[k]]? = some s ∧
    A'.states[k]? = some s' ∧ Pruned keep s s' k

/-- `s'` is the image of `s` -/
def PruneRel (A A' : Automaton) (keep : List Nat) (s s' : State) : Prop :=
  ∃ k, keep[k]? = some s.id ∧ A.states[s.id]? = some s ∧ A'.states[k]? = some s' ∧
    Pruned keep s s' k

theorem PruneOf.rel_of_index {A A' : Automaton} {keep : List Nat} (h : AutWF A)
    (hp : PruneOf A A' keep) {k j : Nat} (hk : keep[k]? = some j) :
    ∃ s s', A.states[j]? = some s ∧ A'.states[k]? = some s' ∧ PruneRel A A' keep s s' := by
  obtain ⟨hkl, rfl⟩ := List.getElem?_eq_some_iff.1 hk
  obtain ⟨s, s', h1, h2, h3⟩ := hp.states k hkl
  have hid := h.state_id h1
  exact ⟨s, s', h1, h2, k, by rw [hid]; exact hk, by rw [hid]; exact h1, h2, h3⟩

theorem PruneOf.wf {A A' : Automaton} {keep : List Nat} (h : AutWF A) (hp : PruneOf A A' keep) :
    AutWF A' := by
  refine ⟨by rw [hp.num, hp.len], ?_, ?_, ?_, hp.numFinal⟩
  · intro i hi
    obtain ⟨s, s', _, h2, h3⟩ := hp.states i (by rw [← hp.len]; exact hi)
    rw [List.getElem?_eq_getElem hi] at h2
    cases h2
    exact h3.id
  · rw [hp.len]
    exact (List.getElem?_eq_some_iff.1 hp.init).1
  · intro s' hs'
    obtain ⟨k, hk, rfl⟩ := List.getElem_of_mem hs'
    obtain ⟨s, s'', h1, h2, h3⟩ := hp.states k (by rw [← hp.len]; exact hk)
    rw [List.getElem?_eq_getElem hk] at h2
    cases h2
    have hw := h.state_wf h1
    refine ⟨by rw [h3.classes]; exact hw.classes, by rw [h3.succLen, h3.classes]; exact hw.succLen,
      ?_, ?_, ?_⟩
    · intro j' hj'
      obtain ⟨i, hi, rfl⟩ := List.getElem_of_mem hj'
      have hi2 : i < s.successor.length := by rw [← h3.succLen]; exact hi
      obtain ⟨k', hk1, hk2⟩ := h3.succ i _ (List.getElem?_eq_getElem hi2)
      rw [List.getElem?_eq_getElem hi] at hk2
      cases hk2
      rw [hp.len]
      exact (List.getElem?_eq_some_iff.1 hk1).1
    · intro d' hd'
      cases hd : s.defaultSuccessor with
      | none => rw [h3.defNone hd] at hd'; cases hd'
      | some d =>
        obtain ⟨k', hk1, hk2⟩ := h3.defSome d hd
        rw [hk2] at hd'
        cases hd'
        rw [hp.len]
        exact (List.getElem?_eq_some_iff.1 hk1).1
    · rw [h3.classes, ← hw.defValid]
      cases hd : s.defaultSuccessor with
      | none => rw [h3.defNone hd]
      | some d =>
        obtain ⟨k', _, hk2⟩ := h3.defSome d hd
        rw [hk2]; rfl

/-- `next` commutes with the renumbering -/
theorem PruneOf.next {A A' : Automaton} {keep : List Nat} (h : AutWF A) (hp : PruneOf A A' keep)
    {s s' : State} (hr : PruneRel A A' keep s s') (c : Nat) :
    (A.next s c = none ∧ A'.next s' c = none) ∨
    ∃ t t', A.next s c = some t ∧ A'.next s' c = some t' ∧ PruneRel A A' keep t t' := by
  obtain ⟨k, hk, hs, hs', hpr⟩ := hr
  have hw := h.state_wf hs
  unfold Automaton.next
  rw [Automaton.classNext_eq, Automaton.classNext_eq, hpr.classes]
  have hv : s'.validClassId (s.classes.classOfChar c) = s.validClassId (s.classes.classOfChar c) := by
    simp [State.validClassId, hpr.classes]
  rw [hv]
  by_cases hvalid : s.validClassId (s.classes.classOfChar c) = true
  · right
    simp only [hvalid, if_true]
    obtain ⟨j, hj, hjn⟩ := hw.rawClassNext_valid hvalid
    -- `j` is reachable, hence kept
    have hreach : Reachable A s.id := (hp.mem _).1 (List.mem_of_getElem? hk)
    have hjr : Reachable A j := by
      refine .step hreach hs ?_
      rw [hw.edgeTargets_eq]
      cases hcid : s.classes.classOfChar c with
      | interval i =>
        rw [hcid] at hj
        exact List.mem_append_left _ (List.mem_of_getElem? hj)
      | complement =>
        rw [hcid] at hj
        simp only [State.rawClassNext] at hj
        exact List.mem_append_right _ (by simp [hj])
    obtain ⟨k', hk', rfl⟩ := List.getElem_of_mem ((hp.mem j).2 hjr)
    have hk'' : keep[k']? = some keep[k'] := by simp [hk']
    have hraw' : s'.rawClassNext (s.classes.classOfChar c) = some k' := by
      cases hcid : s.classes.classOfChar c with
      | interval i =>
        rw [hcid] at hj
        simp only [State.rawClassNext] at hj ⊢
        obtain ⟨k2, h1, h2⟩ := hpr.succ i _ hj
        rw [h2]
        have := (List.getElem?_eq_some_iff.1 h1)
        obtain ⟨hk2, he⟩ := this
        have : k2 = k' := by
          rcases Nat.lt_trichotomy k2 k' with hlt | heq | hgt
          · have := List.pairwise_iff_getElem.1 hp.sorted k2 k' hk2 hk' hlt; omega
          · exact heq
          · have := List.pairwise_iff_getElem.1 hp.sorted k' k2 hk' hk2 hgt; omega
        rw [this]
      | complement =>
        rw [hcid] at hj
        simp only [State.rawClassNext] at hj ⊢
        obtain ⟨k2, h1, h2⟩ := hpr.defSome _ hj
        rw [h2]
        obtain ⟨hk2, he⟩ := List.getElem?_eq_some_iff.1 h1
        have : k2 = k' := by
          rcases Nat.lt_trichotomy k2 k' with hlt | heq | hgt
          · have := List.pairwise_iff_getElem.1 hp.sorted k2 k' hk2 hk' hlt; omega
          · exact heq
          · have := List.pairwise_iff_getElem.1 hp.sorted k' k2 hk' hk2 hgt; omega
        rw [this]
    obtain ⟨t, t', ht, ht', hrel⟩ := hp.rel_of_index h hk''
    refine ⟨t, t', by simp [hj, ht], by simp [hraw', ht'], hrel⟩
  · left
    simp [hvalid]

theorem PruneOf.strNext {A A' : Automaton} {keep : List Nat} (h : AutWF A)
    (hp : PruneOf A A' keep) (w : List Nat) :
    ∀ {s s' : State}, PruneRel A A' keep s s' →
      (A.strNext s w = none ∧ A'.strNext s' w = none) ∨
      ∃ t t', A.strNext s w = some t ∧ A'.strNext s' w = some t' ∧ PruneRel A A' keep t t' := by
  induction w with
  | nil => intro s s' hr; exact .inr ⟨s, s', rfl, rfl, hr⟩
  | cons c w ih =>
    intro s s' hr
    rcases hp.next h hr c with ⟨h1, h2⟩ | ⟨t, t', h1, h2, hr'⟩
    · left; simp [Automaton.strNext, h1, h2]
    · simp only [Automaton.strNext, h1, h2]
      exact ih hr'

theorem PruneOf.accepts {A A' : Automaton} {keep : List Nat} (h : AutWF A)
    (hp : PruneOf A A' keep) (w : List Nat) : A'.accepts w = A.accepts w := by
  obtain ⟨s0, s0', h1, h2, hr⟩ := hp.rel_of_index h hp.init
  unfold Automaton.accepts Automaton.initial
  rw [h1, h2]
  rcases hp.strNext h w hr with ⟨a, b⟩ | ⟨t, t', a, b, hr'⟩
  · simp [a, b]
  · obtain ⟨_, _, _, _, hpr⟩ := hr'
    simp [a, b, hpr.fin]

theorem removeUnreachable_pruneOf {A : Automaton} (h : AutWF A) :
    ∃ keep A', A.removeUnreachableStates = some A' ∧ PruneOf A A' keep := by
  obtain ⟨keep, A', h0, h1, h2, h3, h4, h5, h6, h7⟩ := removeUnreachable_spec h
  exact ⟨keep, A', h0, ⟨h1, h2, h3, h4, h5, h6, h7⟩⟩

end Smt
