/-
  Helper lemmas for Props/C07Refine.lean, part 2: every id-level smart constructor of the stateful
  manager model (Model/Manager.lean) REFINES its tree-level counterpart (Model/Re.lean,
  Model/ReCons.lean) and is HASH-CONSED.

  `Good op m e` packages, for a constructor call `op` issued in state `m`:
    * the table invariant is kept, the table is only appended to, the cache is untouched,
    * the returned id holds the tree `e` (the value of the pure constructor),
    * in every later state the same call returns the same id and leaves the state unchanged.
-/
import SmtModel.Proofs.ManagerInv

namespace Smt
namespace MgrCons
open Smt RE Node MgrInv

/-! ### the refinement / hash-consing package -/

/-- postcondition of a call that went from `m` to `m'` and returned `r`, holding the tree `e` -/
structure Post (m m' : Mgr) (r : Nat) (e : RE) : Prop where
  ok : TableOK m'.tbl
  ext : m.tbl <+: m'.tbl
  cache : m'.cache = m.cache
  rep : treeOf m'.tbl r = some e

/-- `m2` is a later state of the manager `m` (anything may have been allocated in between) -/
def Later (m m2 : Mgr) : Prop := m.tbl <+: m2.tbl ∧ TableOK m2.tbl

theorem Later.refl {m : Mgr} (h : TableOK m.tbl) : Later m m := ⟨List.prefix_refl _, h⟩

theorem Later.trans {m m' m2 : Mgr} (h : m.tbl <+: m'.tbl) (h2 : Later m' m2) : Later m m2 :=
  ⟨List.IsPrefix.trans h h2.1, h2.2⟩

theorem Later.rep {m m2 : Mgr} (h : Later m m2) {i : Nat} {e : RE} (hi : treeOf m.tbl i = some e) :
    treeOf m2.tbl i = some e := treeOf_prefix h.1 hi

theorem Later.get {m m2 : Mgr} (h : Later m m2) {i : Nat} {n : Node} (hi : m.tbl[i]? = some n) :
    m2.tbl[i]? = some n := prefix_get h.1 hi

theorem rep_nullable {m : Mgr} {i : Nat} {e : RE} (hi : treeOf m.tbl i = some e) :
    m.nullable i = e.nullable := by
  simp only [Mgr.nullable, Mgr.toTree, hi]

theorem rep_subLanguage {m : Mgr} {i j : Nat} {a b : RE} (hi : treeOf m.tbl i = some a)
    (hj : treeOf m.tbl j = some b) : m.subLanguage i j = RE.subLanguage a b := by
  simp only [Mgr.subLanguage, Mgr.toTree, hi, hj]

theorem rep_node {m : Mgr} (h : TableOK m.tbl) {i : Nat} {e : RE} (hi : treeOf m.tbl i = some e) :
    ∃ n, m.tbl[i]? = some n ∧ n.toRE (treeOf m.tbl) = some e := treeOf_node h.children hi

/-- a constructor call `op` issued in state `m` builds the tree `e` and is hash-consed -/
structure Good (op : Mgr → Mgr × Nat) (m : Mgr) (e : RE) : Prop where
  post : Post m (op m).1 (op m).2 e
  stable : ∀ m2, Later (op m).1 m2 → op m2 = (m2, (op m).2)

/-- return an existing term -/
theorem good_ret {m : Mgr} (h : TableOK m.tbl) {r : Nat} {e : RE} (hr : treeOf m.tbl r = some e) :
    Good (fun m => (m, r)) m e :=
  ⟨⟨h, List.prefix_refl _, rfl, hr⟩, fun _ _ => rfl⟩

/-- allocate (or find) a node whose children exist -/
theorem good_make {m : Mgr} (h : TableOK m.tbl) {n : Node} (hnc : n.isCompl = false) {e : RE}
    (hn : n.toRE (treeOf m.tbl) = some e) : Good (fun m => m.make n) m e := by
  have hv : ∀ c ∈ n.children, c < m.tbl.length := by
    intro c hc
    obtain ⟨tc, htc⟩ := toRE_children hn c hc
    exact treeOf_lt htc
  have hp := make_post h hnc hv
  refine ⟨⟨hp.ok, hp.ext, hp.cache, ?_⟩, fun m2 hl => hp.stable m2 hl.1 hl.2⟩
  rw [treeOf_unfold hp.ok.children hp.node]
  exact toRE_mono (fun c _ tc htc => treeOf_prefix hp.ext htc) hn

/-- two calls that agree in every later state -/
theorem good_congr {op op' : Mgr → Mgr × Nat} {m : Mgr} {e : RE} (h : TableOK m.tbl)
    (heq : ∀ m2, Later m m2 → op m2 = op' m2) (hg : Good op' m e) : Good op m e := by
  have h0 := heq m (Later.refl h)
  refine ⟨by rw [h0]; exact hg.post, ?_⟩
  intro m2 hl
  rw [h0] at hl ⊢
  rw [heq m2 (Later.trans hg.post.ext hl)]
  exact hg.stable m2 hl

/-- sequencing: `let r1 := op1 m; op2 r1.1 r1.2` -/
theorem good_bind {op1 : Mgr → Mgr × Nat} {op2 : Mgr → Nat → Mgr × Nat} {m : Mgr} {e1 e2 : RE}
    (h1 : Good op1 m e1) (h2 : Good (fun m' => op2 m' (op1 m).2) (op1 m).1 e2) :
    Good (fun m' => op2 (op1 m').1 (op1 m').2) m e2 := by
  refine ⟨⟨h2.post.ok, List.IsPrefix.trans h1.post.ext h2.post.ext,
    h2.post.cache.trans h1.post.cache, h2.post.rep⟩, ?_⟩
  intro m2 hl
  have hl1 : Later (op1 m).1 m2 := Later.trans h2.post.ext hl
  show op2 (op1 m2).1 (op1 m2).2 = _
  rw [h1.stable m2 hl1]
  exact h2.stable m2 hl

/-- option-valued calls (`none` = "this arm does not apply"): the answer is the same in every
    later state -/
def GoodO (op : Mgr → Option (Mgr × Nat)) (m : Mgr) : Option RE → Prop
  | none => ∀ m2, Later m m2 → op m2 = none
  | some e => ∃ op' : Mgr → Mgr × Nat, (∀ m2, Later m m2 → op m2 = some (op' m2)) ∧ Good op' m e

theorem goodO_orElse {op1 op2 : Mgr → Option (Mgr × Nat)} {m : Mgr} {eo1 eo2 : Option RE}
    (h1 : GoodO op1 m eo1) (h2 : GoodO op2 m eo2) :
    GoodO (fun m => (op1 m).or (op2 m)) m (eo1.or eo2) := by
  cases eo1 with
  | some e =>
    obtain ⟨op', heq, hg⟩ := h1
    exact ⟨op', fun m2 hl => by simp [heq m2 hl], hg⟩
  | none =>
    cases eo2 with
    | none =>
      intro m2 hl
      simp [h1 m2 hl, h2 m2 hl]
    | some e =>
      obtain ⟨op', heq, hg⟩ := h2
      exact ⟨op', fun m2 hl => by simp [h1 m2 hl, heq m2 hl], hg⟩

/-! ### `concat` -/

/-- the four guarded arms of `concat`, tree level (inline in `RE.concatPre`) -/
def armR (t1 t2 : RE) : Option RE :=
  match t2 with
  | .loop y rng => if t1 = y then some (RE.loop t1 (rng.addPointN 1)) else none
  | _ => none
def armL (t1 t2 : RE) : Option RE :=
  match t1 with
  | .loop x rng => if t2 = x then some (RE.loop t2 (rng.addPointN 1)) else none
  | _ => none
def armB (t1 t2 : RE) : Option RE :=
  match t1, t2 with
  | .loop x xr, .loop y yr => if x = y then some (RE.loop x (xr.addN yr)) else none
  | _, _ => none
def armS (t1 t2 : RE) : Option RE :=
  if t1 = t2 then some (.loop t1 (LoopRange.point 2)) else none

def chain (t1 t2 : RE) : Option RE :=
  match armR t1 t2 with
  | some r => some r
  | none =>
  match armL t1 t2 with
  | some r => some r
  | none =>
  match armB t1 t2 with
  | some r => some r
  | none => armS t1 t2

theorem concatPre_eq (t1 t2 : RE) : concatPre t1 t2 =
    if t1 = .empty then some .empty else if t2 = .empty then some .empty
    else if t1 = .epsilon then some t2 else if t2 = .epsilon then some t1
    else chain t1 t2 := by
  cases t1 <;> cases t2 <;> rfl

theorem mkConcat_of_pre {t1 t2 r : RE} (h : concatPre t1 t2 = some r) : mkConcat t1 t2 = r := by
  unfold mkConcat
  split <;> simp [h]

theorem mkConcat_concat {x y t2 : RE} (h : concatPre (.concat x y) t2 = none) :
    mkConcat (.concat x y) t2 = mkConcat x (mkConcat y t2) := by
  rw [mkConcat]; simp [h]

theorem mkConcat_base {t1 t2 : RE} (h : concatPre t1 t2 = none) (hn : ∀ x y, t1 ≠ .concat x y) :
    mkConcat t1 t2 = concatBase t1 t2 := by
  unfold mkConcat
  split
  · exact absurd rfl (hn _ _)
  · simp [h]

theorem concatPreM_eq {m : Mgr} {e1 e2 : Nat} {n1 n2 : Node} (h1 : m.tbl[e1]? = some n1)
    (h2 : m.tbl[e2]? = some n2) : m.concatPreM e1 e2 =
      if n1 = .empty then some (m, Mgr.emptyId) else if n2 = .empty then some (m, Mgr.emptyId)
      else if n1 = .epsilon then some (m, e2) else if n2 = .epsilon then some (m, e1)
      else m.concatChainM e1 e2 := by
  unfold Mgr.concatPreM
  simp only [Mgr.expr, h1, h2]
  cases n1 <;> cases n2 <;> simp

theorem ofLoop_toRE {t : List Node} {x : Nat} {tx : RE} (rg : LoopRange)
    (hx : treeOf t x = some tx) : (Node.ofLoop x rg).toRE (treeOf t) = some (.loop tx rg) := by
  simp [Node.ofLoop, Node.toRE, hx]

theorem loop_node_iff {f : Nat → Option RE} {n : Node} {t : RE} (h : n.toRE f = some t) :
    (∃ y lo hi, n = .loop y lo hi) ↔ ∃ a r, t = .loop a r := by
  constructor
  · rintro ⟨y, lo, hi, rfl⟩
    simp only [Node.toRE, Option.map_eq_some_iff] at h
    obtain ⟨a, _, rfl⟩ := h
    exact ⟨_, _, rfl⟩
  · rintro ⟨a, r, rfl⟩
    rw [toRE_eq_loop] at h
    obtain ⟨e, rfl, _⟩ := h
    exact ⟨_, _, _, rfl⟩

theorem concat_node_iff {f : Nat → Option RE} {n : Node} {t : RE} (h : n.toRE f = some t) :
    (∃ x y, n = .concat x y) ↔ ∃ a b, t = .concat a b := by
  constructor
  · rintro ⟨x, y, rfl⟩
    simp only [Node.toRE, Option.bind_eq_some_iff, Option.map_eq_some_iff] at h
    obtain ⟨a, _, b, _, rfl⟩ := h
    exact ⟨_, _, rfl⟩
  · rintro ⟨a, b, rfl⟩
    rw [toRE_eq_concat] at h
    obtain ⟨l, r, rfl, _⟩ := h
    exact ⟨_, _, rfl⟩

theorem armR_nonloop {t1 t2 : RE} (h : ¬ ∃ a r, t2 = .loop a r) : armR t1 t2 = none := by
  cases t2 <;> first | rfl | exact absurd ⟨_, _, rfl⟩ h
theorem armL_nonloop {t1 t2 : RE} (h : ¬ ∃ a r, t1 = .loop a r) : armL t1 t2 = none := by
  cases t1 <;> first | rfl | exact absurd ⟨_, _, rfl⟩ h
theorem armB_nonloop1 {t1 t2 : RE} (h : ¬ ∃ a r, t1 = .loop a r) : armB t1 t2 = none := by
  cases t1 <;> first | rfl | exact absurd ⟨_, _, rfl⟩ h
theorem armB_nonloop2 {t1 t2 : RE} (h : ¬ ∃ a r, t2 = .loop a r) : armB t1 t2 = none := by
  cases t1 <;> cases t2 <;> first | rfl | exact absurd ⟨_, _, rfl⟩ h

theorem concatArmR_nonloop {m : Mgr} {e1 e2 : Nat} {n2 : Node} (hn : m.tbl[e2]? = some n2)
    (h : ¬ ∃ y lo hi, n2 = .loop y lo hi) : m.concatArmR e1 e2 = none := by
  simp only [Mgr.concatArmR, Mgr.expr, hn]
  cases n2 <;> first | rfl | exact absurd ⟨_, _, _, rfl⟩ h
theorem concatArmL_nonloop {m : Mgr} {e1 e2 : Nat} {n1 : Node} (hn : m.tbl[e1]? = some n1)
    (h : ¬ ∃ y lo hi, n1 = .loop y lo hi) : m.concatArmL e1 e2 = none := by
  simp only [Mgr.concatArmL, Mgr.expr, hn]
  cases n1 <;> first | rfl | exact absurd ⟨_, _, _, rfl⟩ h
theorem concatArmB_nonloop1 {m : Mgr} {e1 e2 : Nat} {n1 : Node} (hn : m.tbl[e1]? = some n1)
    (h : ¬ ∃ y lo hi, n1 = .loop y lo hi) : m.concatArmB e1 e2 = none := by
  simp only [Mgr.concatArmB, Mgr.expr, hn]
  cases n1 <;> first | rfl | exact absurd ⟨_, _, _, rfl⟩ h
theorem concatArmB_nonloop2 {m : Mgr} {e1 e2 : Nat} {n1 n2 : Node} (hn1 : m.tbl[e1]? = some n1)
    (hn : m.tbl[e2]? = some n2)
    (h : ¬ ∃ y lo hi, n2 = .loop y lo hi) : m.concatArmB e1 e2 = none := by
  simp only [Mgr.concatArmB, Mgr.expr, hn, hn1]
  cases n1 <;> cases n2 <;> first | rfl | exact absurd ⟨_, _, _, rfl⟩ h

/-- equal ids ⇔ equal trees (`r == s` in the Rust is id equality) -/
theorem id_eq_iff {m : Mgr} (h : TableOK m.tbl) {i j : Nat} {a b : RE}
    (hi : treeOf m.tbl i = some a) (hj : treeOf m.tbl j = some b) : i = j ↔ a = b := by
  constructor
  · rintro rfl; rw [hi] at hj; exact Option.some.inj hj
  · rintro rfl; exact tree_inj h hi hj

theorem goodO_armR {m : Mgr} (h : TableOK m.tbl) {e1 e2 : Nat} {t1 t2 : RE}
    (r1 : treeOf m.tbl e1 = some t1) (r2 : treeOf m.tbl e2 = some t2) :
    GoodO (fun m => m.concatArmR e1 e2) m (armR t1 t2) := by
  obtain ⟨n2, hn2, ht2⟩ := rep_node h r2
  by_cases hl : ∃ a r, t2 = .loop a r
  · obtain ⟨ty, rg, rfl⟩ := hl
    rw [toRE_eq_loop] at ht2
    obtain ⟨y, rfl, hy⟩ := ht2
    have hiff := id_eq_iff h r1 hy
    by_cases heq : e1 = y
    · have : armR t1 (.loop ty rg) = some (.loop t1 (rg.addPointN 1)) := by
        simp [armR, hiff.1 heq]
      rw [this]
      refine ⟨fun m => m.make (Node.ofLoop e1 (rg.addPointN 1)), ?_, ?_⟩
      · intro m2 hl
        simp only [Mgr.concatArmR, Mgr.expr, hl.get hn2, heq, if_true]
      · exact good_make h rfl (ofLoop_toRE _ r1)
    · have hne : ¬ t1 = ty := fun hh => heq (hiff.2 hh)
      have : armR t1 (.loop ty rg) = none := by simp [armR, hne]
      rw [this]
      intro m2 hl
      simp only [Mgr.concatArmR, Mgr.expr, hl.get hn2, heq, if_false]
  · rw [armR_nonloop hl]
    intro m2 hl'
    exact concatArmR_nonloop (hl'.get hn2) (fun hh => hl ((loop_node_iff ht2).1 hh))

theorem goodO_armL {m : Mgr} (h : TableOK m.tbl) {e1 e2 : Nat} {t1 t2 : RE}
    (r1 : treeOf m.tbl e1 = some t1) (r2 : treeOf m.tbl e2 = some t2) :
    GoodO (fun m => m.concatArmL e1 e2) m (armL t1 t2) := by
  obtain ⟨n1, hn1, ht1⟩ := rep_node h r1
  by_cases hl : ∃ a r, t1 = .loop a r
  · obtain ⟨tx, rg, rfl⟩ := hl
    rw [toRE_eq_loop] at ht1
    obtain ⟨x, rfl, hx⟩ := ht1
    have hiff := id_eq_iff h r2 hx
    by_cases heq : e2 = x
    · have : armL (.loop tx rg) t2 = some (.loop t2 (rg.addPointN 1)) := by
        simp [armL, hiff.1 heq]
      rw [this]
      refine ⟨fun m => m.make (Node.ofLoop e2 (rg.addPointN 1)), ?_, ?_⟩
      · intro m2 hl
        simp only [Mgr.concatArmL, Mgr.expr, hl.get hn1, heq, if_true]
      · exact good_make h rfl (ofLoop_toRE _ r2)
    · have hne : ¬ t2 = tx := fun hh => heq (hiff.2 hh)
      have : armL (.loop tx rg) t2 = none := by simp [armL, hne]
      rw [this]
      intro m2 hl
      simp only [Mgr.concatArmL, Mgr.expr, hl.get hn1, heq, if_false]
  · rw [armL_nonloop hl]
    intro m2 hl'
    exact concatArmL_nonloop (hl'.get hn1) (fun hh => hl ((loop_node_iff ht1).1 hh))

theorem goodO_armB {m : Mgr} (h : TableOK m.tbl) {e1 e2 : Nat} {t1 t2 : RE}
    (r1 : treeOf m.tbl e1 = some t1) (r2 : treeOf m.tbl e2 = some t2) :
    GoodO (fun m => m.concatArmB e1 e2) m (armB t1 t2) := by
  obtain ⟨n1, hn1, ht1⟩ := rep_node h r1
  obtain ⟨n2, hn2, ht2⟩ := rep_node h r2
  by_cases hl1 : ∃ a r, t1 = .loop a r
  · by_cases hl2 : ∃ a r, t2 = .loop a r
    · obtain ⟨tx, xr, rfl⟩ := hl1
      obtain ⟨ty, yr, rfl⟩ := hl2
      rw [toRE_eq_loop] at ht1 ht2
      obtain ⟨x, rfl, hx⟩ := ht1
      obtain ⟨y, rfl, hy⟩ := ht2
      have hiff := id_eq_iff h hx hy
      by_cases heq : x = y
      · have : armB (.loop tx xr) (.loop ty yr) = some (.loop tx (xr.addN yr)) := by
          simp [armB, hiff.1 heq]
        rw [this]
        refine ⟨fun m => m.make (Node.ofLoop x (xr.addN yr)), ?_, ?_⟩
        · intro m2 hl
          simp only [Mgr.concatArmB, Mgr.expr, hl.get hn1, hl.get hn2, heq, if_true]
        · exact good_make h rfl (ofLoop_toRE _ hx)
      · have hne : ¬ tx = ty := fun hh => heq (hiff.2 hh)
        have : armB (.loop tx xr) (.loop ty yr) = none := by simp [armB, hne]
        rw [this]
        intro m2 hl
        simp only [Mgr.concatArmB, Mgr.expr, hl.get hn1, hl.get hn2, heq, if_false]
    · rw [armB_nonloop2 hl2]
      intro m2 hl'
      exact concatArmB_nonloop2 (hl'.get hn1) (hl'.get hn2)
        (fun hh => hl2 ((loop_node_iff ht2).1 hh))
  · rw [armB_nonloop1 hl1]
    intro m2 hl'
    exact concatArmB_nonloop1 (hl'.get hn1) (fun hh => hl1 ((loop_node_iff ht1).1 hh))

theorem goodO_armS {m : Mgr} (h : TableOK m.tbl) {e1 e2 : Nat} {t1 t2 : RE}
    (r1 : treeOf m.tbl e1 = some t1) (r2 : treeOf m.tbl e2 = some t2) :
    GoodO (fun m => m.concatArmS e1 e2) m (armS t1 t2) := by
  have hiff := id_eq_iff h r1 r2
  by_cases heq : e1 = e2
  · have : armS t1 t2 = some (.loop t1 (LoopRange.point 2)) := by simp [armS, hiff.1 heq]
    rw [this]
    refine ⟨fun m => m.make (Node.ofLoop e1 (LoopRange.point 2)), ?_, ?_⟩
    · intro m2 _
      simp only [Mgr.concatArmS, heq, if_true]
    · exact good_make h rfl (ofLoop_toRE _ r1)
  · have hne : ¬ t1 = t2 := fun hh => heq (hiff.2 hh)
    have : armS t1 t2 = none := by simp [armS, hne]
    rw [this]
    intro m2 _
    simp only [Mgr.concatArmS, heq, if_false]

theorem chain_eq_or (t1 t2 : RE) :
    chain t1 t2 = (armR t1 t2).or ((armL t1 t2).or ((armB t1 t2).or (armS t1 t2))) := by
  unfold chain
  cases armR t1 t2 <;> cases armL t1 t2 <;> cases armB t1 t2 <;> rfl

theorem concatChainM_eq_or (m : Mgr) (e1 e2 : Nat) : m.concatChainM e1 e2 =
    (m.concatArmR e1 e2).or ((m.concatArmL e1 e2).or ((m.concatArmB e1 e2).or (m.concatArmS e1 e2))) := by
  unfold Mgr.concatChainM
  cases m.concatArmR e1 e2 <;> cases m.concatArmL e1 e2 <;> cases m.concatArmB e1 e2 <;> rfl

theorem goodO_chain {m : Mgr} (h : TableOK m.tbl) {e1 e2 : Nat} {t1 t2 : RE}
    (r1 : treeOf m.tbl e1 = some t1) (r2 : treeOf m.tbl e2 = some t2) :
    GoodO (fun m => m.concatChainM e1 e2) m (chain t1 t2) := by
  rw [chain_eq_or]
  simp only [concatChainM_eq_or]
  exact goodO_orElse (goodO_armR h r1 r2) (goodO_orElse (goodO_armL h r1 r2)
    (goodO_orElse (goodO_armB h r1 r2) (goodO_armS h r1 r2)))

theorem goodO_some {op : Mgr → Option (Mgr × Nat)} {m : Mgr} {e : RE} (op' : Mgr → Mgr × Nat)
    (heq : ∀ m2, Later m m2 → op m2 = some (op' m2)) (hg : Good op' m e) : GoodO op m (some e) :=
  ⟨op', heq, hg⟩

theorem goodO_congr {op op' : Mgr → Option (Mgr × Nat)} {m : Mgr} {eo : Option RE}
    (heq : ∀ m2, Later m m2 → op m2 = op' m2) (hg : GoodO op' m eo) : GoodO op m eo := by
  cases eo with
  | none => intro m2 hl; rw [heq m2 hl]; exact hg m2 hl
  | some e =>
    obtain ⟨f, hf, hgf⟩ := hg
    exact ⟨f, fun m2 hl => by rw [heq m2 hl]; exact hf m2 hl, hgf⟩

/-- arms 1–8 of `concat` -/
theorem goodO_concatPre {m : Mgr} (h : TableOK m.tbl) {e1 e2 : Nat} {t1 t2 : RE}
    (r1 : treeOf m.tbl e1 = some t1) (r2 : treeOf m.tbl e2 = some t2) :
    GoodO (fun m => m.concatPreM e1 e2) m (concatPre t1 t2) := by
  obtain ⟨n1, hn1, ht1⟩ := rep_node h r1
  obtain ⟨n2, hn2, ht2⟩ := rep_node h r2
  have k1 : n1 = .empty ↔ t1 = .empty := by
    constructor
    · rintro rfl; simpa [Node.toRE] using ht1.symm
    · rintro rfl; exact toRE_eq_empty.1 ht1
  have k2 : n2 = .empty ↔ t2 = .empty := by
    constructor
    · rintro rfl; simpa [Node.toRE] using ht2.symm
    · rintro rfl; exact toRE_eq_empty.1 ht2
  have k3 : n1 = .epsilon ↔ t1 = .epsilon := by
    constructor
    · rintro rfl; simpa [Node.toRE] using ht1.symm
    · rintro rfl; exact toRE_eq_epsilon.1 ht1
  have k4 : n2 = .epsilon ↔ t2 = .epsilon := by
    constructor
    · rintro rfl; simpa [Node.toRE] using ht2.symm
    · rintro rfl; exact toRE_eq_epsilon.1 ht2
  rw [concatPre_eq]
  have hM : ∀ m2, Later m m2 → m2.concatPreM e1 e2 =
      if n1 = .empty then some (m2, Mgr.emptyId) else if n2 = .empty then some (m2, Mgr.emptyId)
      else if n1 = .epsilon then some (m2, e2) else if n2 = .epsilon then some (m2, e1)
      else m2.concatChainM e1 e2 := fun m2 hl => concatPreM_eq (hl.get hn1) (hl.get hn2)
  by_cases c1 : n1 = .empty
  · rw [if_pos (k1.1 c1)]
    exact goodO_some (fun m => (m, Mgr.emptyId)) (fun m2 hl => by rw [hM m2 hl, if_pos c1])
      (good_ret h (tree_emptyId h))
  rw [if_neg (fun hh => c1 (k1.2 hh))]
  by_cases c2 : n2 = .empty
  · rw [if_pos (k2.1 c2)]
    exact goodO_some (fun m => (m, Mgr.emptyId))
      (fun m2 hl => by rw [hM m2 hl, if_neg c1, if_pos c2]) (good_ret h (tree_emptyId h))
  rw [if_neg (fun hh => c2 (k2.2 hh))]
  by_cases c3 : n1 = .epsilon
  · rw [if_pos (k3.1 c3)]
    exact goodO_some (fun m => (m, e2))
      (fun m2 hl => by rw [hM m2 hl, if_neg c1, if_neg c2, if_pos c3]) (good_ret h r2)
  rw [if_neg (fun hh => c3 (k3.2 hh))]
  by_cases c4 : n2 = .epsilon
  · rw [if_pos (k4.1 c4)]
    exact goodO_some (fun m => (m, e1))
      (fun m2 hl => by rw [hM m2 hl, if_neg c1, if_neg c2, if_neg c3, if_pos c4]) (good_ret h r1)
  rw [if_neg (fun hh => c4 (k4.2 hh))]
  exact goodO_congr (fun m2 hl => by rw [hM m2 hl, if_neg c1, if_neg c2, if_neg c3, if_neg c4])
    (goodO_chain h r1 r2)

/-- arm 10 -/
theorem good_concatBase {m : Mgr} (h : TableOK m.tbl) {e1 e2 : Nat} {t1 t2 : RE}
    (r1 : treeOf m.tbl e1 = some t1) (r2 : treeOf m.tbl e2 = some t2) :
    Good (fun m => m.concatBaseM e1 e2) m (concatBase t1 t2) := by
  have hiff := id_eq_iff h r2 (tree_sigmaStar h)
  by_cases hc : t1.nullable = true ∧ t2 = sigmaStar
  · have : concatBase t1 t2 = t2 := by simp [concatBase, hc.1, hc.2]
    rw [this]
    refine good_congr h ?_ (good_ret h r2)
    intro m2 hl
    simp only [Mgr.concatBaseM, rep_nullable (hl.rep r1), hc.1, hiff.2 hc.2, Bool.true_and,
      decide_true, if_true]
  · have : concatBase t1 t2 = .concat t1 t2 := by
      unfold concatBase
      rw [if_neg]
      simpa using hc
    rw [this]
    refine good_congr h ?_ (good_make (n := .concat e1 e2) h rfl (by simp [Node.toRE, r1, r2]))
    intro m2 hl
    have : ¬ (t1.nullable = true ∧ e2 = Mgr.sigmaStarId) := fun hh => hc ⟨hh.1, hiff.1 hh.2⟩
    simp only [Mgr.concatBaseM, rep_nullable (hl.rep r1)]
    rw [if_neg]
    simpa using this

/-- **`concat` refines `RE.mkConcat` and is hash-consed** -/
theorem good_concatF : ∀ (fuel : Nat) {m : Mgr} (_ : TableOK m.tbl) {e1 e2 : Nat} {t1 t2 : RE},
    e1 < fuel → treeOf m.tbl e1 = some t1 → treeOf m.tbl e2 = some t2 →
    Good (fun m => Mgr.concatF fuel m e1 e2) m (mkConcat t1 t2) := by
  intro fuel
  induction fuel with
  | zero => intro m _ e1 e2 t1 t2 hlt; omega
  | succ fuel ih =>
    intro m h e1 e2 t1 t2 hlt r1 r2
    have hpre := goodO_concatPre h r1 r2
    cases hp : concatPre t1 t2 with
    | some tr =>
      rw [hp] at hpre
      obtain ⟨op', heq, hg⟩ := hpre
      rw [mkConcat_of_pre hp]
      exact good_congr h (fun m2 hl => by simp only [Mgr.concatF, heq m2 hl]) hg
    | none =>
      rw [hp] at hpre
      obtain ⟨n1, hn1, ht1⟩ := rep_node h r1
      by_cases hcc : ∃ a b, t1 = .concat a b
      · obtain ⟨tx, ty, rfl⟩ := hcc
        rw [toRE_eq_concat] at ht1
        obtain ⟨x, y, rfl, hx, hy⟩ := ht1
        have hlt' := h.children e1 _ hn1
        have hxlt : x < e1 := hlt' x (by simp [children])
        have hylt : y < e1 := hlt' y (by simp [children])
        rw [mkConcat_concat hp]
        refine good_congr (op' := fun m' => Mgr.concatF fuel (Mgr.concatF fuel m' y e2).1 x
          (Mgr.concatF fuel m' y e2).2) h ?_ ?_
        · intro m2 hl
          simp only [Mgr.concatF, hpre m2 hl, Mgr.expr, hl.get hn1]
        · have g1 := ih h (by omega : y < fuel) hy r2
          refine good_bind (op2 := fun m' r => Mgr.concatF fuel m' x r) g1 ?_
          exact ih g1.post.ok (by omega : x < fuel) (treeOf_prefix g1.post.ext hx) g1.post.rep
      · rw [mkConcat_base hp (fun a b hh => hcc ⟨a, b, hh⟩)]
        refine good_congr h ?_ (good_concatBase h r1 r2)
        intro m2 hl
        have hnc : ¬ ∃ x y, n1 = .concat x y := fun hh => hcc ((concat_node_iff ht1).1 hh)
        simp only [Mgr.concatF, hpre m2 hl, Mgr.expr, hl.get hn1]
        cases n1 <;> first | rfl | exact absurd ⟨_, _, rfl⟩ hnc

theorem good_concat {m : Mgr} (h : TableOK m.tbl) {e1 e2 : Nat} {t1 t2 : RE}
    (r1 : treeOf m.tbl e1 = some t1) (r2 : treeOf m.tbl e2 = some t2) :
    Good (fun m => m.concatM e1 e2) m (mkConcat t1 t2) :=
  good_concatF (e1 + 1) h (by omega) r1 r2

/-! ### `mk_loop`, `complement`, `char_set`, `char`, `range`, `smt_range`, `str`, `concat_list` -/

theorem mkLoop_other {t : RE} {rg : LoopRange} (hz : rg.isZero = false) (ho : rg.isOne = false)
    (h1 : t ≠ .empty) (h2 : t ≠ .epsilon) (h3 : ¬ ∃ a r, t = .loop a r) :
    mkLoop t rg = .loop t rg := by
  unfold mkLoop
  simp only [hz, ho, Bool.false_eq_true, if_false]
  cases t <;> first | rfl | exact absurd rfl h1 | exact absurd rfl h2 | exact absurd ⟨_, _, rfl⟩ h3

theorem mkLoopM_other {m : Mgr} {e : Nat} {n : Node} {rg : LoopRange} (hn : m.tbl[e]? = some n)
    (hz : rg.isZero = false) (ho : rg.isOne = false)
    (h1 : n ≠ .empty) (h2 : n ≠ .epsilon) (h3 : ¬ ∃ y lo hi, n = .loop y lo hi) :
    m.mkLoopM e rg = m.make (Node.ofLoop e rg) := by
  unfold Mgr.mkLoopM
  simp only [hz, ho, Bool.false_eq_true, if_false, Mgr.expr, hn]
  cases n <;> first | rfl | exact absurd rfl h1 | exact absurd rfl h2 | exact absurd ⟨_, _, _, rfl⟩ h3

/-- **`mk_loop` refines `RE.mkLoop` and is hash-consed** -/
theorem good_mkLoop {m : Mgr} (h : TableOK m.tbl) {e : Nat} {t : RE}
    (r : treeOf m.tbl e = some t) (rg : LoopRange) :
    Good (fun m => m.mkLoopM e rg) m (mkLoop t rg) := by
  by_cases hz : rg.isZero = true
  · have : mkLoop t rg = .epsilon := by simp [mkLoop, hz]
    rw [this]
    exact good_congr h (fun m2 _ => by simp [Mgr.mkLoopM, hz]) (good_ret h (tree_epsilonId h))
  have hz' : rg.isZero = false := by simpa using hz
  by_cases ho : rg.isOne = true
  · have : mkLoop t rg = t := by simp [mkLoop, hz', ho]
    rw [this]
    exact good_congr h (fun m2 _ => by simp [Mgr.mkLoopM, hz', ho]) (good_ret h r)
  have ho' : rg.isOne = false := by simpa using ho
  obtain ⟨n, hn, ht⟩ := rep_node h r
  by_cases c1 : t = .empty
  · subst c1
    have hn' := toRE_eq_empty.1 ht
    subst hn'
    by_cases hs : rg.start = 0
    · have : mkLoop .empty rg = .epsilon := by simp [mkLoop, hz', ho', hs]
      rw [this]
      exact good_congr h (fun m2 hl => by simp [Mgr.mkLoopM, hz', ho', Mgr.expr, hl.get hn, hs])
        (good_ret h (tree_epsilonId h))
    · have : mkLoop .empty rg = .empty := by simp [mkLoop, hz', ho', hs]
      rw [this]
      exact good_congr h (fun m2 hl => by simp [Mgr.mkLoopM, hz', ho', Mgr.expr, hl.get hn, hs])
        (good_ret h (tree_emptyId h))
  by_cases c2 : t = .epsilon
  · subst c2
    have hn' := toRE_eq_epsilon.1 ht
    subst hn'
    have : mkLoop .epsilon rg = .epsilon := by simp [mkLoop, hz', ho']
    rw [this]
    exact good_congr h (fun m2 hl => by simp [Mgr.mkLoopM, hz', ho', Mgr.expr, hl.get hn])
      (good_ret h (tree_epsilonId h))
  by_cases c3 : ∃ a r, t = .loop a r
  · obtain ⟨tx, xr, rfl⟩ := c3
    rw [toRE_eq_loop] at ht
    obtain ⟨x, rfl, hx⟩ := ht
    by_cases hex : xr.rightMulIsExactN rg = true
    · have : mkLoop (.loop tx xr) rg = .loop tx (xr.mulN rg) := by simp [mkLoop, hz', ho', hex]
      rw [this]
      refine good_congr h ?_ (good_make (n := Node.ofLoop x (xr.mulN rg)) h rfl (ofLoop_toRE _ hx))
      intro m2 hl
      simp [Mgr.mkLoopM, hz', ho', Mgr.expr, hl.get hn, hex]
    · have : mkLoop (.loop tx xr) rg = .loop (.loop tx xr) rg := by simp [mkLoop, hz', ho', hex]
      rw [this]
      refine good_congr h ?_ (good_make (n := Node.ofLoop e rg) h rfl (ofLoop_toRE _ r))
      intro m2 hl
      simp [Mgr.mkLoopM, hz', ho', Mgr.expr, hl.get hn, hex]
  · rw [mkLoop_other hz' ho' c1 c2 c3]
    refine good_congr h ?_ (good_make (n := Node.ofLoop e rg) h rfl (ofLoop_toRE _ r))
    intro m2 hl
    refine mkLoopM_other (hl.get hn) hz' ho' ?_ ?_ ?_
    · rintro rfl; exact c1 (by simpa [Node.toRE] using ht.symm)
    · rintro rfl; exact c2 (by simpa [Node.toRE] using ht.symm)
    · exact fun hh => c3 ((loop_node_iff ht).1 hh)

/-- **`complement` (`id xor 1`) refines `RE.complement`** -/
theorem good_complement {m : Mgr} (h : TableOK m.tbl) {e : Nat} {t : RE}
    (r : treeOf m.tbl e = some t) : Good (fun m => m.complementM e) m t.complement :=
  good_ret h (treeOf_xor h r)

theorem good_charSet {m : Mgr} (h : TableOK m.tbl) (s : CharSet) :
    Good (fun m => m.charSetM s) m (charSet s) :=
  good_make (n := .range s.start s.stop) h rfl rfl

theorem goodO_none {op : Mgr → Option (Mgr × Nat)} {m : Mgr} (heq : ∀ m2, Later m m2 → op m2 = none) :
    GoodO op m none := heq

theorem goodO_char {m : Mgr} (h : TableOK m.tbl) (x : Nat) :
    GoodO (fun m => m.charM x) m (char? x) := by
  by_cases hx : x ≤ MAX_CHAR
  · simp only [char?, if_pos hx]
    exact goodO_some (fun m => m.charSetM (CharSet.singleton x))
      (fun m2 _ => by simp only [Mgr.charM, if_pos hx]) (good_charSet h _)
  · simp only [char?, if_neg hx]
    exact goodO_none (fun m2 _ => by simp only [Mgr.charM, if_neg hx])

theorem goodO_range {m : Mgr} (h : TableOK m.tbl) (a b : Nat) :
    GoodO (fun m => m.rangeM a b) m (range? a b) := by
  by_cases hx : (decide (a ≤ b) && decide (b ≤ MAX_CHAR)) = true
  · simp only [range?, if_pos hx]
    exact goodO_some (fun m => m.charSetM (CharSet.range a b))
      (fun m2 _ => by simp only [Mgr.rangeM, if_pos hx]) (good_charSet h _)
  · simp only [range?, if_neg hx]
    exact goodO_none (fun m2 _ => by simp only [Mgr.rangeM, if_neg hx])

theorem good_smtRange {m : Mgr} (h : TableOK m.tbl) (s1 s2 : List Nat) :
    Good (fun m => m.smtRangeM s1 s2) m (smtRange s1 s2) := by
  unfold smtRange
  split
  · rename_i c1 c2
    by_cases hc : c1 ≤ c2
    · rw [if_pos hc]
      exact good_congr h (fun m2 _ => by simp only [Mgr.smtRangeM, if_pos hc]) (good_charSet h _)
    · rw [if_neg hc]
      exact good_congr h (fun m2 _ => by simp only [Mgr.smtRangeM, if_neg hc])
        (good_ret h (tree_emptyId h))
  · rename_i hne
    refine good_congr h ?_ (good_ret h (tree_emptyId h))
    intro m2 _
    unfold Mgr.smtRangeM
    split
    · rename_i c1 c2; exact absurd rfl (fun hh => hne c1 c2 hh rfl)
    · rfl

theorem goodO_str {m : Mgr} (h : TableOK m.tbl) (s : List Nat) :
    GoodO (fun m => m.strM s) m (str? s) := by
  induction s with
  | nil =>
    simp only [str?]
    exact goodO_some (fun m => (m, Mgr.epsilonId)) (fun m2 _ => rfl) (good_ret h (tree_epsilonId h))
  | cons c rest ih =>
    cases hr : str? rest with
    | none =>
      rw [hr] at ih
      have : str? (c :: rest) = none := by simp [str?, hr]
      rw [this]
      exact goodO_none (fun m2 hl => by simp only [Mgr.strM, ih m2 hl])
    | some re =>
      rw [hr] at ih
      obtain ⟨op1, heq1, hg1⟩ := ih
      by_cases hx : c ≤ MAX_CHAR
      · have : str? (c :: rest) = some (mkConcat (.range (CharSet.singleton c)) re) := by
          simp [str?, hr, char?, hx]
        rw [this]
        refine goodO_some (fun m => ((op1 m).1.charSetM (CharSet.singleton c)).1.concatM
          ((op1 m).1.charSetM (CharSet.singleton c)).2 (op1 m).2) ?_ ?_
        · intro m2 hl
          simp only [Mgr.strM, heq1 m2 hl, Mgr.charM, if_pos hx]
        · refine good_bind (op2 := fun m' r => (m'.charSetM (CharSet.singleton c)).1.concatM
            (m'.charSetM (CharSet.singleton c)).2 r) hg1 ?_
          have hg2 := good_charSet hg1.post.ok (CharSet.singleton c)
          refine good_bind (op1 := fun m' => m'.charSetM (CharSet.singleton c))
            (op2 := fun m' r => m'.concatM r (op1 m).2) hg2 ?_
          exact good_concat hg2.post.ok hg2.post.rep (treeOf_prefix hg2.post.ext hg1.post.rep)
      · have : str? (c :: rest) = none := by simp [str?, hr, char?, hx]
        rw [this]
        exact goodO_none (fun m2 hl => by simp only [Mgr.strM, heq1 m2 hl, Mgr.charM, if_neg hx])

end MgrCons
end Smt
