/-
  Helper lemmas for C16 (soundness of `sub_language` / `included_in`):

    * `catLang` : the language of a concatenation given as a list, with monotonicity/splitting
    * rigid matching: `rigidMatchHere/At`, `next/prevRigidMatch`, prefix/suffix match are sound
      (pointwise `covers` ⇒ inclusion of the slice languages) and return in-bounds regions
    * `basePatterns` tiles `v` with alternating rigid/flexible slices
    * `findRigidMatches` / `findRigidMatchesRevAux` keep the shape and give sound rigid regions
    * `flex_regions_sound` : rigid regions + regions assigned by `setFlexibleRegions` tile `u`,
      hence `catLang u ≤ catLang v`
    * `concat_inclusion_sound`

  The facts about `RE.lang` that are needed (`lang ≤ allStrings` for the elements of `u`,
  `isFull x → x.lang = allStrings`) are explicit hypotheses here; Props/C16.lean supplies them.
-/
import SmtModel.Proofs.ReLangCore
import SmtModel.Model.ReCons

namespace Smt
namespace RE

/-! ### concatenation language of a list -/

/-- language of the concatenation of a list of terms -/
def catLang : List RE → Language ℕ
  | [] => 1
  | x :: xs => x.lang * catLang xs

theorem mul_le_mul_lang {a b c d : Language ℕ} (h1 : a ≤ c) (h2 : b ≤ d) : a * b ≤ c * d := by
  intro w hw
  obtain ⟨x, hx, y, hy, rfl⟩ := Language.mem_mul.1 hw
  exact Language.mem_mul.2 ⟨x, h1 hx, y, h2 hy, rfl⟩

theorem catLang_append (a b : List RE) : catLang (a ++ b) = catLang a * catLang b := by
  induction a with
  | nil => simp [catLang]
  | cons x xs ih => simp [catLang, ih, mul_assoc]

theorem catLang_singleton (x : RE) : catLang [x] = x.lang := by simp [catLang]

/-- `flatten_concat` preserves the language -/
theorem flattenConcat_catLang : ∀ (e : RE), catLang (flattenConcat e) = e.lang
  | .epsilon => by simp [flattenConcat, catLang, lang]
  | .concat x y => by
      simp [flattenConcat, catLang_append, flattenConcat_catLang x, flattenConcat_catLang y, lang]
  | .empty => by simp [flattenConcat, catLang]
  | .range _ => by simp [flattenConcat, catLang]
  | .loop _ _ => by simp [flattenConcat, catLang]
  | .compl _ => by simp [flattenConcat, catLang]
  | .union _ => by simp [flattenConcat, catLang]
  | .inter _ => by simp [flattenConcat, catLang]

theorem append_mem_allStrings {x y : List ℕ} (hx : x ∈ allStrings) (hy : y ∈ allStrings) :
    x ++ y ∈ allStrings := by
  intro c hc
  rcases List.mem_append.1 hc with h | h
  · exact hx c h
  · exact hy c h

theorem catLang_le_allStrings {l : List RE} (h : ∀ x ∈ l, x.lang ≤ allStrings) :
    catLang l ≤ allStrings := by
  induction l with
  | nil =>
    intro w hw
    have hw' : w = [] := (Language.mem_one w).1 hw
    subst hw'; exact nil_mem_allStrings
  | cons x xs ih =>
    intro w hw
    obtain ⟨a, ha, b, hb, rfl⟩ := Language.mem_mul.1 hw
    exact append_mem_allStrings (h x (List.mem_cons_self) ha)
      (ih (fun y hy => h y (List.mem_cons_of_mem _ hy)) hb)

/-! ### slices -/

theorem drop_eq_slice_append (l : List RE) {a b : Nat} (hab : a ≤ b) :
    l.drop a = slice l a b ++ l.drop b := by
  unfold slice
  have h : l.drop b = (l.drop a).drop (b - a) := by
    rw [List.drop_drop]; congr 1; omega
  rw [h, List.take_append_drop]

theorem slice_zero_length (l : List RE) : slice l 0 l.length = l := by
  simp [slice]

theorem mem_of_mem_slice {l : List RE} {a b : Nat} {x : RE} (h : x ∈ slice l a b) : x ∈ l :=
  List.mem_of_mem_drop (List.mem_of_mem_take h)

theorem mem_of_mem_drop' {l : List RE} {a : Nat} {x : RE} (h : x ∈ l.drop a) : x ∈ l :=
  List.mem_of_mem_drop h

/-! ### rigid matching -/

/-- language of a rigid pattern given by its character sets -/
def rangesLang (cs : List CharSet) : Language ℕ := catLang (cs.map RE.range)

theorem matchCharSet_sound {x : RE} {p : CharSet} (h : x.matchCharSet p = true) :
    x.lang ≤ (RE.range p).lang := by
  cases x with
  | range y =>
    simp only [matchCharSet, CharSet.covers, Bool.and_eq_true, decide_eq_true_eq] at h
    intro w hw
    obtain ⟨c, rfl, h1, h2⟩ := hw
    exact ⟨c, rfl, by omega, by omega⟩
  | _ => simp [matchCharSet] at h

/-- T:`rigid_match_sound` (core): a successful `rigid_match_at` means that the first
    `cs.length` elements exist and their concatenation is included in the pattern's language -/
theorem rigidMatchHere_sound {cs : List CharSet} {us : List RE}
    (h : rigidMatchHere cs us = true) :
    cs.length ≤ us.length ∧ catLang (us.take cs.length) ≤ rangesLang cs := by
  induction cs generalizing us with
  | nil => simp [rangesLang, catLang]
  | cons p ps ih =>
    cases us with
    | nil => simp [rigidMatchHere] at h
    | cons x xs =>
      simp only [rigidMatchHere, Bool.and_eq_true] at h
      obtain ⟨h1, h2⟩ := ih h.2
      refine ⟨by simp; omega, ?_⟩
      simp only [List.length_cons, List.take_succ_cons, catLang, rangesLang, List.map_cons]
      exact mul_le_mul_lang (matchCharSet_sound h.1) h2

theorem rigidMatchAt_sound {cs : List CharSet} {s : List RE} {i : Nat}
    (h : rigidMatchAt cs s i = true) :
    cs.length ≤ s.length - i ∧ catLang (slice s i (i + cs.length)) ≤ rangesLang cs := by
  unfold rigidMatchAt at h
  obtain ⟨h1, h2⟩ := rigidMatchHere_sound h
  rw [List.length_drop] at h1
  refine ⟨h1, ?_⟩
  unfold slice
  have : i + cs.length - i = cs.length := by omega
  rw [this]; exact h2

theorem charSetsOfPattern_eq {sl : List RE} {cs : List CharSet}
    (h : charSetsOfPattern sl = some cs) : sl = cs.map RE.range := by
  induction sl generalizing cs with
  | nil => simp [charSetsOfPattern] at h; subst h; rfl
  | cons x xs ih =>
    cases x with
    | range s =>
      simp only [charSetsOfPattern, Option.map_eq_some_iff] at h
      obtain ⟨cs', h1, rfl⟩ := h
      simp [ih h1]
    | _ => simp [charSetsOfPattern] at h

theorem charSetsOfPattern_lang {sl : List RE} {cs : List CharSet}
    (h : charSetsOfPattern sl = some cs) : rangesLang cs = catLang sl ∧ cs.length = sl.length := by
  have := charSetsOfPattern_eq h
  subst this
  simp [rangesLang]

theorem nextRigidMatchAux_sound {cs : List CharSet} {s : List RE} {j n a b : Nat}
    (h : nextRigidMatchAux cs s j n = some (a, b)) :
    j ≤ a ∧ a < j + n ∧ b = a + cs.length ∧ rigidMatchAt cs s a = true := by
  induction n generalizing j with
  | zero => simp [nextRigidMatchAux] at h
  | succ n ih =>
    simp only [nextRigidMatchAux] at h
    split at h
    · simp only [Option.some.injEq, Prod.mk.injEq] at h
      obtain ⟨rfl, rfl⟩ := h
      exact ⟨Nat.le_refl _, by omega, rfl, by assumption⟩
    · obtain ⟨h1, h2, h3, h4⟩ := ih h
      exact ⟨by omega, by omega, h3, h4⟩

/-- `next_rigid_match`: the region found starts at or after `i`, has the pattern's length, lies
    within `s`, and is included in the pattern -/
theorem nextRigidMatch_sound {cs : List CharSet} {s : List RE} {i a b : Nat}
    (h : nextRigidMatch cs s i = some (a, b)) :
    i ≤ a ∧ b = a + cs.length ∧ b ≤ s.length ∧ catLang (slice s a b) ≤ rangesLang cs := by
  simp only [nextRigidMatch] at h
  split at h
  · obtain ⟨h1, h2, h3, h4⟩ := nextRigidMatchAux_sound h
    obtain ⟨_, h5⟩ := rigidMatchAt_sound h4
    subst h3
    exact ⟨h1, rfl, by omega, h5⟩
  · cases h

theorem prevRigidMatchAux_sound {cs : List CharSet} {s : List RE} {pLen j a b : Nat}
    (h : prevRigidMatchAux cs s pLen j = some (a, b)) :
    b ≤ j ∧ b = a + pLen ∧ rigidMatchAt cs s a = true := by
  induction j with
  | zero =>
    simp only [prevRigidMatchAux] at h
    split at h
    · cases h
    · split at h
      · simp only [Option.some.injEq, Prod.mk.injEq] at h
        obtain ⟨rfl, rfl⟩ := h
        exact ⟨Nat.le_refl _, by omega, by assumption⟩
      · cases h
  | succ j ih =>
    simp only [prevRigidMatchAux] at h
    split at h
    · cases h
    · split at h
      · simp only [Option.some.injEq, Prod.mk.injEq] at h
        obtain ⟨rfl, rfl⟩ := h
        exact ⟨Nat.le_refl _, by omega, by assumption⟩
      · obtain ⟨h1, h2, h3⟩ := ih h
        exact ⟨by omega, h2, h3⟩

/-- `prev_rigid_match`: the region found ends at or before `i` (hence within `s` when `i` is),
    has the pattern's length, and is included in the pattern -/
theorem prevRigidMatch_sound {cs : List CharSet} {s : List RE} {i a b : Nat}
    (h : prevRigidMatch cs s i = some (a, b)) :
    b ≤ i ∧ b = a + cs.length ∧ catLang (slice s a b) ≤ rangesLang cs := by
  unfold prevRigidMatch at h
  obtain ⟨h1, h2, h3⟩ := prevRigidMatchAux_sound h
  obtain ⟨_, h5⟩ := rigidMatchAt_sound h3
  subst h2
  exact ⟨h1, rfl, h5⟩

/-- `rigid_prefix_match`: the first `p.len` elements of `u` are included in the slice of `v` -/
theorem rigidPrefixMatch_sound {u v : List RE} {p : BasePattern} (hp : p.start ≤ p.stop)
    (hv : p.stop ≤ v.length) (h : rigidPrefixMatch u v p = true) :
    p.len ≤ u.length ∧ catLang (u.take p.len) ≤ catLang (slice v p.start p.stop) := by
  simp only [rigidPrefixMatch] at h
  split at h
  · rename_i hlen
    split at h
    · rename_i cs hcs
      obtain ⟨h1, h2⟩ := charSetsOfPattern_lang hcs
      obtain ⟨_, h4⟩ := rigidMatchAt_sound h
      have hl : cs.length = p.len := by
        rw [h2]; simp [slice, BasePattern.len]; omega
      rw [← h1, ← hl]
      refine ⟨by omega, ?_⟩
      simpa [slice] using h4
    · cases h
  · cases h

/-- `rigid_suffix_match`: the last `p.len` elements of `u` are included in the slice of `v` -/
theorem rigidSuffixMatch_sound {u v : List RE} {p : BasePattern} (hp : p.start ≤ p.stop)
    (hv : p.stop ≤ v.length) (h : rigidSuffixMatch u v p = true) :
    p.len ≤ u.length ∧
      catLang (u.drop (u.length - p.len)) ≤ catLang (slice v p.start p.stop) := by
  simp only [rigidSuffixMatch] at h
  split at h
  · rename_i hlen
    split at h
    · rename_i cs hcs
      obtain ⟨h1, h2⟩ := charSetsOfPattern_lang hcs
      obtain ⟨h3, h4⟩ := rigidMatchAt_sound h
      have hl : cs.length = p.len := by
        rw [h2]; simp [slice, BasePattern.len]; omega
      rw [← h1, ← hl]
      refine ⟨by omega, ?_⟩
      have hlen' : cs.length ≤ u.length := by omega
      have e : u.length - cs.length + cs.length = u.length := by omega
      rw [e] at h4
      have : slice u (u.length - cs.length) u.length = u.drop (u.length - cs.length) := by
        unfold slice
        apply List.take_of_length_le
        simp
      rw [this] at h4; exact h4
    · cases h
  · cases h

/-! ### structure of `base_patterns`: consecutive slices covering `v`, alternating kinds -/

/-- the patterns are consecutive slices `[a, …) … (…, n]` -/
def Tiles (n : Nat) : Nat → List BasePattern → Prop
  | a, [] => a = n
  | a, p :: rest => p.start = a ∧ p.start ≤ p.stop ∧ Tiles n p.stop rest

/-- kinds alternate, the head has kind `b` -/
def AltFrom : Bool → List BasePattern → Prop
  | _, [] => True
  | b, p :: rest => p.isRigid = b ∧ AltFrom (!b) rest

/-- flexible, rigid, flexible, …, flexible (what is left after the rigid prefix and suffix
    have been peeled off) -/
inductive FlexAlt : List BasePattern → Prop
  | single (p : BasePattern) : p.isRigid = false → FlexAlt [p]
  | cons2 (p q : BasePattern) (rest : List BasePattern) :
      p.isRigid = false → q.isRigid = true → FlexAlt rest → FlexAlt (p :: q :: rest)

theorem Tiles.le {n : Nat} {ps : List BasePattern} : ∀ {a : Nat}, Tiles n a ps → a ≤ n := by
  induction ps with
  | nil => intro a h; exact Nat.le_of_eq h
  | cons p rest ih =>
    intro a h
    obtain ⟨h1, h2, h3⟩ := h
    have := ih h3
    omega

theorem basePatternsAux_tiles (l : List RE) : ∀ (j i : Nat) (rigid : Bool), j ≤ i →
    Tiles (i + l.length) j (basePatternsAux j rigid i l) := by
  induction l with
  | nil => intro j i rigid h; simp [basePatternsAux, Tiles, BasePattern.make]; exact h
  | cons re rest ih =>
    intro j i rigid h
    simp only [basePatternsAux]
    split
    · refine ⟨rfl, h, ?_⟩
      have := ih i (i + 1) re.isRange (by omega)
      simp only [BasePattern.make, List.length_cons]
      rw [show i + (rest.length + 1) = i + 1 + rest.length by omega]
      exact this
    · have := ih j (i + 1) rigid (by omega)
      rw [List.length_cons, show i + (rest.length + 1) = i + 1 + rest.length by omega]
      exact this

theorem basePatterns_tiles (v : List RE) : Tiles v.length 0 (basePatterns v) := by
  cases v with
  | nil => simp [basePatterns, Tiles]
  | cons r0 rest =>
    have := basePatternsAux_tiles rest 0 1 r0.isRange (by omega)
    simp only [basePatterns, List.length_cons]
    rw [show rest.length + 1 = 1 + rest.length by omega]
    exact this

theorem basePatternsAux_alt (l : List RE) : ∀ (j i : Nat) (rigid : Bool),
    AltFrom rigid (basePatternsAux j rigid i l) := by
  induction l with
  | nil => intro j i rigid; simp [basePatternsAux, AltFrom, BasePattern.make]
  | cons re rest ih =>
    intro j i rigid
    simp only [basePatternsAux]
    split
    · rename_i hne
      refine ⟨rfl, ?_⟩
      have e : (!rigid) = re.isRange := by
        cases rigid <;> cases h : re.isRange <;> simp_all
      rw [e]; exact ih _ _ _
    · exact ih _ _ _

theorem basePatterns_alt (v : List RE) : ∃ b, AltFrom b (basePatterns v) := by
  cases v with
  | nil => exact ⟨true, trivial⟩
  | cons r0 rest => exact ⟨r0.isRange, basePatternsAux_alt _ _ _ _⟩

/-! shifting, dropping the last pattern -/

theorem shift_alt {ps : List BasePattern} {d : Nat} : ∀ {b : Bool}, AltFrom b ps →
    AltFrom b (shiftPatternStart ps d) := by
  induction ps with
  | nil => intro b h; trivial
  | cons p rest ih =>
    intro b h
    exact ⟨h.1, ih h.2⟩

theorem shift_tiles {ps : List BasePattern} {n d : Nat} : ∀ {a : Nat}, d ≤ a → Tiles n a ps →
    Tiles (n - d) (a - d) (shiftPatternStart ps d) := by
  induction ps with
  | nil => intro a hd h; simp only [Tiles] at h; subst h; rfl
  | cons p rest ih =>
    intro a hd h
    obtain ⟨h1, h2, h3⟩ := h
    refine ⟨by simp [h1], by simp; omega, ?_⟩
    exact ih (by omega) h3

theorem tiles_snoc {n : Nat} {l : List BasePattern} {x : BasePattern} : ∀ {a : Nat},
    Tiles n a (l ++ [x]) → Tiles x.start a l ∧ x.start ≤ x.stop ∧ x.stop = n := by
  induction l with
  | nil => intro a h; obtain ⟨h1, h2, h3⟩ := h; exact ⟨h1.symm, h2, h3⟩
  | cons p rest ih =>
    intro a h
    obtain ⟨h1, h2, h3⟩ := h
    obtain ⟨h4, h5⟩ := ih h3
    exact ⟨⟨h1, h2, h4⟩, h5⟩

theorem alt_snoc {l : List BasePattern} {x : BasePattern} : ∀ {b : Bool},
    AltFrom b (l ++ [x]) → AltFrom b l := by
  induction l with
  | nil => intro b _; trivial
  | cons p rest ih => intro b h; exact ⟨h.1, ih h.2⟩

theorem alt_snoc2 {l : List BasePattern} {y x : BasePattern} : ∀ {b : Bool},
    AltFrom b (l ++ [y, x]) → x.isRigid = !y.isRigid := by
  induction l with
  | nil => intro b h; obtain ⟨h1, h2, _⟩ := h; rw [h1, h2]
  | cons p rest ih => intro b h; exact ih h.2

/-- a list that alternates, starts flexible and does not end rigid is `[]` or `FlexAlt` -/
theorem flexAlt_of_alt : ∀ (ps : List BasePattern), AltFrom false ps →
    (∀ p, ps.getLast? = some p → p.isRigid = false) → ps = [] ∨ FlexAlt ps
  | [], _, _ => Or.inl rfl
  | [p], h, _ => Or.inr (FlexAlt.single p h.1)
  | p :: q :: rest, h, hl => by
    right
    obtain ⟨h1, h2, h3⟩ := h
    have hl' : ∀ x, rest.getLast? = some x → x.isRigid = false := by
      intro x hx
      apply hl x
      cases rest with
      | nil => cases hx
      | cons r rs => simpa [List.getLast?_cons_cons] using hx
    rcases flexAlt_of_alt rest (by simpa using h3) hl' with h4 | h4
    · subst h4
      have := hl q (by simp)
      simp [h2] at this
    · exact FlexAlt.cons2 p q rest h1 (by simpa using h2) h4

theorem FlexAlt.snoc2 {l : List BasePattern} {q p : BasePattern} (h : FlexAlt l)
    (hq : q.isRigid = true) (hp : p.isRigid = false) : FlexAlt (l ++ [q, p]) := by
  induction h with
  | single a ha => exact FlexAlt.cons2 a q [p] ha hq (FlexAlt.single p hp)
  | cons2 a b rest ha hb _ ih => exact FlexAlt.cons2 a b _ ha hb ih

theorem FlexAlt.reverse {l : List BasePattern} (h : FlexAlt l) : FlexAlt l.reverse := by
  induction h with
  | single a ha => exact FlexAlt.single a ha
  | cons2 a b rest ha hb _ ih =>
    have : (a :: b :: rest).reverse = rest.reverse ++ [b, a] := by simp
    rw [this]; exact ih.snoc2 hb ha

/-! ### shape: the fields of a pattern that the searches do not modify -/

def BasePattern.core (p : BasePattern) : Nat × Nat × Bool := (p.start, p.stop, p.isRigid)

theorem FlexAlt.of_core {ps : List BasePattern} (h : FlexAlt ps) : ∀ {ps' : List BasePattern},
    ps'.map BasePattern.core = ps.map BasePattern.core → FlexAlt ps' := by
  induction h with
  | single p hp =>
    intro ps' he
    cases ps' with
    | nil => simp at he
    | cons p' r' =>
      cases r' with
      | cons _ _ => simp at he
      | nil =>
        simp [BasePattern.core] at he
        exact FlexAlt.single p' (by rw [he.2.2]; exact hp)
  | cons2 p q rest hp hq _ ih =>
    intro ps' he
    cases ps' with
    | nil => simp at he
    | cons p' r' =>
      cases r' with
      | nil => simp at he
      | cons q' rest' =>
        simp only [List.map_cons, List.cons.injEq, BasePattern.core, Prod.mk.injEq] at he
        obtain ⟨⟨_, _, h1⟩, ⟨_, _, h2⟩, h3⟩ := he
        exact FlexAlt.cons2 p' q' rest' (by rw [h1]; exact hp) (by rw [h2]; exact hq) (ih h3)

theorem Tiles.of_core {n : Nat} {ps : List BasePattern} : ∀ {a : Nat} {ps' : List BasePattern},
    Tiles n a ps → ps'.map BasePattern.core = ps.map BasePattern.core → Tiles n a ps' := by
  induction ps with
  | nil => intro a ps' h he; simp at he; subst he; exact h
  | cons p rest ih =>
    intro a ps' h he
    match ps', he with
    | p' :: rest', he =>
      simp only [List.map_cons, List.cons.injEq, BasePattern.core, Prod.mk.injEq] at he
      obtain ⟨⟨h1, h2, _⟩, h3⟩ := he
      obtain ⟨h4, h5, h6⟩ := h
      exact ⟨by omega, by omega, by rw [h2]; exact ih h6 h3⟩

/-- a rigid pattern whose match region is a region of `u` included in the pattern's slice of `v` -/
def RigidOK (u v : List RE) (p : BasePattern) : Prop :=
  p.startMatch ≤ p.stopMatch ∧ p.stopMatch ≤ u.length ∧
    catLang (slice u p.startMatch p.stopMatch) ≤ catLang (slice v p.start p.stop)

/-- `find_rigid_matches` keeps the shape; every rigid pattern gets a sound region at or after `i`,
    the regions are in increasing order -/
theorem findRigidMatches_spec (u v : List RE) : ∀ (ps : List BasePattern) (i : Nat)
    {ps' : List BasePattern}, findRigidMatches u v i ps = some ps' →
    ps'.map BasePattern.core = ps.map BasePattern.core ∧
    (∀ p ∈ ps', p.isRigid = true → RigidOK u v p ∧ i ≤ p.startMatch) := by
  intro ps
  induction ps with
  | nil =>
    intro i ps' h
    simp [findRigidMatches] at h; subst h; simp
  | cons p rest ih =>
    intro i ps' h
    simp only [findRigidMatches] at h
    split at h
    · rename_i hr
      split at h
      · cases h
      · rename_i cs hcs
        split at h
        · cases h
        · rename_i j k hm
          simp only [Option.map_eq_some_iff] at h
          obtain ⟨r', hr', rfl⟩ := h
          obtain ⟨e1, e2⟩ := ih k hr'
          obtain ⟨m1, m2, m3, m4⟩ := nextRigidMatch_sound hm
          obtain ⟨c1, _⟩ := charSetsOfPattern_lang hcs
          refine ⟨by simp [BasePattern.core, BasePattern.setMatch, e1], ?_⟩
          intro q hq hqr
          rcases List.mem_cons.1 hq with rfl | hq
          · refine ⟨⟨?_, ?_, ?_⟩, ?_⟩
            · simp [BasePattern.setMatch]; omega
            · simp [BasePattern.setMatch]; omega
            · simp only [BasePattern.setMatch]; rw [← c1]; exact m4
            · simp [BasePattern.setMatch]; omega
          · obtain ⟨f1, f2⟩ := e2 q hq hqr
            exact ⟨f1, by omega⟩
    · simp only [Option.map_eq_some_iff] at h
      obtain ⟨r', hr', rfl⟩ := h
      obtain ⟨e1, e2⟩ := ih i hr'
      refine ⟨by simp [e1], ?_⟩
      intro q hq hqr
      rcases List.mem_cons.1 hq with rfl | hq
      · simp_all
      · exact e2 q hq hqr

/-- `find_rigid_matches_rev` (on the reversed list) keeps the shape; every rigid pattern gets a
    sound region ending at or before `i` -/
theorem findRigidMatchesRevAux_spec (u v : List RE) : ∀ (ps : List BasePattern) (i : Nat)
    {ps' : List BasePattern}, i ≤ u.length → findRigidMatchesRevAux u v i ps = some ps' →
    ps'.map BasePattern.core = ps.map BasePattern.core ∧
    (∀ p ∈ ps', p.isRigid = true → RigidOK u v p ∧ p.stopMatch ≤ i) := by
  intro ps
  induction ps with
  | nil =>
    intro i ps' _ h
    simp [findRigidMatchesRevAux] at h; subst h; simp
  | cons p rest ih =>
    intro i ps' hi h
    simp only [findRigidMatchesRevAux] at h
    split at h
    · rename_i hr
      split at h
      · cases h
      · rename_i cs hcs
        split at h
        · cases h
        · rename_i j k hm
          simp only [Option.map_eq_some_iff] at h
          obtain ⟨r', hr', rfl⟩ := h
          obtain ⟨m1, m2, m4⟩ := prevRigidMatch_sound hm
          obtain ⟨e1, e2⟩ := ih j (by omega) hr'
          obtain ⟨c1, _⟩ := charSetsOfPattern_lang hcs
          refine ⟨by simp [BasePattern.core, BasePattern.setMatch, e1], ?_⟩
          intro q hq hqr
          rcases List.mem_cons.1 hq with rfl | hq
          · refine ⟨⟨?_, ?_, ?_⟩, ?_⟩
            · simp [BasePattern.setMatch]; omega
            · simp [BasePattern.setMatch]; omega
            · simp only [BasePattern.setMatch]; rw [← c1]; exact m4
            · simp [BasePattern.setMatch]; omega
          · obtain ⟨f1, f2⟩ := e2 q hq hqr
            exact ⟨f1, by omega⟩
    · simp only [Option.map_eq_some_iff] at h
      obtain ⟨r', hr', rfl⟩ := h
      obtain ⟨e1, e2⟩ := ih i hi hr'
      refine ⟨by simp [e1], ?_⟩
      intro q hq hqr
      rcases List.mem_cons.1 hq with rfl | hq
      · simp_all
      · exact e2 q hq hqr

/-! ### `is_full` -/

/-- `is_full` recognises exactly the term Σ* -/
theorem isFull_eq_sigmaStar {x : RE} (h : x.isFull = true) : x = sigmaStar := by
  cases x with
  | loop r rng =>
    simp only [isFull, Bool.and_eq_true] at h
    obtain ⟨h1, h2⟩ := h
    cases r with
    | range s =>
      simp only [isAllChars, CharSet.isAlphabet, Bool.and_eq_true, beq_iff_eq] at h2
      simp only [LoopRange.isAll, Bool.and_eq_true, beq_iff_eq] at h1
      obtain ⟨a, b⟩ := s
      obtain ⟨c, d⟩ := rng
      simp only at h1 h2
      obtain ⟨rfl, rfl⟩ := h1
      obtain ⟨rfl, rfl⟩ := h2
      rfl
    | _ => simp [isAllChars] at h2
  | _ => simp [isFull] at h

/-! ### flexible regions -/

theorem flexibleMatch_sound {u' v' : List RE} (h : flexibleMatch u' v' = true) :
    ∃ x, v' = [x] ∧ x.isFull = true := by
  unfold flexibleMatch at h
  split at h
  · exact ⟨_, rfl, h⟩
  · cases h

/-- the per-pattern test of `match_flexible_patterns` -/
def flexCheck (u v : List RE) (p : BasePattern) : Bool :=
  p.isRigid ||
    (decide (p.startMatch ≤ p.stopMatch ∧ p.stopMatch ≤ u.length) &&
      flexibleMatch (slice u p.startMatch p.stopMatch) (slice v p.start p.stop))

/-- The tiling argument.  For an alternating list flexible, rigid, …, flexible whose slices
    tile `v` from `a` on and whose rigid patterns carry sound regions of `u`: if every flexible
    pattern passes the test on the region `set_flexible_regions` gives it, then the regions tile
    `u` from `prevEnd` on and the concatenation of `u` from `prevEnd` is included in that of `v`
    from `a`. -/
theorem flex_regions_sound {u v : List RE} (hu : ∀ x ∈ u, x.lang ≤ allStrings)
    (hfull : ∀ x : RE, x.isFull = true → x.lang = allStrings)
    {ps : List BasePattern} (halt : FlexAlt ps) : ∀ (a prevEnd : Nat),
    Tiles v.length a ps → (∀ p ∈ ps, p.isRigid = true → RigidOK u v p) →
    (setFlexibleRegions u.length prevEnd ps).all (flexCheck u v) = true →
    catLang (u.drop prevEnd) ≤ catLang (v.drop a) := by
  induction halt with
  | single p hp =>
    intro a prevEnd ht _ hc
    obtain ⟨t1, t2, t3⟩ := ht
    simp only [Tiles] at t3
    simp only [setFlexibleRegions, hp, Bool.false_eq_true, if_false, List.all_cons, List.all_nil,
      Bool.and_true, flexCheck, BasePattern.setMatch, Bool.false_or, Bool.and_eq_true,
      decide_eq_true_eq] at hc
    obtain ⟨x, hx, hxf⟩ := flexibleMatch_sound hc.2
    have hv : v.drop a = [x] := by
      rw [drop_eq_slice_append v (show a ≤ v.length by omega), ← t1, ← t3, hx]
      simp; omega
    rw [hv, catLang_singleton, hfull x hxf]
    exact catLang_le_allStrings (fun y hy => hu y (List.mem_of_mem_drop hy))
  | cons2 p q rest hp hq _ ih =>
    intro a prevEnd ht hok hc
    obtain ⟨t1, t2, t3, t4, t5⟩ := ht
    simp only [setFlexibleRegions, hp, hq, Bool.false_eq_true, if_false, if_true, List.all_cons,
      flexCheck, BasePattern.setMatch, Bool.false_or, Bool.true_or, Bool.true_and,
      Bool.and_eq_true, decide_eq_true_eq] at hc
    obtain ⟨⟨⟨c1, c2⟩, c3⟩, c4⟩ := hc
    obtain ⟨x, hx, hxf⟩ := flexibleMatch_sound c3
    obtain ⟨r1, r2, r3⟩ := hok q (by simp) hq
    have ih' := ih q.stop q.stopMatch t5
      (fun p' hp' => hok p' (List.mem_cons_of_mem _ (List.mem_cons_of_mem _ hp'))) c4
    rw [drop_eq_slice_append u c1, drop_eq_slice_append u r1,
      drop_eq_slice_append v (show a ≤ p.stop by omega),
      drop_eq_slice_append v (show p.stop ≤ q.stop by omega),
      catLang_append, catLang_append, catLang_append, catLang_append]
    refine mul_le_mul_lang ?_ (mul_le_mul_lang ?_ ih')
    · rw [← t1, hx, catLang_singleton, hfull x hxf]
      exact catLang_le_allStrings (fun y hy => hu y (mem_of_mem_slice hy))
    · rw [← t3]; exact r3

theorem matchFlexiblePatterns_sound {u v : List RE} (hu : ∀ x ∈ u, x.lang ≤ allStrings)
    (hfull : ∀ x : RE, x.isFull = true → x.lang = allStrings)
    {ps : List BasePattern} (halt : ps = [] ∨ FlexAlt ps) (ht : Tiles v.length 0 ps)
    (hok : ∀ p ∈ ps, p.isRigid = true → RigidOK u v p)
    (h : matchFlexiblePatterns u v ps = true) : catLang u ≤ catLang v := by
  rcases halt with rfl | halt
  · simp only [matchFlexiblePatterns, List.isEmpty_iff] at h
    simp only [Tiles] at ht
    have : v = [] := List.eq_nil_of_length_eq_zero ht.symm
    subst h this
    exact le_refl _
  · have h' : (setFlexibleRegions u.length 0 ps).all (flexCheck u v) = true := by
      cases ps with
      | nil => cases halt
      | cons p rest => exact h
    simpa using flex_regions_sound hu hfull halt 0 0 ht hok h'

/-- forward pass (`find_rigid_matches` then `match_flexible_patterns`) -/
theorem forward_pass_sound {u v : List RE} (hu : ∀ x ∈ u, x.lang ≤ allStrings)
    (hfull : ∀ x : RE, x.isFull = true → x.lang = allStrings)
    {ps ps' : List BasePattern} (halt : ps = [] ∨ FlexAlt ps) (ht : Tiles v.length 0 ps)
    (hf : findRigidMatches u v 0 ps = some ps')
    (h : matchFlexiblePatterns u v ps' = true) : catLang u ≤ catLang v := by
  obtain ⟨e1, e2⟩ := findRigidMatches_spec u v ps 0 hf
  refine matchFlexiblePatterns_sound hu hfull ?_ (ht.of_core e1)
    (fun p hp hr => (e2 p hp hr).1) h
  rcases halt with rfl | halt
  · left; simpa using e1
  · right; exact halt.of_core e1

/-- reverse pass (`find_rigid_matches_rev` then `match_flexible_patterns`) -/
theorem reverse_pass_sound {u v : List RE} (hu : ∀ x ∈ u, x.lang ≤ allStrings)
    (hfull : ∀ x : RE, x.isFull = true → x.lang = allStrings)
    {ps ps' : List BasePattern} (halt : ps = [] ∨ FlexAlt ps) (ht : Tiles v.length 0 ps)
    (hf : findRigidMatchesRev u v ps = some ps')
    (h : matchFlexiblePatterns u v ps' = true) : catLang u ≤ catLang v := by
  simp only [findRigidMatchesRev, Option.map_eq_some_iff] at hf
  obtain ⟨rs, hrs, rfl⟩ := hf
  obtain ⟨e1, e2⟩ := findRigidMatchesRevAux_spec u v ps.reverse u.length (Nat.le_refl _) hrs
  have e1' : rs.reverse.map BasePattern.core = ps.map BasePattern.core := by
    rw [List.map_reverse, e1, List.map_reverse, List.reverse_reverse]
  refine matchFlexiblePatterns_sound hu hfull ?_ (ht.of_core e1')
    (fun p hp hr => (e2 p (List.mem_reverse.1 hp) hr).1) h
  rcases halt with rfl | halt
  · left; simpa using e1'
  · right; exact halt.of_core e1'

/-! ### `concat_inclusion` -/

/-- the two passes of `concat_inclusion` after prefix and suffix have been removed -/
def ciCore (u v : List RE) (p : List BasePattern) : Bool :=
  (match findRigidMatches u v 0 p with
    | some p' => matchFlexiblePatterns u v p'
    | none => false) ||
  (match findRigidMatchesRev u v p with
    | some p' => matchFlexiblePatterns u v p'
    | none => false)

theorem ciCore_sound {u v : List RE} (hu : ∀ x ∈ u, x.lang ≤ allStrings)
    (hfull : ∀ x : RE, x.isFull = true → x.lang = allStrings)
    {ps : List BasePattern} (halt : ps = [] ∨ FlexAlt ps) (ht : Tiles v.length 0 ps)
    (h : ciCore u v ps = true) : catLang u ≤ catLang v := by
  simp only [ciCore, Bool.or_eq_true] at h
  rcases h with h | h
  · split at h
    · exact forward_pass_sound hu hfull halt ht (by assumption) h
    · cases h
  · split at h
    · exact reverse_pass_sound hu hfull halt ht (by assumption) h
    · cases h

/-- the suffix step of `concat_inclusion` followed by the two passes -/
def ciStep2 (u v : List RE) (p : List BasePattern) : Bool :=
  let step2 : Option (List RE × List RE × List BasePattern) :=
    match p.getLast? with
    | some pat =>
      if pat.isRigid then
        if rigidSuffixMatch u v pat then
          let len := pat.len
          some (u.take (u.length - len), v.take (v.length - len), p.dropLast)
        else none
      else some (u, v, p)
    | none => some (u, v, p)
  match step2 with
  | none => false
  | some (u, v, p) => ciCore u v p

theorem ciStep2_sound {u v : List RE} (hu : ∀ x ∈ u, x.lang ≤ allStrings)
    (hfull : ∀ x : RE, x.isFull = true → x.lang = allStrings)
    {ps : List BasePattern} (halt : AltFrom false ps) (ht : Tiles v.length 0 ps)
    (h : ciStep2 u v ps = true) : catLang u ≤ catLang v := by
  unfold ciStep2 at h
  cases hl : ps.getLast? with
  | none =>
    have : ps = [] := List.getLast?_eq_none_iff.1 hl
    subst this
    simp only [List.getLast?_nil] at h
    exact ciCore_sound hu hfull (Or.inl rfl) ht h
  | some pat =>
    simp only [hl] at h
    by_cases hr : pat.isRigid = true
    · simp only [hr, if_true] at h
      by_cases hs : rigidSuffixMatch u v pat = true
      · simp only [hs, if_true] at h
        obtain ⟨l, rfl⟩ := List.getLast?_eq_some_iff.1 hl
        obtain ⟨t1, t2, t3⟩ := tiles_snoc ht
        obtain ⟨s1, s2⟩ := rigidSuffixMatch_sound t2 (by omega) hs
        have hlen : pat.len = v.length - pat.start := by simp [BasePattern.len, t3]
        simp only [List.dropLast_concat] at h
        have hl1 : AltFrom false l := alt_snoc halt
        have hl2 : l = [] ∨ FlexAlt l := by
          apply flexAlt_of_alt l hl1
          intro y hy
          obtain ⟨l', rfl⟩ := List.getLast?_eq_some_iff.1 hy
          have := alt_snoc2 (l := l') (y := y) (x := pat) (by simpa using halt)
          rw [hr] at this
          revert this
          cases y.isRigid <;> simp
        have hpl : pat.start ≤ v.length := by omega
        have hv2 : (v.take (v.length - pat.len)).length = pat.start := by
          simp [hlen]; omega
        have hcore := ciCore_sound (u := u.take (u.length - pat.len))
          (v := v.take (v.length - pat.len))
          (fun x hx => hu x (List.mem_of_mem_take hx)) hfull hl2 (by rw [hv2]; exact t1) h
        have eu : u = u.take (u.length - pat.len) ++ u.drop (u.length - pat.len) :=
          (List.take_append_drop _ _).symm
        have ev : v = v.take (v.length - pat.len) ++ slice v pat.start pat.stop := by
          have : slice v pat.start pat.stop = v.drop (v.length - pat.len) := by
            unfold slice
            rw [hlen, show v.length - (v.length - pat.start) = pat.start by omega, t3]
            apply List.take_of_length_le
            simp
          rw [this, List.take_append_drop]
        rw [eu, ev, catLang_append, catLang_append]
        exact mul_le_mul_lang hcore s2
      · simp [hs] at h
    · simp only [hr, Bool.false_eq_true, if_false] at h
      refine ciCore_sound hu hfull ?_ ht h
      apply flexAlt_of_alt ps halt
      intro y hy
      rw [hl] at hy
      cases hy
      simpa using hr

theorem concatInclusion_eq (u v : List RE) :
    concatInclusion u v =
      (match (match basePatterns v with
        | pat :: rest =>
          if pat.isRigid then
            if rigidPrefixMatch u v pat then
              some (u.drop pat.len, v.drop pat.len, shiftPatternStart rest pat.len)
            else none
          else some (u, v, basePatterns v)
        | [] => some (u, v, basePatterns v)) with
      | none => false
      | some (u, v, p) => ciStep2 u v p) := rfl

/-- T:`concat_inclusion_sound` with the two facts about `lang` as hypotheses: the elements of `u`
    denote sets of SMT strings, and a term passing `is_full` denotes all SMT strings -/
theorem concatInclusion_sound' {u v : List RE} (hu : ∀ x ∈ u, x.lang ≤ allStrings)
    (hfull : ∀ x : RE, x.isFull = true → x.lang = allStrings)
    (h : concatInclusion u v = true) : catLang u ≤ catLang v := by
  rw [concatInclusion_eq] at h
  have ht := basePatterns_tiles v
  obtain ⟨b, halt⟩ := basePatterns_alt v
  cases hb : basePatterns v with
  | nil =>
    rw [hb] at h ht halt
    exact ciStep2_sound (ps := []) hu hfull trivial ht h
  | cons pat rest =>
    rw [hb] at h ht halt
    simp only at h
    obtain ⟨a1, a2⟩ := halt
    obtain ⟨t1, t2, t3⟩ := ht
    by_cases hr : pat.isRigid = true
    · simp only [hr, if_true] at h
      by_cases hp : rigidPrefixMatch u v pat = true
      · simp only [hp, if_true] at h
        have hstop : pat.stop ≤ v.length := t3.le
        obtain ⟨s1, s2⟩ := rigidPrefixMatch_sound t2 hstop hp
        have hlen : pat.len = pat.stop := by simp [BasePattern.len, t1]
        have a2' : AltFrom false (shiftPatternStart rest pat.len) := by
          apply shift_alt
          rw [← a1, hr] at a2; simpa using a2
        have t3' : Tiles (v.drop pat.len).length 0 (shiftPatternStart rest pat.len) := by
          have := shift_tiles (d := pat.len) (by omega) t3
          rw [hlen] at this ⊢
          simpa using this
        have hcore := ciStep2_sound (u := u.drop pat.len) (v := v.drop pat.len)
          (fun x hx => hu x (List.mem_of_mem_drop hx)) hfull a2' t3' h
        have eu : u = u.take pat.len ++ u.drop pat.len := (List.take_append_drop _ _).symm
        have ev : v = slice v pat.start pat.stop ++ v.drop pat.len := by
          rw [hlen, t1]
          have := drop_eq_slice_append v (show 0 ≤ pat.stop by omega)
          simpa using this
        rw [eu, ev, catLang_append, catLang_append]
        exact mul_le_mul_lang s2 hcore
      · simp [hp] at h
    · simp only [hr, Bool.false_eq_true, if_false] at h
      have hb' : b = false := by rw [← a1]; simpa using hr
      subst hb'
      exact ciStep2_sound (ps := pat :: rest) hu hfull ⟨a1, a2⟩ ⟨t1, t2, t3⟩ h

/-! ### the slices taken by `match_flexible_patterns` are always in bounds

  `&u[p.start_match..p.end_match]` panics in the Rust if `start_match > end_match` or
  `end_match > u.len()`; the model answers `false` at that place.  The lemmas below show that this
  never happens for the pattern lists `concat_inclusion` produces, so the guard in
  `matchFlexiblePatterns` is always true there. -/

/-- rigid regions are in order -/
def MatchOrder (p q : BasePattern) : Prop :=
  p.isRigid = true → q.isRigid = true → p.stopMatch ≤ q.startMatch

/-- a match region that is a valid slice of a sequence of length `n` -/
def RegionOK (n : Nat) (p : BasePattern) : Prop := p.startMatch ≤ p.stopMatch ∧ p.stopMatch ≤ n

theorem findRigidMatches_ordered (u v : List RE) : ∀ (ps : List BasePattern) (i : Nat)
    {ps' : List BasePattern}, findRigidMatches u v i ps = some ps' → ps'.Pairwise MatchOrder := by
  intro ps
  induction ps with
  | nil => intro i ps' h; simp [findRigidMatches] at h; subst h; exact List.Pairwise.nil
  | cons p rest ih =>
    intro i ps' h
    simp only [findRigidMatches] at h
    split at h
    · split at h
      · cases h
      · split at h
        · cases h
        · rename_i j k hm
          simp only [Option.map_eq_some_iff] at h
          obtain ⟨r', hr', rfl⟩ := h
          refine List.Pairwise.cons ?_ (ih k hr')
          intro q hq _ hqr
          exact ((findRigidMatches_spec u v rest k hr').2 q hq hqr).2
    · rename_i hnr
      simp only [Option.map_eq_some_iff] at h
      obtain ⟨r', hr', rfl⟩ := h
      refine List.Pairwise.cons ?_ (ih i hr')
      intro q _ hp; exact absurd hp hnr

theorem findRigidMatchesRevAux_ordered (u v : List RE) : ∀ (ps : List BasePattern) (i : Nat)
    {ps' : List BasePattern}, i ≤ u.length → findRigidMatchesRevAux u v i ps = some ps' →
    ps'.Pairwise (fun p q => MatchOrder q p) := by
  intro ps
  induction ps with
  | nil => intro i ps' _ h; simp [findRigidMatchesRevAux] at h; subst h; exact List.Pairwise.nil
  | cons p rest ih =>
    intro i ps' hi h
    simp only [findRigidMatchesRevAux] at h
    split at h
    · split at h
      · cases h
      · split at h
        · cases h
        · rename_i j k hm
          simp only [Option.map_eq_some_iff] at h
          obtain ⟨r', hr', rfl⟩ := h
          obtain ⟨m1, m2, _⟩ := prevRigidMatch_sound hm
          have hj : j ≤ u.length := by omega
          refine List.Pairwise.cons ?_ (ih j hj hr')
          intro q hq hqr _
          exact ((findRigidMatchesRevAux_spec u v rest j hj hr').2 q hq hqr).2
    · rename_i hnr
      simp only [Option.map_eq_some_iff] at h
      obtain ⟨r', hr', rfl⟩ := h
      refine List.Pairwise.cons ?_ (ih i hi hr')
      intro q _ _ hp; exact absurd hp hnr

/-- with ordered, in-bounds rigid regions, every region after `set_flexible_regions` is a valid
    slice -/
theorem flex_regions_in_bounds {n : Nat} {ps : List BasePattern} (halt : FlexAlt ps) :
    ∀ (prevEnd : Nat), prevEnd ≤ n →
    (∀ q ∈ ps, q.isRigid = true → RegionOK n q ∧ prevEnd ≤ q.startMatch) →
    ps.Pairwise MatchOrder →
    ∀ p ∈ setFlexibleRegions n prevEnd ps, RegionOK n p := by
  induction halt with
  | single p hp =>
    intro prevEnd hpe _ _ x hx
    simp only [setFlexibleRegions, hp, Bool.false_eq_true, if_false, List.mem_singleton] at hx
    subst hx
    exact ⟨hpe, Nat.le_refl _⟩
  | cons2 p q rest hp hq _ ih =>
    intro prevEnd hpe hok hord x hx
    obtain ⟨⟨q1, q2⟩, q3⟩ := hok q (by simp) hq
    simp only [setFlexibleRegions, hp, hq, Bool.false_eq_true, if_false, if_true,
      List.mem_cons] at hx
    rcases hx with rfl | rfl | hx
    · exact ⟨q3, by simp [BasePattern.setMatch]; omega⟩
    · exact ⟨q1, q2⟩
    · rw [List.pairwise_cons, List.pairwise_cons] at hord
      obtain ⟨_, hqr, hrest⟩ := hord
      refine ih q.stopMatch q2 ?_ hrest x hx
      intro r hr hrr
      exact ⟨(hok r (List.mem_cons_of_mem _ (List.mem_cons_of_mem _ hr)) hrr).1, hqr r hr hq hrr⟩

theorem forward_regions_in_bounds {u v : List RE} {ps ps' : List BasePattern}
    (halt : ps = [] ∨ FlexAlt ps) (hf : findRigidMatches u v 0 ps = some ps') :
    ∀ p ∈ setFlexibleRegions u.length 0 ps', RegionOK u.length p := by
  obtain ⟨e1, e2⟩ := findRigidMatches_spec u v ps 0 hf
  rcases halt with rfl | halt
  · have : ps' = [] := by simpa using e1
    subst this; intro p hp; simp [setFlexibleRegions] at hp
  · exact flex_regions_in_bounds (halt.of_core e1) 0 (Nat.zero_le _)
      (fun q hq hr => ⟨⟨(e2 q hq hr).1.1, (e2 q hq hr).1.2.1⟩, Nat.zero_le _⟩)
      (findRigidMatches_ordered u v ps 0 hf)

theorem reverse_regions_in_bounds {u v : List RE} {ps ps' : List BasePattern}
    (halt : ps = [] ∨ FlexAlt ps) (hf : findRigidMatchesRev u v ps = some ps') :
    ∀ p ∈ setFlexibleRegions u.length 0 ps', RegionOK u.length p := by
  simp only [findRigidMatchesRev, Option.map_eq_some_iff] at hf
  obtain ⟨rs, hrs, rfl⟩ := hf
  obtain ⟨e1, e2⟩ := findRigidMatchesRevAux_spec u v ps.reverse u.length (Nat.le_refl _) hrs
  have e1' : rs.reverse.map BasePattern.core = ps.map BasePattern.core := by
    rw [List.map_reverse, e1, List.map_reverse, List.reverse_reverse]
  rcases halt with rfl | halt
  · have : rs = [] := by simpa using e1
    subst this; intro p hp; simp [setFlexibleRegions] at hp
  · refine flex_regions_in_bounds (halt.of_core e1') 0 (Nat.zero_le _) ?_ ?_
    · intro q hq hr
      have := (e2 q (List.mem_reverse.1 hq) hr).1
      exact ⟨⟨this.1, this.2.1⟩, Nat.zero_le _⟩
    · rw [List.pairwise_reverse]
      exact findRigidMatchesRevAux_ordered u v ps.reverse u.length (Nat.le_refl _) hrs

/-! the arguments with which `concat_inclusion` runs its two passes -/

/-- prefix step of `concat_inclusion` -/
def ciStep1 (u v : List RE) : Option (List RE × List RE × List BasePattern) :=
  match basePatterns v with
  | pat :: rest =>
    if pat.isRigid then
      if rigidPrefixMatch u v pat then
        some (u.drop pat.len, v.drop pat.len, shiftPatternStart rest pat.len)
      else none
    else some (u, v, basePatterns v)
  | [] => some (u, v, basePatterns v)

/-- suffix step of `concat_inclusion` -/
def ciStep2Args (u v : List RE) (p : List BasePattern) :
    Option (List RE × List RE × List BasePattern) :=
  match p.getLast? with
  | some pat =>
    if pat.isRigid then
      if rigidSuffixMatch u v pat then
        some (u.take (u.length - pat.len), v.take (v.length - pat.len), p.dropLast)
      else none
    else some (u, v, p)
  | none => some (u, v, p)

/-- `(u, v, patterns)` as they are when `find_rigid_matches` is called; `none` = already `false` -/
def ciArgs (u v : List RE) : Option (List RE × List RE × List BasePattern) :=
  match ciStep1 u v with
  | none => none
  | some (u, v, p) => ciStep2Args u v p

theorem ciStep2_eq (u v : List RE) (p : List BasePattern) :
    ciStep2 u v p =
      (match ciStep2Args u v p with
      | none => false
      | some (u, v, p) => ciCore u v p) := rfl

theorem concatInclusion_eq_ciArgs (u v : List RE) :
    concatInclusion u v =
      (match ciArgs u v with
      | none => false
      | some (u, v, p) => ciCore u v p) := by
  rw [concatInclusion_eq, ciArgs, ← ciStep1]
  cases ciStep1 u v with
  | none => rfl
  | some t =>
    obtain ⟨u1, v1, p1⟩ := t
    exact ciStep2_eq u1 v1 p1

theorem ciStep1_shape {u v u1 v1 : List RE} {p1 : List BasePattern}
    (h : ciStep1 u v = some (u1, v1, p1)) : AltFrom false p1 ∧ Tiles v1.length 0 p1 := by
  unfold ciStep1 at h
  have ht := basePatterns_tiles v
  obtain ⟨b, halt⟩ := basePatterns_alt v
  cases hb : basePatterns v with
  | nil =>
    rw [hb] at h ht
    simp only [Option.some.injEq, Prod.mk.injEq] at h
    obtain ⟨_, rfl, rfl⟩ := h
    exact ⟨trivial, ht⟩
  | cons pat rest =>
    rw [hb] at h ht halt
    simp only at h
    obtain ⟨a1, a2⟩ := halt
    obtain ⟨t1, t2, t3⟩ := ht
    by_cases hr : pat.isRigid = true
    · simp only [hr, if_true] at h
      by_cases hp : rigidPrefixMatch u v pat = true
      · simp only [hp, if_true, Option.some.injEq, Prod.mk.injEq] at h
        obtain ⟨_, rfl, rfl⟩ := h
        have hstop : pat.stop ≤ v.length := t3.le
        have hlen : pat.len = pat.stop := by simp [BasePattern.len, t1]
        refine ⟨?_, ?_⟩
        · apply shift_alt
          rw [← a1, hr] at a2; simpa using a2
        · have := shift_tiles (d := pat.len) (by omega) t3
          rw [hlen] at this ⊢
          simpa using this
      · simp [hp] at h
    · simp only [hr, Bool.false_eq_true, if_false, Option.some.injEq, Prod.mk.injEq] at h
      obtain ⟨_, rfl, rfl⟩ := h
      have hb' : b = false := by rw [← a1]; simpa using hr
      subst hb'
      exact ⟨⟨a1, a2⟩, ⟨t1, t2, t3⟩⟩

theorem ciStep2Args_shape {u v u2 v2 : List RE} {ps p2 : List BasePattern}
    (halt : AltFrom false ps) (ht : Tiles v.length 0 ps)
    (h : ciStep2Args u v ps = some (u2, v2, p2)) :
    (p2 = [] ∨ FlexAlt p2) ∧ Tiles v2.length 0 p2 := by
  unfold ciStep2Args at h
  cases hl : ps.getLast? with
  | none =>
    have : ps = [] := List.getLast?_eq_none_iff.1 hl
    subst this
    simp only [List.getLast?_nil, Option.some.injEq, Prod.mk.injEq] at h
    obtain ⟨_, rfl, rfl⟩ := h
    exact ⟨Or.inl rfl, ht⟩
  | some pat =>
    simp only [hl] at h
    by_cases hr : pat.isRigid = true
    · simp only [hr, if_true] at h
      by_cases hs : rigidSuffixMatch u v pat = true
      · simp only [hs, if_true, Option.some.injEq, Prod.mk.injEq] at h
        obtain ⟨_, rfl, rfl⟩ := h
        obtain ⟨l, rfl⟩ := List.getLast?_eq_some_iff.1 hl
        obtain ⟨t1, t2, t3⟩ := tiles_snoc ht
        have hlen : pat.len = v.length - pat.start := by simp [BasePattern.len, t3]
        simp only [List.dropLast_concat]
        refine ⟨?_, ?_⟩
        · apply flexAlt_of_alt l (alt_snoc halt)
          intro y hy
          obtain ⟨l', rfl⟩ := List.getLast?_eq_some_iff.1 hy
          have := alt_snoc2 (l := l') (y := y) (x := pat) (by simpa using halt)
          rw [hr] at this
          revert this
          cases y.isRigid <;> simp
        · have hv2 : (v.take (v.length - pat.len)).length = pat.start := by
            simp [hlen]; omega
          rw [hv2]; exact t1
      · simp [hs] at h
    · simp only [hr, Bool.false_eq_true, if_false, Option.some.injEq, Prod.mk.injEq] at h
      obtain ⟨_, rfl, rfl⟩ := h
      refine ⟨?_, ht⟩
      apply flexAlt_of_alt _ halt
      intro y hy
      rw [hl] at hy
      cases hy
      simpa using hr

/-- the pattern list on which `concat_inclusion` runs its passes is empty or alternates
    flexible/rigid/…/flexible, and tiles the remaining `v` -/
theorem ciArgs_shape {u v u' v' : List RE} {p : List BasePattern}
    (h : ciArgs u v = some (u', v', p)) : (p = [] ∨ FlexAlt p) ∧ Tiles v'.length 0 p := by
  unfold ciArgs at h
  cases h1 : ciStep1 u v with
  | none => rw [h1] at h; cases h
  | some t =>
    obtain ⟨u1, v1, p1⟩ := t
    rw [h1] at h
    obtain ⟨a, b⟩ := ciStep1_shape h1
    exact ciStep2Args_shape a b h

end RE
end Smt
