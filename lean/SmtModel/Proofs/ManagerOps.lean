/-
  Helper lemmas for Props/C07RefineOps.lean, part 1: the operations of Model/ManagerOps.lean that
  enumerate the derivative closure (`class_derivative`, `set_derivative`, `iter_derivatives`,
  `is_empty_re`) refine their pure counterparts of Model/Deriv.lean / Model/Closure.lean.

  Shape of every statement (`RPost`): the stateful run from `m` ends in a state `res.1` with the
  invariant, the table only appended to, and FOR EVERY LATER TABLE `T` the pure operation run
  under the id assignment `ordOf T` on the trees of the arguments either panics (only outside the
  domain of well-formed terms: an invalid class id) or returns the image of the stateful result
  under `treeD T` (ids ↦ trees).  The terms a search sorts are allocated while it runs, which is
  why the statement quantifies over the tables AFTER the run.

  The simulation: `treeD T` is injective on the ids of `T` (`treeD_inj`), so a `BfsQueue` of ids
  (membership by id) maps to the `BfsQueue` of trees (membership by structural equality).
-/
import SmtModel.Proofs.ManagerProg
import SmtModel.Proofs.Closure
import SmtModel.Model.ManagerOps

namespace Smt
namespace MgrOps
open Smt RE Node MgrInv MgrCons MgrSet MgrDeriv

/-! ### `treeD T` on valid ids -/

theorem treeD_inj {T : List Node} (h : TableOK T) {x y : Nat} (hx : x < T.length)
    (hy : y < T.length) (heq : treeD T x = treeD T y) : x = y := by
  have h1 := treeOf_treeD h hx
  have h2 := treeOf_treeD h hy
  rw [heq] at h1
  exact tree_inj h h1 h2

theorem lt_of_prefix {t T : List Node} (hp : t <+: T) {x : Nat} (hx : x < t.length) : x < T.length :=
  Nat.lt_of_lt_of_le hx hp.length_le

/-- the tree of a valid id of `m` is the same in every later table -/
theorem treeD_later {m : Mgr} {T : List Node} (hp : m.tbl <+: T) {e : Nat} {te : RE}
    (r : treeOf m.tbl e = some te) : treeD T e = te := treeD_eq (treeOf_prefix hp r)

theorem derivClass_eq {m : Mgr} {e : Nat} {te : RE} (r : treeOf m.tbl e = some te) :
    m.derivClass e = te.derivClass := by simp only [Mgr.derivClass, Mgr.toTree, r]

/-! ### one `cached_deriv` call -/

/-- what one `cached_deriv(e, cid)` call (from `m`, returning `d` in state `m'`) establishes -/
structure CStep (m : Mgr) (te : RE) (cid : ClassId) (m' : Mgr) (d : Nat) : Prop where
  inv : MgrDeriv.Inv m'
  ext : m.tbl <+: m'.tbl
  valid : d < m'.tbl.length
  rep : ∀ T, m'.tbl <+: T → TableOK T → ∀ c, te.derivClass.pickInClass cid = some c →
    treeOf T d = some (computeDeriv (ordOf T) te c)

/-- `cached_deriv(e, cid)` either panics — then the class id is invalid and the pure model panics
    too — or returns a term that is the pure derivative whenever the pure model does not panic -/
theorem cachedDerivM_cases {m : Mgr} (hI : MgrDeriv.Inv m) {e : Nat} {te : RE}
    (r : treeOf m.tbl e = some te) (cid : ClassId) :
    (m.cachedDerivM e cid = none ∧ te.derivClass.pickInClass cid = none) ∨
    ∃ m' d, m.cachedDerivM e cid = some (m', d) ∧ CStep m te cid m' d := by
  cases hpick : te.derivClass.pickInClass cid with
  | some c =>
    obtain ⟨m', d, hres, hp⟩ := cachedDerivM_some hI r hpick
    refine Or.inr ⟨m', d, hres, hp.inv, hp.ext, treeOf_lt hp.here, ?_⟩
    intro T hT hok c' hc'
    have hc2 : te.derivClass.pickInClass cid = some c' := hc'
    rw [hpick] at hc2
    cases hc2
    exact hp.rep T hT hok
  | none =>
    cases hget : m.cacheGet e cid with
    | none => exact Or.inl ⟨cachedDerivM_none r hpick hget, rfl⟩
    | some d =>
      obtain ⟨te', _, hT⟩ := hI.cache _ _ _ (cacheGet_mem hget)
      refine Or.inr ⟨m, d, by simp only [Mgr.cachedDerivM, hget], hI, List.prefix_refl _,
        treeOf_lt (hT _ (List.prefix_refl _) hI.ok), ?_⟩
      intro T _ _ c hc
      have hc2 : te.derivClass.pickInClass cid = some c := hc
      rw [hpick] at hc2
      cases hc2

theorem cachedDeriv_pick {ord : RE → Nat} {te : RE} {cid : ClassId} {c : Nat}
    (h : te.derivClass.pickInClass cid = some c) :
    cachedDeriv ord te cid = some (computeDeriv ord te c) := by simp [cachedDeriv, h]

theorem cachedDeriv_none {ord : RE → Nat} {te : RE} {cid : ClassId}
    (h : te.derivClass.pickInClass cid = none) : cachedDeriv ord te cid = none := by
  simp [cachedDeriv, h]

/-! ### all class derivatives of one term -/

/-- `classDerivs` over an explicit list of class ids -/
def pureDerivs (ord : RE → Nat) (te : RE) (cids : List ClassId) : Option (List (ClassId × RE)) :=
  cids.mapM (fun cid => (cachedDeriv ord te cid).map (fun d => (cid, d)))

theorem classDerivs_eq (ord : RE → Nat) (te : RE) :
    classDerivs ord te = pureDerivs ord te te.derivClass.classIds := rfl

theorem pureDerivs_nil (ord : RE → Nat) (te : RE) : pureDerivs ord te [] = some [] := rfl

theorem pureDerivs_cons (ord : RE → Nat) (te : RE) (cid : ClassId) (rest : List ClassId) :
    pureDerivs ord te (cid :: rest) =
      match cachedDeriv ord te cid with
      | none => none
      | some d => (pureDerivs ord te rest).map fun ds => (cid, d) :: ds := by
  unfold pureDerivs
  rw [List.mapM_cons]
  cases cachedDeriv ord te cid with
  | none => rfl
  | some d =>
    cases List.mapM (fun cid => (cachedDeriv ord te cid).map (fun d => (cid, d))) rest <;> rfl

/-- ids ↦ trees on a list of labelled derivatives -/
def mapDs (T : List Node) (ds : List (ClassId × Nat)) : List (ClassId × RE) :=
  ds.map fun d => (d.1, treeD T d.2)

/-- what the loop over the class ids establishes -/
structure DsPost (m : Mgr) (te : RE) (cids : List ClassId)
    (res : Mgr × Option (List (ClassId × Nat))) : Prop where
  inv : MgrDeriv.Inv res.1
  ext : m.tbl <+: res.1.tbl
  valid : ∀ ds, res.2 = some ds → ∀ d ∈ ds, d.2 < res.1.tbl.length
  rep : ∀ T, res.1.tbl <+: T → TableOK T →
    pureDerivs (ordOf T) te cids = none ∨
    ∃ ds, res.2 = some ds ∧ pureDerivs (ordOf T) te cids = some (mapDs T ds)

theorem classDerivsAux_post {e : Nat} {te : RE} : ∀ (cids : List ClassId) {m : Mgr}, MgrDeriv.Inv m →
    treeOf m.tbl e = some te → DsPost m te cids (Mgr.classDerivsAux e m cids) := by
  intro cids
  induction cids with
  | nil =>
    intro m hI _
    refine ⟨hI, List.prefix_refl _, ?_, fun T _ _ => Or.inr ⟨[], rfl, rfl⟩⟩
    intro ds h d hd
    cases h
    cases hd
  | cons cid rest ih =>
    intro m hI r
    rcases cachedDerivM_cases hI r cid with ⟨hnone, hp⟩ | ⟨m', d, hres, hs⟩
    · simp only [Mgr.classDerivsAux, hnone]
      refine ⟨hI, List.prefix_refl _, ?_, fun T _ _ => Or.inl ?_⟩
      · intro ds h; cases h
      · rw [pureDerivs_cons, cachedDeriv_none hp]
    · simp only [Mgr.classDerivsAux, hres]
      have ih := ih (m := m') hs.inv (treeOf_prefix hs.ext r)
      generalize Mgr.classDerivsAux e m' rest = r2 at ih ⊢
      refine ⟨ih.inv, List.IsPrefix.trans hs.ext ih.ext, ?_, ?_⟩
      · intro ds h x hx
        cases h2 : r2.2 with
        | none => rw [h2] at h; cases h
        | some ds' =>
          rw [h2] at h
          simp only [Option.map_some, Option.some.injEq] at h
          subst h
          rcases List.mem_cons.1 hx with rfl | hx
          · exact lt_of_prefix ih.ext hs.valid
          · exact ih.valid ds' h2 x hx
      · intro T hT hok
        rw [pureDerivs_cons]
        cases hpick : te.derivClass.pickInClass cid with
        | none => left; rw [cachedDeriv_none hpick]
        | some c =>
          have hd := hs.rep T (List.IsPrefix.trans ih.ext hT) hok c hpick
          rw [cachedDeriv_pick hpick]
          rcases ih.rep T hT hok with hn | ⟨ds, hds, hpure⟩
          · left; simp only [hn, Option.map_none]
          · right
            refine ⟨(cid, d) :: ds, by simp only [hds, Option.map_some], ?_⟩
            simp only [hpure, Option.map_some, mapDs, List.map_cons, treeD_eq hd]

/-- `classDerivsM` (all classes of the term, in `class_ids()` order) against `RE.classDerivs` -/
theorem classDerivsM_post {m : Mgr} (hI : MgrDeriv.Inv m) {e : Nat} {te : RE}
    (r : treeOf m.tbl e = some te) :
    DsPost m te te.derivClass.classIds (m.classDerivsM e) := by
  unfold Mgr.classDerivsM
  rw [derivClass_eq r]
  exact classDerivsAux_post _ hI r

/-! ### `BfsQueue` of ids ↦ `BfsQueue` of trees -/

theorem contains_map {T : List Node} (h : TableOK T) {all : List Nat} {x : Nat}
    (hall : ∀ y ∈ all, y < T.length) (hx : x < T.length) :
    (all.map (treeD T)).contains (treeD T x) = all.contains x := by
  rw [Bool.eq_iff_iff]
  simp only [List.contains_iff_mem, List.mem_map]
  constructor
  · rintro ⟨y, hy, heq⟩
    rw [← treeD_inj h (hall y hy) hx heq]; exact hy
  · intro hmem; exact ⟨x, hmem, rfl⟩

theorem bfsPushI_map {T : List Node} (h : TableOK T) {all : List Nat} {x : Nat}
    (hall : ∀ y ∈ all, y < T.length) (hx : x < T.length) :
    (Mgr.bfsPushI all x).map (treeD T) = bfsPush (all.map (treeD T)) (treeD T x) := by
  unfold Mgr.bfsPushI bfsPush
  rw [contains_map h hall hx]
  split <;> simp

theorem mem_bfsPushI {all : List Nat} {x y : Nat} :
    y ∈ Mgr.bfsPushI all x → y ∈ all ∨ y = x := by
  unfold Mgr.bfsPushI
  split
  · exact .inl
  · intro h; simpa using h

/-- pushing all class derivatives of one term, on ids -/
def pushAllI (all : List Nat) (ds : List (ClassId × Nat)) : List Nat :=
  ds.foldl (fun a d => Mgr.bfsPushI a d.2) all

theorem mem_pushAllI {ds : List (ClassId × Nat)} : ∀ {all : List Nat} {y : Nat},
    y ∈ pushAllI all ds → y ∈ all ∨ ∃ d ∈ ds, y = d.2 := by
  induction ds with
  | nil => intro all y h; exact .inl h
  | cons d ds ih =>
    intro all y h
    rcases ih (all := Mgr.bfsPushI all d.2) h with h | ⟨d', hd', rfl⟩
    · rcases mem_bfsPushI h with h | rfl
      · exact .inl h
      · exact .inr ⟨d, List.mem_cons_self .., rfl⟩
    · exact .inr ⟨d', List.mem_cons_of_mem _ hd', rfl⟩

theorem pushAllI_map {T : List Node} (h : TableOK T) {ds : List (ClassId × Nat)} :
    ∀ {all : List Nat}, (∀ y ∈ all, y < T.length) → (∀ d ∈ ds, d.2 < T.length) →
    (pushAllI all ds).map (treeD T) = pushAll (all.map (treeD T)) (mapDs T ds) := by
  induction ds with
  | nil => intro all _ _; rfl
  | cons d ds ih =>
    intro all hall hds
    have hd := hds d (List.mem_cons_self ..)
    show (pushAllI (Mgr.bfsPushI all d.2) ds).map (treeD T) = _
    rw [ih (all := Mgr.bfsPushI all d.2) ?_ (fun x hx => hds x (List.mem_cons_of_mem _ hx))]
    · rw [bfsPushI_map h hall hd]; rfl
    · intro y hy
      rcases mem_bfsPushI hy with hy | rfl
      · exact hall y hy
      · exact hd

/-! ### postcondition of a search -/

/-- from `m`, the stateful search returned `res`; `P T` is the pure search under `ordOf T` on the
    trees `T` gives to the arguments; `mp T` maps the result ids to trees -/
structure RPost {α β : Type} (m : Mgr) (res : Mgr × Res α) (mp : List Node → α → β)
    (P : List Node → Res β) : Prop where
  inv : MgrDeriv.Inv res.1
  ext : m.tbl <+: res.1.tbl
  rep : ∀ T, res.1.tbl <+: T → TableOK T → P T = .panic ∨ P T = res.2.map (mp T)

theorem RPost.trans {α β : Type} {m m1 : Mgr} {res : Mgr × Res α} {mp : List Node → α → β}
    {P : List Node → Res β} (hp : m.tbl <+: m1.tbl) (h : RPost m1 res mp P) : RPost m res mp P :=
  ⟨h.inv, List.IsPrefix.trans hp h.ext, h.rep⟩

theorem getElem?_map_treeD (T : List Node) (all : List Nat) (i : Nat) :
    (all.map (treeD T))[i]? = (all[i]?).map (treeD T) := by simp

/-! ### `iter_derivatives` -/

theorem iterLoopM_post : ∀ (fuel : Nat) {m : Mgr} {all : List Nat} {i : Nat}, MgrDeriv.Inv m →
    (∀ x ∈ all, x < m.tbl.length) →
    RPost m (Mgr.iterLoopM fuel m all i) (fun T l => l.map (treeD T))
      (fun T => iterLoop (ordOf T) fuel (all.map (treeD T)) i) ∧
    ∀ l, (Mgr.iterLoopM fuel m all i).2 = .ok l →
      ∀ x ∈ l, x < (Mgr.iterLoopM fuel m all i).1.tbl.length := by
  intro fuel
  induction fuel with
  | zero =>
    intro m all i hI _
    exact ⟨⟨hI, List.prefix_refl _, fun T _ _ => Or.inr rfl⟩, fun l h => by cases h⟩
  | succ fuel ih =>
    intro m all i hI hall
    cases hi : all[i]? with
    | none =>
      simp only [Mgr.iterLoopM, hi]
      refine ⟨⟨hI, List.prefix_refl _, fun T _ _ => Or.inr ?_⟩, ?_⟩
      · simp only [iterLoop, getElem?_map_treeD, hi, Option.map_none, Res.map]
      · intro l h; cases h; exact hall
    | some r =>
      have hr : r < m.tbl.length := hall r (List.mem_of_getElem? hi)
      obtain ⟨te, hte⟩ := tree_total hI.ok hr
      have hp := classDerivsM_post hI hte
      simp only [Mgr.iterLoopM, hi]
      generalize m.classDerivsM r = cd at hp ⊢
      obtain ⟨m1, dso⟩ := cd
      cases dso with
      | none =>
        simp only
        refine ⟨⟨hp.inv, hp.ext, fun T hT hok => Or.inl ?_⟩, fun l h => by cases h⟩
        simp only [iterLoop, getElem?_map_treeD, hi, Option.map_some, treeD_later
          (List.IsPrefix.trans hp.ext hT) hte]
        rcases hp.rep T hT hok with hn | ⟨ds, hds, _⟩
        · rw [classDerivs_eq, hn]
        · cases hds
      | some ds =>
        simp only
        have hds := hp.valid ds rfl
        have hall1 : ∀ x ∈ pushAllI all ds, x < m1.tbl.length := by
          intro x hx
          rcases mem_pushAllI hx with hx | ⟨d, hd, rfl⟩
          · exact lt_of_prefix hp.ext (hall x hx)
          · exact hds d hd
        obtain ⟨ih1, ih2⟩ := ih (m := m1) (all := pushAllI all ds) (i := i + 1) hp.inv hall1
        refine ⟨⟨ih1.inv, List.IsPrefix.trans hp.ext ih1.ext, ?_⟩, ih2⟩
        intro T hT hok
        have hT1 : m1.tbl <+: T := List.IsPrefix.trans ih1.ext hT
        simp only [iterLoop, getElem?_map_treeD, hi, Option.map_some,
          treeD_later (List.IsPrefix.trans hp.ext hT1) hte]
        rcases hp.rep T hT1 hok with hn | ⟨ds', hds', hpure⟩
        · left; rw [classDerivs_eq, hn]
        · cases hds'
          rw [classDerivs_eq, hpure]
          simp only
          have := ih1.rep T hT hok
          rw [pushAllI_map hok (fun y hy => lt_of_prefix (List.IsPrefix.trans hp.ext hT1) (hall y hy))
            (fun d hd => lt_of_prefix hT1 (hds d hd))] at this
          exact this

/-- `iter_derivatives(e)` -/
theorem iterDerivativesM_post (fuel : Nat) {m : Mgr} (hI : MgrDeriv.Inv m) {e : Nat} {te : RE}
    (r : treeOf m.tbl e = some te) :
    RPost m (m.iterDerivativesM fuel e) (fun T l => l.map (treeD T))
      (fun T => iterDerivatives (ordOf T) fuel te) ∧
    ∀ l, (m.iterDerivativesM fuel e).2 = .ok l →
      ∀ x ∈ l, x < (m.iterDerivativesM fuel e).1.tbl.length := by
  have hall : ∀ x ∈ [e], x < m.tbl.length := by
    intro x hx; rw [List.mem_singleton.1 hx]; exact treeOf_lt r
  obtain ⟨h1, h2⟩ := iterLoopM_post fuel (m := m) (all := [e]) (i := 0) hI hall
  refine ⟨⟨h1.inv, h1.ext, ?_⟩, h2⟩
  intro T hT hok
  have := h1.rep T hT hok
  simp only [List.map_cons, List.map_nil, treeD_later (List.IsPrefix.trans h1.ext hT) r] at this
  exact this

/-! ### `is_empty_re` -/

theorem isEmptyLoopM_post : ∀ (fuel : Nat) {m : Mgr} {all : List Nat} {i : Nat}, MgrDeriv.Inv m →
    (∀ x ∈ all, x < m.tbl.length) →
    RPost m (Mgr.isEmptyLoopM fuel m all i) (fun _ b => b)
      (fun T => isEmptyLoop (ordOf T) fuel (all.map (treeD T)) i) := by
  intro fuel
  induction fuel with
  | zero =>
    intro m all i hI _
    exact ⟨hI, List.prefix_refl _, fun T _ _ => Or.inr rfl⟩
  | succ fuel ih =>
    intro m all i hI hall
    cases hi : all[i]? with
    | none =>
      simp only [Mgr.isEmptyLoopM, hi]
      refine ⟨hI, List.prefix_refl _, fun T _ _ => Or.inr ?_⟩
      simp only [isEmptyLoop, getElem?_map_treeD, hi, Option.map_none, Res.map]
    | some r =>
      have hr : r < m.tbl.length := hall r (List.mem_of_getElem? hi)
      obtain ⟨te, hte⟩ := tree_total hI.ok hr
      have hp := classDerivsM_post hI hte
      simp only [Mgr.isEmptyLoopM, hi, rep_nullable hte]
      generalize m.classDerivsM r = cd at hp ⊢
      obtain ⟨m1, dso⟩ := cd
      cases dso with
      | none =>
        simp only
        refine ⟨hp.inv, hp.ext, fun T hT hok => Or.inl ?_⟩
        simp only [isEmptyLoop, getElem?_map_treeD, hi, Option.map_some, treeD_later
          (List.IsPrefix.trans hp.ext hT) hte]
        rcases hp.rep T hT hok with hn | ⟨ds, hds, _⟩
        · rw [classDerivs_eq, hn]
        · cases hds
      | some ds =>
        simp only
        have hds := hp.valid ds rfl
        by_cases hnl : te.nullable = true
        · simp only [hnl, if_true]
          refine ⟨hp.inv, hp.ext, ?_⟩
          intro T hT hok
          simp only [isEmptyLoop, getElem?_map_treeD, hi, Option.map_some,
            treeD_later (List.IsPrefix.trans hp.ext hT) hte]
          rcases hp.rep T hT hok with hn | ⟨ds', hds', hpure⟩
          · left; rw [classDerivs_eq, hn]
          · right; rw [classDerivs_eq, hpure]; simp only [hnl, if_true, Res.map]
        · simp only [hnl, Bool.false_eq_true, if_false]
          have hall1 : ∀ x ∈ pushAllI all ds, x < m1.tbl.length := by
            intro x hx
            rcases mem_pushAllI hx with hx | ⟨d, hd, rfl⟩
            · exact lt_of_prefix hp.ext (hall x hx)
            · exact hds d hd
          have ih1 := ih (m := m1) (all := pushAllI all ds) (i := i + 1) hp.inv hall1
          refine ⟨ih1.inv, List.IsPrefix.trans hp.ext ih1.ext, ?_⟩
          intro T hT hok
          have hT1 : m1.tbl <+: T := List.IsPrefix.trans ih1.ext hT
          simp only [isEmptyLoop, getElem?_map_treeD, hi, Option.map_some,
            treeD_later (List.IsPrefix.trans hp.ext hT1) hte]
          rcases hp.rep T hT1 hok with hn | ⟨ds', hds', hpure⟩
          · left; rw [classDerivs_eq, hn]
          · cases hds'
            rw [classDerivs_eq, hpure]
            simp only [hnl, Bool.false_eq_true, if_false]
            have := ih1.rep T hT hok
            rw [pushAllI_map hok
              (fun y hy => lt_of_prefix (List.IsPrefix.trans hp.ext hT1) (hall y hy))
              (fun d hd => lt_of_prefix hT1 (hds d hd))] at this
            exact this

/-- `is_empty_re(e)` -/
theorem isEmptyReM_post (fuel : Nat) {m : Mgr} (hI : MgrDeriv.Inv m) {e : Nat} {te : RE}
    (r : treeOf m.tbl e = some te) :
    RPost m (m.isEmptyReM fuel e) (fun _ b => b) (fun T => isEmptyRe (ordOf T) fuel te) := by
  have hall : ∀ x ∈ [e], x < m.tbl.length := by
    intro x hx; rw [List.mem_singleton.1 hx]; exact treeOf_lt r
  have h1 := isEmptyLoopM_post fuel (m := m) (all := [e]) (i := 0) hI hall
  refine ⟨h1.inv, h1.ext, ?_⟩
  intro T hT hok
  have := h1.rep T hT hok
  simp only [List.map_cons, List.map_nil, treeD_later (List.IsPrefix.trans h1.ext hT) r] at this
  exact this

/-! ### `class_derivative`, `set_derivative` (with their error and panic channels) -/

/-- `class_derivative_unchecked(e, cid)` = `cached_deriv`: restated with the pure function -/
theorem classDerivativeUncheckedM_cases {m : Mgr} (hI : MgrDeriv.Inv m) {e : Nat} {te : RE}
    (r : treeOf m.tbl e = some te) (cid : ClassId) :
    (m.classDerivativeUncheckedM e cid = none ∧ ∀ ord, classDerivativeUnchecked ord te cid = none) ∨
    ∃ m' d, m.classDerivativeUncheckedM e cid = some (m', d) ∧ MgrDeriv.Inv m' ∧ m.tbl <+: m'.tbl ∧
      d < m'.tbl.length ∧ ∀ T, m'.tbl <+: T → TableOK T →
        classDerivativeUnchecked (ordOf T) te cid = none ∨
        classDerivativeUnchecked (ordOf T) te cid = some (treeD T d) := by
  rcases cachedDerivM_cases hI r cid with ⟨h1, h2⟩ | ⟨m', d, h1, hs⟩
  · exact Or.inl ⟨h1, fun ord => cachedDeriv_none h2⟩
  · refine Or.inr ⟨m', d, h1, hs.inv, hs.ext, hs.valid, ?_⟩
    intro T hT hok
    cases hpick : te.derivClass.pickInClass cid with
    | none => exact Or.inl (cachedDeriv_none hpick)
    | some c =>
      right
      show cachedDeriv (ordOf T) te cid = _
      rw [cachedDeriv_pick hpick, treeD_eq (hs.rep T hT hok c hpick)]

end MgrOps
end Smt
