/-
  Termination of the derivative closure (C19), part 3: FINITENESS of the set of iterated
  derivatives for EVERY term (Brzozowski's theorem for this implementation's normal form).

  Technique: a potential function instead of an explicit description of the reachable terms.

    * `sz t`   — a size of the term (`sz (union l) = max`, `sz (concat a b) = sz a + sz b + 1`,
                 `sz (loop x ρ) = sz x * mR ρ + 1` with `mR ρ` the largest finite bound of `ρ`);
    * `pot t`  — a potential: an upper bound for the size of everything reachable from `t`
                 (`pot (concat a b) = max (pot a + sz b + 1) (pot b)`,
                  `pot (loop x ρ) = pot x + (size of mk_loop(x, ρ.shift)) + 1`, `pot (union l) = max`, …).

    1. `sz_le_pot`        : `sz t ≤ pot t`
    2. `pot_mkConcat`     : `pot (concat(a,b)) ≤ max B (max (pot a + sz b + 1) (pot b))` and
       `sz_mkConcat`      : `sz (concat(a,b)) ≤ sz a + sz b + 1` — through EVERY rewriting arm of
                            `ReManager::concat` (re-association and all loop merges: both measures
                            are invariant under re-bracketing, and every merge is non-increasing)
    3. `pot_deriv`        : `pot (computeDeriv ord t c) ≤ pot t`   (all `t`, `c`, and ANY `ord`), hence
       `sz_strDerivative_le`, `strDerivative_not_overflowed`: sizes and loop counters of all
                            iterated derivatives are bounded by `pot e`, whatever the ids
    4. `Shape A t`        : `t` is built over the finite set `A` of sub-terms of the start term by
                            the constructors, every n-ary node outside `A` duplicate-free and flat;
                            preserved by `computeDeriv` for an INJECTIVE `ord` (`shape_deriv`)
    5. `univ A n`         : the finite list of all `t` with `Shape A t` and `sz t ≤ n`
                            (`mem_univ`)
    6. `derivBounded_all` : every iterated derivative of `e` lies in `univ (sigma :: subs e) (pot e)`.
-/
import SmtModel.Proofs.TerminationFrag

namespace Smt
namespace RE
namespace Gen

variable {ord : RE → Nat}

/-! ### loop ranges: the largest finite bound -/

/-- the largest finite bound of a range, at least 1 -/
def mR (ρ : LoopRange) : Nat :=
  match ρ.stop with
  | some j => max 1 (max ρ.start j)
  | none => max 1 ρ.start

/-- size of `mk_loop(x, ρ)` for a body of size `s` (`ρ = [1,1]` gives the body itself) -/
def sL (s : Nat) (ρ : LoopRange) : Nat := if ρ.isOne then s else s * mR ρ + 1

theorem mR_pos (ρ : LoopRange) : 1 ≤ mR ρ := by
  unfold mR; split <;> omega

theorem start_le_mR (ρ : LoopRange) : ρ.start ≤ mR ρ := by
  unfold mR; split <;> omega

theorem stop_le_mR {ρ : LoopRange} {j : Nat} (h : ρ.stop = some j) : j ≤ mR ρ := by
  unfold mR; rw [h]; simp only; omega

theorem mR_of_isOne {ρ : LoopRange} (h : ρ.isOne = true) : mR ρ = 1 := by
  obtain ⟨i, s⟩ := ρ
  simp only [LoopRange.isOne, Bool.and_eq_true, beq_iff_eq] at h
  obtain ⟨h1, h2⟩ := h
  subst h1; subst h2
  simp [mR]

theorem mul_mR_le_sL (s : Nat) (ρ : LoopRange) : s * mR ρ ≤ sL s ρ := by
  unfold sL
  split
  · rename_i h; rw [mR_of_isOne h]; omega
  · omega

theorem sL_le (s : Nat) (ρ : LoopRange) : sL s ρ ≤ s * mR ρ + 1 := by
  unfold sL
  split
  · rename_i h; rw [mR_of_isOne h]; omega
  · omega

theorem sL_pos {s : Nat} (hs : 1 ≤ s) (ρ : LoopRange) : 1 ≤ sL s ρ := by
  unfold sL; split <;> omega

theorem shift_addPoint (σ : LoopRange) : (σ.addPointN 1).shift = σ := by
  obtain ⟨i, s⟩ := σ
  cases s with
  | none => simp [LoopRange.addPointN, LoopRange.addN, LoopRange.point, LoopRange.finite,
      LoopRange.infinite, LoopRange.shift]
  | some j => simp [LoopRange.addPointN, LoopRange.addN, LoopRange.point, LoopRange.finite,
      LoopRange.shift]

theorem mR_addPoint (σ : LoopRange) : mR (σ.addPointN 1) ≤ mR σ + 1 := by
  obtain ⟨i, s⟩ := σ
  cases s with
  | none => simp [LoopRange.addPointN, LoopRange.addN, LoopRange.point, LoopRange.finite,
      LoopRange.infinite, mR]
  | some j =>
    simp [LoopRange.addPointN, LoopRange.addN, LoopRange.point, LoopRange.finite, mR]

theorem mR_addN (ρ σ : LoopRange) : mR (ρ.addN σ) ≤ mR ρ + mR σ := by
  obtain ⟨i, s⟩ := ρ
  obtain ⟨i', s'⟩ := σ
  cases s <;> cases s' <;>
    simp [LoopRange.addN, LoopRange.finite, LoopRange.infinite, mR] <;> omega

theorem mR_shift_le (ρ : LoopRange) : mR ρ.shift ≤ mR ρ := by
  obtain ⟨i, s⟩ := ρ
  cases i with
  | zero =>
    cases s with
    | none => simp [LoopRange.shift, LoopRange.infinite, mR]
    | some j =>
      cases j with
      | zero => simp [LoopRange.shift, LoopRange.point, LoopRange.finite, mR]
      | succ j => simp [LoopRange.shift, LoopRange.finite, mR]
  | succ i =>
    cases s with
    | none => simp [LoopRange.shift, LoopRange.infinite, mR]
    | some j => simp [LoopRange.shift, LoopRange.finite, mR]; omega

theorem mR_le_shift (ρ : LoopRange) : mR ρ ≤ mR ρ.shift + 1 := by
  obtain ⟨i, s⟩ := ρ
  cases i with
  | zero =>
    cases s with
    | none => simp [LoopRange.shift, LoopRange.infinite, mR]
    | some j =>
      cases j with
      | zero => simp [LoopRange.shift, LoopRange.point, LoopRange.finite, mR]
      | succ j => simp [LoopRange.shift, LoopRange.finite, mR]
  | succ i =>
    cases s with
    | none => simp [LoopRange.shift, LoopRange.infinite, mR]
    | some j => simp [LoopRange.shift, LoopRange.finite, mR]; omega

theorem mR_addN_shift (ρ σ : LoopRange) : mR (ρ.addN σ).shift ≤ mR ρ.shift + mR σ := by
  obtain ⟨i, s⟩ := ρ
  obtain ⟨i', s'⟩ := σ
  have key : ∀ (a : Nat) (t : Option Nat), mR (LoopRange.shift ⟨a, t⟩) =
      match t with
      | none => max 1 (a - 1)
      | some j => max 1 (max (a - 1) (j - 1)) := by
    intro a t
    cases a with
    | zero =>
      cases t with
      | none => simp [LoopRange.shift, LoopRange.infinite, mR]
      | some j =>
        cases j with
        | zero => simp [LoopRange.shift, LoopRange.point, LoopRange.finite, mR]
        | succ j => simp [LoopRange.shift, LoopRange.finite, mR]
    | succ a =>
      cases t with
      | none => simp [LoopRange.shift, LoopRange.infinite, mR]
      | some j => simp [LoopRange.shift, LoopRange.finite, mR]
  cases s <;> cases s' <;>
    simp only [LoopRange.addN, LoopRange.finite, LoopRange.infinite, key] <;>
    simp only [mR] <;> omega

theorem mR_mulN (σ ρ : LoopRange) : mR (σ.mulN ρ) ≤ mR σ * mR ρ := by
  have h1 := mR_pos σ
  have h2 := mR_pos ρ
  have h3 := start_le_mR σ
  have h4 := start_le_mR ρ
  have hone : 1 ≤ mR σ * mR ρ := Nat.mul_le_mul h1 h2
  have hst : σ.start * ρ.start ≤ mR σ * mR ρ := Nat.mul_le_mul h3 h4
  have hstop : ∀ a b, σ.stop = some a → ρ.stop = some b → a * b ≤ mR σ * mR ρ :=
    fun a b ha hb => Nat.mul_le_mul (stop_le_mR ha) (stop_le_mR hb)
  generalize mR σ * mR ρ = M at hone hst hstop
  unfold LoopRange.mulN
  split
  · simp only [LoopRange.point, LoopRange.finite, mR]; omega
  · split
    · rename_i a b ha hb
      have := hstop a b ha hb
      simp only [LoopRange.finite, mR]
      omega
    · simp only [LoopRange.infinite, mR]
      omega

theorem sL_shift_step (s : Nat) (ρ : LoopRange) : sL s ρ ≤ sL s ρ.shift + s + 1 := by
  have h1 := sL_le s ρ
  have h2 := mul_mR_le_sL s ρ.shift
  have h3 := mR_le_shift ρ
  have : s * mR ρ ≤ s * mR ρ.shift + s := by
    calc s * mR ρ ≤ s * (mR ρ.shift + 1) := Nat.mul_le_mul_left _ h3
      _ = s * mR ρ.shift + s := by rw [Nat.mul_add, Nat.mul_one]
  omega

theorem sL_shift_le {s : Nat} {ρ : LoopRange} (h : ρ.isOne = false) : sL s ρ.shift ≤ sL s ρ := by
  have h1 := sL_le s ρ.shift
  have h3 := mR_shift_le ρ
  have : s * mR ρ.shift ≤ s * mR ρ := Nat.mul_le_mul_left _ h3
  unfold sL at *
  rw [h]
  simp only [Bool.false_eq_true, if_false]
  omega

theorem point2_shift_isOne : (LoopRange.point 2).shift.isOne = true := by decide
theorem mR_point2 : mR (LoopRange.point 2) = 2 := by decide

/-! ### size and potential -/

mutual
/-- size; a union counts as its largest member -/
def sz : RE → Nat
  | .empty => 1
  | .epsilon => 1
  | .range _ => 1
  | .concat a b => sz a + sz b + 1
  | .loop x ρ => sz x * mR ρ + 1
  | .compl x => sz x + 1
  | .union l => max 1 (szL l)
  | .inter l => szL l + 1
def szL : List RE → Nat
  | [] => 0
  | x :: xs => max (sz x) (szL xs)
end

/-- potential of the built-in `Σ*`, `Σ⁺` -/
def B : Nat := 4

mutual
/-- potential: bounds the size of every iterated derivative -/
def pot : RE → Nat
  | .empty => 1
  | .epsilon => 1
  | .range _ => 1
  | .concat a b => max B (max (pot a + sz b + 1) (pot b))
  | .loop x ρ => max B (pot x + sL (sz x) ρ.shift + 1)
  | .compl x => max B (pot x + 1)
  | .union l => max B (potL l)
  | .inter l => max B (potL l + 1)
def potL : List RE → Nat
  | [] => 1
  | x :: xs => max (pot x) (potL xs)
end

theorem szL_le_iff (l : List RE) (K : Nat) : szL l ≤ K ↔ ∀ x ∈ l, sz x ≤ K := by
  induction l with
  | nil => simp [szL]
  | cons x xs ih =>
    simp only [szL, List.mem_cons, forall_eq_or_imp]
    rw [← ih]; omega

theorem potL_le_iff (l : List RE) (K : Nat) : potL l ≤ K ↔ 1 ≤ K ∧ ∀ x ∈ l, pot x ≤ K := by
  induction l with
  | nil => simp [potL]
  | cons x xs ih =>
    simp only [potL, List.mem_cons, forall_eq_or_imp]
    rw [Nat.max_le, ih]
    constructor
    · rintro ⟨h1, h2, h3⟩; exact ⟨h2, h1, h3⟩
    · rintro ⟨h1, h2, h3⟩; exact ⟨h2, h1, h3⟩

theorem pot_le_potL {l : List RE} {x : RE} (h : x ∈ l) : pot x ≤ potL l :=
  ((potL_le_iff l _).1 (Nat.le_refl _)).2 x h

theorem one_le_potL (l : List RE) : 1 ≤ potL l := ((potL_le_iff l _).1 (Nat.le_refl _)).1

theorem sz_le_szL {l : List RE} {x : RE} (h : x ∈ l) : sz x ≤ szL l :=
  (szL_le_iff l _).1 (Nat.le_refl _) x h

mutual
theorem sz_pos : ∀ t : RE, 1 ≤ sz t
  | .empty => by simp [sz]
  | .epsilon => by simp [sz]
  | .range _ => by simp [sz]
  | .concat a b => by simp [sz]
  | .loop x ρ => by simp [sz]
  | .compl x => by simp [sz]
  | .union l => by simp [sz]
  | .inter l => by simp [sz]
end

theorem pot_pos (t : RE) : 1 ≤ pot t := by
  cases t <;> simp [pot, B]

mutual
theorem sz_le_pot : ∀ t : RE, sz t ≤ pot t
  | .empty => by simp [sz, pot]
  | .epsilon => by simp [sz, pot]
  | .range _ => by simp [sz, pot]
  | .concat a b => by
    have := sz_le_pot a
    simp only [sz, pot]; omega
  | .loop x ρ => by
    have h1 := sz_le_pot x
    have h2 := mul_mR_le_sL (sz x) ρ.shift
    have h3 : sz x * mR ρ ≤ sz x * mR ρ.shift + sz x := by
      calc sz x * mR ρ ≤ sz x * (mR ρ.shift + 1) := Nat.mul_le_mul_left _ (mR_le_shift ρ)
        _ = sz x * mR ρ.shift + sz x := by rw [Nat.mul_add, Nat.mul_one]
    simp only [sz, pot]
    omega
  | .compl x => by
    have := sz_le_pot x
    simp only [sz, pot]; omega
  | .union l => by
    have := szL_le_potL l
    have := one_le_potL l
    simp only [sz, pot]; omega
  | .inter l => by
    have := szL_le_potL l
    simp only [sz, pot]; omega
theorem szL_le_potL : ∀ l : List RE, szL l ≤ potL l
  | [] => by simp [szL]
  | x :: xs => by
    have := sz_le_pot x
    have := szL_le_potL xs
    simp only [szL, potL]; omega
end

/-! ### `concat`: both measures are sub-additive through every rewriting arm -/

/-- the results of arms 1–8 of `ReManager::concat` -/
theorem concatPre_some {e1 e2 r : RE} (hpre : concatPre e1 e2 = some r) :
    r = .empty ∨ (e1 = .epsilon ∧ r = e2) ∨ (e2 = .epsilon ∧ r = e1) ∨
    (∃ σ, e2 = .loop e1 σ ∧ r = .loop e1 (σ.addPointN 1)) ∨
    (∃ ρ, e1 = .loop e2 ρ ∧ r = .loop e2 (ρ.addPointN 1)) ∨
    (∃ x ρ σ, e1 = .loop x ρ ∧ e2 = .loop x σ ∧ r = .loop x (ρ.addN σ)) ∨
    (e1 = e2 ∧ r = .loop e1 (LoopRange.point 2)) := by
  unfold concatPre at hpre
  split at hpre
  · cases hpre; left; rfl
  · cases hpre; left; rfl
  · cases hpre; right; left; exact ⟨rfl, rfl⟩
  · cases hpre; right; right; left; exact ⟨rfl, rfl⟩
  · split at hpre
    · rename_i r' heq
      cases hpre
      split at heq
      · rename_i y rng
        split at heq
        · rename_i hxy
          cases heq
          subst hxy
          right; right; right; left
          exact ⟨_, rfl, rfl⟩
        · cases heq
      · cases heq
    · split at hpre
      · rename_i r' heq
        cases hpre
        split at heq
        · rename_i x rng
          split at heq
          · rename_i hxy
            cases heq
            subst hxy
            right; right; right; right; left
            exact ⟨_, rfl, rfl⟩
          · cases heq
        · cases heq
      · split at hpre
        · rename_i r' heq
          cases hpre
          split at heq
          · rename_i x xr y yr
            split at heq
            · rename_i hxy
              cases heq
              subst hxy
              right; right; right; right; right; left
              exact ⟨_, _, _, rfl, rfl, rfl⟩
            · cases heq
          · cases heq
        · split at hpre
          · rename_i hab
            cases hpre
            subst hab
            right; right; right; right; right; right
            exact ⟨rfl, rfl⟩
          · cases hpre

theorem pre_bounds {e1 e2 r : RE} (hpre : concatPre e1 e2 = some r) :
    sz r ≤ sz e1 + sz e2 + 1 ∧ pot r ≤ max B (max (pot e1 + sz e2 + 1) (pot e2)) := by
  have p1 := sz_pos e1
  have p2 := sz_pos e2
  rcases concatPre_some hpre with rfl | ⟨rfl, rfl⟩ | ⟨rfl, rfl⟩ | ⟨σ, rfl, rfl⟩ | ⟨ρ, rfl, rfl⟩ |
    ⟨x, ρ, σ, rfl, rfl, rfl⟩ | ⟨rfl, rfl⟩
  · simp only [sz, pot, B]; omega
  · omega
  · omega
  · -- R · R^σ
    have h1 : sz e1 * mR (σ.addPointN 1) ≤ sz e1 * mR σ + sz e1 := by
      calc sz e1 * mR (σ.addPointN 1) ≤ sz e1 * (mR σ + 1) := Nat.mul_le_mul_left _ (mR_addPoint σ)
        _ = sz e1 * mR σ + sz e1 := by rw [Nat.mul_add, Nat.mul_one]
    have h2 := sL_le (sz e1) σ
    simp only [sz, pot, shift_addPoint]
    omega
  · -- R^ρ · R
    have h1 : sz e2 * mR (ρ.addPointN 1) ≤ sz e2 * mR ρ + sz e2 := by
      calc sz e2 * mR (ρ.addPointN 1) ≤ sz e2 * (mR ρ + 1) := Nat.mul_le_mul_left _ (mR_addPoint ρ)
        _ = sz e2 * mR ρ + sz e2 := by rw [Nat.mul_add, Nat.mul_one]
    have h2 := sL_shift_step (sz e2) ρ
    simp only [sz, pot, shift_addPoint]
    omega
  · -- R^ρ · R^σ
    have h1 : sz x * mR (ρ.addN σ) ≤ sz x * mR ρ + sz x * mR σ := by
      calc sz x * mR (ρ.addN σ) ≤ sz x * (mR ρ + mR σ) := Nat.mul_le_mul_left _ (mR_addN ρ σ)
        _ = sz x * mR ρ + sz x * mR σ := by rw [Nat.mul_add]
    have h2 := sL_le (sz x) (ρ.addN σ).shift
    have h3 : sz x * mR (ρ.addN σ).shift ≤ sz x * mR ρ.shift + sz x * mR σ := by
      calc sz x * mR (ρ.addN σ).shift ≤ sz x * (mR ρ.shift + mR σ) :=
            Nat.mul_le_mul_left _ (mR_addN_shift ρ σ)
        _ = sz x * mR ρ.shift + sz x * mR σ := by rw [Nat.mul_add]
    have h4 := mul_mR_le_sL (sz x) ρ.shift
    simp only [sz, pot]
    omega
  · -- R · R
    have h1 : sL (sz e1) (LoopRange.point 2).shift = sz e1 := by
      unfold sL; rw [point2_shift_isOne]; simp
    simp only [sz, pot, mR_point2, h1]
    omega

/-- **`concat` is sub-additive for size and potential** (every arm, including the
    re-association `(R·S)·T → R·(S·T)` and all loop merges) -/
theorem mkConcat_bounds (a b : RE) :
    sz (mkConcat a b) ≤ sz a + sz b + 1 ∧
      pot (mkConcat a b) ≤ max B (max (pot a + sz b + 1) (pot b)) := by
  fun_induction mkConcat a b with
  | case1 x y e2 r hpre => exact pre_bounds hpre
  | case2 x y e2 hpre ih2 ih1 =>
    obtain ⟨s2, q2⟩ := ih2
    obtain ⟨s1, q1⟩ := ih1
    simp only [sz, pot] at *
    omega
  | case3 e1 e2 hn r hpre => exact pre_bounds hpre
  | case4 e1 e2 hn hpre =>
    unfold concatBase
    split
    · have := sz_pos e1
      omega
    · simp only [sz, pot]
      omega

theorem sz_mkConcat (a b : RE) : sz (mkConcat a b) ≤ sz a + sz b + 1 := (mkConcat_bounds a b).1
theorem pot_mkConcat (a b : RE) :
    pot (mkConcat a b) ≤ max B (max (pot a + sz b + 1) (pot b)) := (mkConcat_bounds a b).2

/-! ### `mk_loop`, `complement` -/

theorem sz_mkLoop (x : RE) (ρ : LoopRange) : sz (mkLoop x ρ) ≤ sL (sz x) ρ := by
  have hp := sz_pos x
  have hsl := sL_pos hp ρ
  unfold mkLoop
  split
  · simpa [sz] using hsl
  · split
    · rename_i h1; unfold sL; rw [h1]; simp
    · rename_i h0 h1
      have hsL : sL (sz x) ρ = sz x * mR ρ + 1 := by
        unfold sL; simp [h1]
      split
      · split <;> simpa [sz] using hsl
      · simpa [sz] using hsl
      · rename_i y xr
        split
        · rw [hsL]
          have h2 : sz y * mR (xr.mulN ρ) ≤ sz y * mR xr * mR ρ := by
            calc sz y * mR (xr.mulN ρ) ≤ sz y * (mR xr * mR ρ) :=
                  Nat.mul_le_mul_left _ (mR_mulN xr ρ)
              _ = sz y * mR xr * mR ρ := by rw [Nat.mul_assoc]
          have h3 : (sz y * mR xr + 1) * mR ρ = sz y * mR xr * mR ρ + mR ρ := by
            rw [Nat.add_mul, Nat.one_mul]
          simp only [sz, h3]
          omega
        · rw [hsL]; simp [sz]
      · rw [hsL]; simp [sz]

theorem pot_mkLoop (x : RE) (ρ : LoopRange) :
    pot (mkLoop x ρ) ≤ max B (pot x + sL (sz x) ρ + 1) := by
  unfold mkLoop
  split
  · simp [pot, B]
  · split
    · omega
    · rename_i h0 h1
      have h1' : ρ.isOne = false := by simpa using h1
      have hsh := sL_shift_le (s := sz x) h1'
      split
      · split <;> simp [pot, B]
      · simp [pot, B]
      · rename_i y xr
        split
        · have hsL : sL (sz (RE.loop y xr)) ρ = (sz y * mR xr + 1) * mR ρ + 1 := by
            unfold sL; simp [h1', sz]
          have h2 : sz y * mR (xr.mulN ρ) ≤ sz y * mR xr * mR ρ := by
            calc sz y * mR (xr.mulN ρ) ≤ sz y * (mR xr * mR ρ) :=
                  Nat.mul_le_mul_left _ (mR_mulN xr ρ)
              _ = sz y * mR xr * mR ρ := by rw [Nat.mul_assoc]
          have h3 : (sz y * mR xr + 1) * mR ρ = sz y * mR xr * mR ρ + mR ρ := by
            rw [Nat.add_mul, Nat.one_mul]
          have h4 := sL_le (sz y) (xr.mulN ρ).shift
          have h5 : sz y * mR (xr.mulN ρ).shift ≤ sz y * mR (xr.mulN ρ) :=
            Nat.mul_le_mul_left _ (mR_shift_le _)
          rw [hsL, h3]
          simp only [pot]
          omega
        · simp only [pot]
          omega
      · simp only [pot]
        omega

theorem pot_sigmaStar : pot sigmaStar = B := by decide
theorem pot_sigmaPlus : pot sigmaPlus = B := by decide

theorem pot_complement (x : RE) : pot x.complement ≤ max B (pot x + 1) := by
  unfold complement
  split
  · rw [pot_sigmaStar]; omega
  · rw [pot_sigmaPlus]; omega
  · simp only [pot]; omega
  · split
    · simp [pot, B]
    · split
      · simp [pot, B]
      · simp only [pot]; omega

/-! ### n-ary unions and intersections (no hypothesis on the id assignment) -/

/-- the result of `simplify_set_operation` is `[top]` or a list of operands — for ANY `ord` -/
theorem simplifySetOperation_mem (v : List RE) (bottom top : RE) :
    simplifySetOperation ord v bottom top = [top] ∨
      ∀ x ∈ simplifySetOperation ord v bottom top, x ∈ v := by
  have hs := mem_dedup_sort ord v
  unfold simplifySetOperation
  generalize dedup (sortByOrd ord v) = s at hs
  cases s with
  | nil => right; simp
  | cons v0 rest =>
    simp only
    split
    · left; rfl
    · cases hl : simplifyLoop ord bottom v0 rest with
      | none => left; rfl
      | some l =>
        right
        have hsub := simplifyLoop_sublist ord bottom rest v0 l hl
        simp only
        split
        · exact fun x hx => (hs x).1 ((List.Sublist.cons_cons v0 hsub).subset hx)
        · exact fun x hx => (hs x).1 ((List.Sublist.cons v0 hsub).subset hx)

/-- shape of `make_union` for ANY id assignment: `∅`, `Σ*`, an operand or a list of operands -/
theorem makeUnion_mem_cases (v : List RE) :
    makeUnion ord v = .empty ∨ makeUnion ord v = sigmaStar ∨ makeUnion ord v ∈ v ∨
    ∃ w, (∀ x ∈ w, x ∈ v) ∧ makeUnion ord v = .union w := by
  unfold makeUnion
  rcases simplifySetOperation_mem (ord := ord) v .empty sigmaStar with h | hsub
  · rw [h]; simp
  · generalize simplifySetOperation ord v .empty sigmaStar = s at hsub
    simp only
    have hsub' : ∀ x ∈ (if s.length ≥ 2 then removeSubsumed s else s), x ∈ v := by
      intro x hx
      split at hx
      · exact hsub x ((removeSubsumed_sublist s).subset hx)
      · exact hsub x hx
    generalize (if s.length ≥ 2 then removeSubsumed s else s) = s' at hsub'
    match s' with
    | [] => left; rfl
    | [x] => right; right; left; exact hsub' x (by simp)
    | x :: y :: r => right; right; right; exact ⟨_, hsub', rfl⟩

/-- shape of `make_inter` for ANY id assignment -/
theorem makeInter_mem_cases (v : List RE) :
    makeInter ord v = .empty ∨ makeInter ord v = .epsilon ∨ makeInter ord v = sigmaStar ∨
    makeInter ord v ∈ v ∨ ∃ w, (∀ x ∈ w, x ∈ v) ∧ makeInter ord v = .inter w := by
  unfold makeInter
  rcases simplifySetOperation_mem (ord := ord) v sigmaStar .empty with h | hsub
  · rw [h]
    simp only
    split
    · split <;> simp
    · simp
  · generalize simplifySetOperation ord v sigmaStar .empty = s at hsub
    simp only
    split
    · split <;> simp
    · match s with
      | [] => simp
      | [x] => right; right; right; left; exact hsub x (by simp)
      | x :: y :: r => right; right; right; right; exact ⟨_, hsub, rfl⟩

theorem pot_makeUnion (v : List RE) : pot (makeUnion ord v) ≤ max B (potL v) := by
  rcases makeUnion_mem_cases (ord := ord) v with h | h | h | ⟨w, hsub, h⟩
  · rw [h]; simp [pot, B]
  · rw [h, pot_sigmaStar]; omega
  · have := pot_le_potL h; omega
  · rw [h]
    simp only [pot]
    have : potL w ≤ potL v :=
      (potL_le_iff w _).2 ⟨one_le_potL v, fun x hx => pot_le_potL (hsub x hx)⟩
    omega

theorem pot_makeInter (v : List RE) : pot (makeInter ord v) ≤ max B (potL v + 1) := by
  rcases makeInter_mem_cases (ord := ord) v with h | h | h | h | ⟨w, hsub, h⟩
  · rw [h]; simp [pot, B]
  · rw [h]; simp [pot, B]
  · rw [h, pot_sigmaStar]; omega
  · have := pot_le_potL h; omega
  · rw [h]
    simp only [pot]
    have : potL w ≤ potL v :=
      (potL_le_iff w _).2 ⟨one_le_potL v, fun x hx => pot_le_potL (hsub x hx)⟩
    omega

theorem potL_flatMap_le {l : List RE} {f : RE → List RE} {K : Nat} (hK : 1 ≤ K)
    (h : ∀ x ∈ l, potL (f x) ≤ K) : potL (l.flatMap f) ≤ K := by
  rw [potL_le_iff]
  refine ⟨hK, fun y hy => ?_⟩
  rw [List.mem_flatMap] at hy
  obtain ⟨x, hx, hyx⟩ := hy
  exact Nat.le_trans (pot_le_potL hyx) (h x hx)

mutual
theorem potL_flattenUnion : ∀ t : RE, potL (flattenUnion t) ≤ pot t
  | .empty => by simp [flattenUnion, potL, pot]
  | .epsilon => by simp [flattenUnion, potL, pot]
  | .range _ => by simp [flattenUnion, potL, pot]
  | .concat a b => by
    have := pot_pos (.concat a b)
    simp only [flattenUnion, potL]; omega
  | .loop x ρ => by
    have := pot_pos (.loop x ρ)
    simp only [flattenUnion, potL]; omega
  | .compl x => by
    have := pot_pos (.compl x)
    simp only [flattenUnion, potL]; omega
  | .inter l => by
    have := pot_pos (.inter l)
    simp only [flattenUnion, potL]; omega
  | .union l => by
    have := potL_flattenUnionList l
    simp only [flattenUnion, pot]; omega
theorem potL_flattenUnionList : ∀ l : List RE, potL (flattenUnionList l) ≤ potL l
  | [] => by simp [flattenUnionList]
  | x :: xs => by
    have h1 := potL_flattenUnion x
    have h2 := potL_flattenUnionList xs
    simp only [flattenUnionList]
    rw [potL_le_iff]
    refine ⟨one_le_potL _, fun y hy => ?_⟩
    simp only [potL]
    rcases List.mem_append.1 hy with h | h
    · have := pot_le_potL h; omega
    · have := pot_le_potL h; omega
end

mutual
theorem potL_flattenInter : ∀ t : RE, potL (flattenInter t) ≤ pot t
  | .empty => by simp [flattenInter, potL, pot]
  | .epsilon => by simp [flattenInter, potL, pot]
  | .range _ => by simp [flattenInter, potL, pot]
  | .concat a b => by
    have := pot_pos (.concat a b)
    simp only [flattenInter, potL]; omega
  | .loop x ρ => by
    have := pot_pos (.loop x ρ)
    simp only [flattenInter, potL]; omega
  | .compl x => by
    have := pot_pos (.compl x)
    simp only [flattenInter, potL]; omega
  | .union l => by
    have := pot_pos (.union l)
    simp only [flattenInter, potL]; omega
  | .inter l => by
    have := potL_flattenInterList l
    simp only [flattenInter, pot]; omega
theorem potL_flattenInterList : ∀ l : List RE, potL (flattenInterList l) ≤ potL l
  | [] => by simp [flattenInterList]
  | x :: xs => by
    have h1 := potL_flattenInter x
    have h2 := potL_flattenInterList xs
    simp only [flattenInterList]
    rw [potL_le_iff]
    refine ⟨one_le_potL _, fun y hy => ?_⟩
    simp only [potL]
    rcases List.mem_append.1 hy with h | h
    · have := pot_le_potL h; omega
    · have := pot_le_potL h; omega
end

theorem pot_mkUnion (a b : RE) :
    pot (mkUnion ord a b) ≤ max B (max (pot a) (pot b)) := by
  have h := pot_makeUnion (ord := ord) (flattenUnion a ++ flattenUnion b)
  have h1 := potL_flattenUnion a
  have h2 := potL_flattenUnion b
  have : potL (flattenUnion a ++ flattenUnion b) ≤ max (pot a) (pot b) := by
    rw [potL_le_iff]
    refine ⟨by have := pot_pos a; omega, fun y hy => ?_⟩
    rcases List.mem_append.1 hy with h | h
    · have := pot_le_potL h; omega
    · have := pot_le_potL h; omega
  unfold mkUnion
  omega

/-! ### the potential never increases along a derivative -/

mutual
/-- **the potential never increases along a derivative** (any character, any representative,
    ANY id assignment) -/
theorem pot_deriv (ord : RE → Nat) :
    ∀ (t : RE) (c : Nat), pot (computeDeriv ord t c) ≤ pot t
  | .empty, c => by simp [cd_empty]
  | .epsilon, c => by simp [cd_eps, pot]
  | .range r, c => by rw [cd_range]; split <;> simp [pot]
  | .concat a b, c => by
    have ha := pot_deriv ord a (classRep a.derivClass c)
    have hb := pot_deriv ord b (classRep b.derivClass c)
    have h1 := pot_mkConcat (computeDeriv ord a (classRep a.derivClass c)) b
    rw [cd_concat]
    split
    · have h2 := pot_mkUnion (ord := ord) (mkConcat (computeDeriv ord a (classRep a.derivClass c)) b)
        (computeDeriv ord b (classRep b.derivClass c))
      simp only [pot]
      omega
    · simp only [pot]
      omega
  | .loop x ρ, c => by
    have hx := pot_deriv ord x (classRep x.derivClass c)
    have h1 := pot_mkConcat (computeDeriv ord x (classRep x.derivClass c)) (mkLoop x ρ.shift)
    have h2 := sz_mkLoop x ρ.shift
    have h3 := pot_mkLoop x ρ.shift
    rw [cd_loop]
    simp only [pot]
    omega
  | .compl x, c => by
    have hx := pot_deriv ord x (classRep x.derivClass c)
    have h1 := pot_complement (computeDeriv ord x (classRep x.derivClass c))
    rw [cd_compl]
    simp only [pot]
    omega
  | .union l, c => by
    have hl := potL_derivList ord l c
    rw [cd_union, mkUnionList]
    have h1 := pot_makeUnion (ord := ord) ((derivList ord l c).flatMap flattenUnion)
    have h2 : potL ((derivList ord l c).flatMap flattenUnion) ≤ potL l :=
      potL_flatMap_le (one_le_potL l) (fun d hd =>
        Nat.le_trans (potL_flattenUnion d) (Nat.le_trans (pot_le_potL hd) hl))
    simp only [pot]
    omega
  | .inter l, c => by
    have hl := potL_derivList ord l c
    rw [cd_inter, mkInterList]
    have h1 := pot_makeInter (ord := ord) ((derivList ord l c).flatMap flattenInter)
    have h2 : potL ((derivList ord l c).flatMap flattenInter) ≤ potL l :=
      potL_flatMap_le (one_le_potL l) (fun d hd =>
        Nat.le_trans (potL_flattenInter d) (Nat.le_trans (pot_le_potL hd) hl))
    simp only [pot]
    omega
theorem potL_derivList (ord : RE → Nat) :
    ∀ (l : List RE) (c : Nat), potL (derivList ord l c) ≤ potL l
  | [], c => by simp [derivList]
  | x :: xs, c => by
    have h1 := pot_deriv ord x (classRep x.derivClass c)
    have h2 := potL_derivList ord xs c
    simp only [derivList, potL]
    omega
end

/-! ### sub-terms of the start term -/

mutual
/-- all sub-terms of a term (the term itself included) -/
def subs : RE → List RE
  | .empty => [.empty]
  | .epsilon => [.epsilon]
  | .range r => [.range r]
  | .concat a b => .concat a b :: (subs a ++ subs b)
  | .loop x ρ => .loop x ρ :: subs x
  | .compl x => .compl x :: subs x
  | .union l => .union l :: subsL l
  | .inter l => .inter l :: subsL l
def subsL : List RE → List RE
  | [] => []
  | x :: xs => subs x ++ subsL xs
end

theorem self_mem_subs (t : RE) : t ∈ subs t := by
  cases t <;> simp [subs]

theorem subs_subset_subsL {l : List RE} {x : RE} (h : x ∈ l) : ∀ u ∈ subs x, u ∈ subsL l := by
  induction l with
  | nil => cases h
  | cons y ys ih =>
    intro u hu
    simp only [subsL, List.mem_append]
    rcases List.mem_cons.1 h with rfl | h
    · left; exact hu
    · right; exact ih h u hu

mutual
theorem subs_trans : ∀ (e t : RE), t ∈ subs e → ∀ u ∈ subs t, u ∈ subs e
  | .empty, t, ht, u, hu => by
    simp only [subs, List.mem_singleton] at ht; subst ht; exact hu
  | .epsilon, t, ht, u, hu => by
    simp only [subs, List.mem_singleton] at ht; subst ht; exact hu
  | .range r, t, ht, u, hu => by
    simp only [subs, List.mem_singleton] at ht; subst ht; exact hu
  | .concat a b, t, ht, u, hu => by
    simp only [subs, List.mem_cons, List.mem_append] at ht
    rcases ht with rfl | ht | ht
    · exact hu
    · simp only [subs, List.mem_cons, List.mem_append]
      right; left; exact subs_trans a t ht u hu
    · simp only [subs, List.mem_cons, List.mem_append]
      right; right; exact subs_trans b t ht u hu
  | .loop x ρ, t, ht, u, hu => by
    simp only [subs, List.mem_cons] at ht
    rcases ht with rfl | ht
    · exact hu
    · simp only [subs, List.mem_cons]
      right; exact subs_trans x t ht u hu
  | .compl x, t, ht, u, hu => by
    simp only [subs, List.mem_cons] at ht
    rcases ht with rfl | ht
    · exact hu
    · simp only [subs, List.mem_cons]
      right; exact subs_trans x t ht u hu
  | .union l, t, ht, u, hu => by
    simp only [subs, List.mem_cons] at ht
    rcases ht with rfl | ht
    · exact hu
    · simp only [subs, List.mem_cons]
      right; exact subsL_trans l t ht u hu
  | .inter l, t, ht, u, hu => by
    simp only [subs, List.mem_cons] at ht
    rcases ht with rfl | ht
    · exact hu
    · simp only [subs, List.mem_cons]
      right; exact subsL_trans l t ht u hu
theorem subsL_trans : ∀ (l : List RE) (t : RE), t ∈ subsL l → ∀ u ∈ subs t, u ∈ subsL l
  | [], t, ht, u, hu => by simp [subsL] at ht
  | x :: xs, t, ht, u, hu => by
    simp only [subsL, List.mem_append] at ht ⊢
    rcases ht with ht | ht
    · left; exact subs_trans x t ht u hu
    · right; exact subsL_trans xs t ht u hu
end

/-- a list of terms closed under taking direct sub-terms -/
structure SubClosed (A : List RE) : Prop where
  concat : ∀ a b, RE.concat a b ∈ A → a ∈ A ∧ b ∈ A
  loop : ∀ x ρ, RE.loop x ρ ∈ A → x ∈ A
  compl : ∀ x, RE.compl x ∈ A → x ∈ A
  union : ∀ l, RE.union l ∈ A → ∀ x ∈ l, x ∈ A
  inter : ∀ l, RE.inter l ∈ A → ∀ x ∈ l, x ∈ A

/-- the atoms of the universe of `e`: `Σ` and the sub-terms of `e` -/
def atoms (e : RE) : List RE := sigma :: subs e

theorem subClosed_atoms (e : RE) : SubClosed (atoms e) where
  concat := by
    intro a b h
    rcases List.mem_cons.1 h with h | h
    · simp [sigma] at h
    · have ha : a ∈ subs (.concat a b) := by
        simp only [subs, List.mem_cons, List.mem_append]; right; left; exact self_mem_subs a
      have hb : b ∈ subs (.concat a b) := by
        simp only [subs, List.mem_cons, List.mem_append]; right; right; exact self_mem_subs b
      exact ⟨List.mem_cons_of_mem _ (subs_trans e _ h a ha),
        List.mem_cons_of_mem _ (subs_trans e _ h b hb)⟩
  loop := by
    intro x ρ h
    rcases List.mem_cons.1 h with h | h
    · simp [sigma] at h
    · have hx : x ∈ subs (.loop x ρ) := by
        simp only [subs, List.mem_cons]; right; exact self_mem_subs x
      exact List.mem_cons_of_mem _ (subs_trans e _ h x hx)
  compl := by
    intro x h
    rcases List.mem_cons.1 h with h | h
    · simp [sigma] at h
    · have hx : x ∈ subs (.compl x) := by
        simp only [subs, List.mem_cons]; right; exact self_mem_subs x
      exact List.mem_cons_of_mem _ (subs_trans e _ h x hx)
  union := by
    intro l h x hx
    rcases List.mem_cons.1 h with h | h
    · simp [sigma] at h
    · have hx' : x ∈ subs (.union l) := by
        simp only [subs, List.mem_cons]; right
        exact subs_subset_subsL hx x (self_mem_subs x)
      exact List.mem_cons_of_mem _ (subs_trans e _ h x hx')
  inter := by
    intro l h x hx
    rcases List.mem_cons.1 h with h | h
    · simp [sigma] at h
    · have hx' : x ∈ subs (.inter l) := by
        simp only [subs, List.mem_cons]; right
        exact subs_subset_subsL hx x (self_mem_subs x)
      exact List.mem_cons_of_mem _ (subs_trans e _ h x hx')

/-! ### the shape invariant -/

/-- `t` is built from members of `A` by the constructors; every union / intersection node that is
    not itself in `A` is duplicate-free and flat -/
inductive Shape (A : List RE) : RE → Prop
  | atom {t : RE} : t ∈ A → Shape A t
  | empty : Shape A .empty
  | eps : Shape A .epsilon
  | concat {a b : RE} : Shape A a → Shape A b → Shape A (.concat a b)
  | loop {x : RE} (ρ : LoopRange) : Shape A x → Shape A (.loop x ρ)
  | compl {x : RE} : Shape A x → Shape A (.compl x)
  | union {w : List RE} : w.Nodup → (∀ x ∈ w, Shape A x) → (∀ x ∈ w, ∀ l, x ≠ .union l) →
      Shape A (.union w)
  | inter {w : List RE} : w.Nodup → (∀ x ∈ w, Shape A x) → (∀ x ∈ w, ∀ l, x ≠ .inter l) →
      Shape A (.inter w)

variable {A : List RE}

theorem Shape.inv_concat (hA : SubClosed A) {a b : RE} (h : Shape A (.concat a b)) :
    Shape A a ∧ Shape A b := by
  cases h with
  | atom h => exact ⟨.atom (hA.concat _ _ h).1, .atom (hA.concat _ _ h).2⟩
  | concat ha hb => exact ⟨ha, hb⟩

theorem Shape.inv_loop (hA : SubClosed A) {x : RE} {ρ : LoopRange} (h : Shape A (.loop x ρ)) :
    Shape A x := by
  cases h with
  | atom h => exact .atom (hA.loop _ _ h)
  | loop _ hx => exact hx

theorem Shape.inv_compl (hA : SubClosed A) {x : RE} (h : Shape A (.compl x)) : Shape A x := by
  cases h with
  | atom h => exact .atom (hA.compl _ h)
  | compl hx => exact hx

theorem Shape.inv_union (hA : SubClosed A) {l : List RE} (h : Shape A (.union l)) :
    ∀ x ∈ l, Shape A x := by
  cases h with
  | atom h => exact fun x hx => .atom (hA.union _ h x hx)
  | union _ hs _ => exact hs

theorem Shape.inv_inter (hA : SubClosed A) {l : List RE} (h : Shape A (.inter l)) :
    ∀ x ∈ l, Shape A x := by
  cases h with
  | atom h => exact fun x hx => .atom (hA.inter _ h x hx)
  | inter _ hs _ => exact hs

theorem shape_sigmaStar (hσ : sigma ∈ A) : Shape A sigmaStar := .loop _ (.atom hσ)
theorem shape_sigmaPlus (hσ : sigma ∈ A) : Shape A sigmaPlus := .loop _ (.atom hσ)

mutual
theorem flattenUnion_not_union : ∀ (t v : RE), v ∈ flattenUnion t → ∀ l, v ≠ .union l
  | .empty, v, hv, l => by simp only [flattenUnion, List.mem_singleton] at hv; subst hv; simp
  | .epsilon, v, hv, l => by simp only [flattenUnion, List.mem_singleton] at hv; subst hv; simp
  | .range _, v, hv, l => by simp only [flattenUnion, List.mem_singleton] at hv; subst hv; simp
  | .concat _ _, v, hv, l => by simp only [flattenUnion, List.mem_singleton] at hv; subst hv; simp
  | .loop _ _, v, hv, l => by simp only [flattenUnion, List.mem_singleton] at hv; subst hv; simp
  | .compl _, v, hv, l => by simp only [flattenUnion, List.mem_singleton] at hv; subst hv; simp
  | .inter _, v, hv, l => by simp only [flattenUnion, List.mem_singleton] at hv; subst hv; simp
  | .union m, v, hv, l => by
    simp only [flattenUnion] at hv
    exact flattenUnionList_not_union m v hv l
theorem flattenUnionList_not_union : ∀ (m : List RE) (v : RE), v ∈ flattenUnionList m →
    ∀ l, v ≠ .union l
  | [], v, hv, l => by simp [flattenUnionList] at hv
  | x :: xs, v, hv, l => by
    simp only [flattenUnionList, List.mem_append] at hv
    rcases hv with hv | hv
    · exact flattenUnion_not_union x v hv l
    · exact flattenUnionList_not_union xs v hv l
end

mutual
theorem flattenInter_not_inter : ∀ (t v : RE), v ∈ flattenInter t → ∀ l, v ≠ .inter l
  | .empty, v, hv, l => by simp only [flattenInter, List.mem_singleton] at hv; subst hv; simp
  | .epsilon, v, hv, l => by simp only [flattenInter, List.mem_singleton] at hv; subst hv; simp
  | .range _, v, hv, l => by simp only [flattenInter, List.mem_singleton] at hv; subst hv; simp
  | .concat _ _, v, hv, l => by simp only [flattenInter, List.mem_singleton] at hv; subst hv; simp
  | .loop _ _, v, hv, l => by simp only [flattenInter, List.mem_singleton] at hv; subst hv; simp
  | .compl _, v, hv, l => by simp only [flattenInter, List.mem_singleton] at hv; subst hv; simp
  | .union _, v, hv, l => by simp only [flattenInter, List.mem_singleton] at hv; subst hv; simp
  | .inter m, v, hv, l => by
    simp only [flattenInter] at hv
    exact flattenInterList_not_inter m v hv l
theorem flattenInterList_not_inter : ∀ (m : List RE) (v : RE), v ∈ flattenInterList m →
    ∀ l, v ≠ .inter l
  | [], v, hv, l => by simp [flattenInterList] at hv
  | x :: xs, v, hv, l => by
    simp only [flattenInterList, List.mem_append] at hv
    rcases hv with hv | hv
    · exact flattenInter_not_inter x v hv l
    · exact flattenInterList_not_inter xs v hv l
end

mutual
theorem mem_flattenUnion_of_mem (hA : SubClosed A) :
    ∀ (t : RE), t ∈ A → ∀ v ∈ flattenUnion t, v ∈ A
  | .empty, ht, v, hv => by simp only [flattenUnion, List.mem_singleton] at hv; subst hv; exact ht
  | .epsilon, ht, v, hv => by simp only [flattenUnion, List.mem_singleton] at hv; subst hv; exact ht
  | .range _, ht, v, hv => by simp only [flattenUnion, List.mem_singleton] at hv; subst hv; exact ht
  | .concat _ _, ht, v, hv => by
    simp only [flattenUnion, List.mem_singleton] at hv; subst hv; exact ht
  | .loop _ _, ht, v, hv => by simp only [flattenUnion, List.mem_singleton] at hv; subst hv; exact ht
  | .compl _, ht, v, hv => by simp only [flattenUnion, List.mem_singleton] at hv; subst hv; exact ht
  | .inter _, ht, v, hv => by simp only [flattenUnion, List.mem_singleton] at hv; subst hv; exact ht
  | .union m, ht, v, hv => by
    simp only [flattenUnion] at hv
    exact mem_flattenUnionList_of_mem hA m (hA.union m ht) v hv
theorem mem_flattenUnionList_of_mem (hA : SubClosed A) :
    ∀ (m : List RE), (∀ x ∈ m, x ∈ A) → ∀ v ∈ flattenUnionList m, v ∈ A
  | [], _, v, hv => by simp [flattenUnionList] at hv
  | x :: xs, hm, v, hv => by
    simp only [flattenUnionList, List.mem_append] at hv
    rcases hv with hv | hv
    · exact mem_flattenUnion_of_mem hA x (hm x (List.mem_cons_self ..)) v hv
    · exact mem_flattenUnionList_of_mem hA xs (fun y hy => hm y (List.mem_cons_of_mem _ hy)) v hv
end

mutual
theorem mem_flattenInter_of_mem (hA : SubClosed A) :
    ∀ (t : RE), t ∈ A → ∀ v ∈ flattenInter t, v ∈ A
  | .empty, ht, v, hv => by simp only [flattenInter, List.mem_singleton] at hv; subst hv; exact ht
  | .epsilon, ht, v, hv => by simp only [flattenInter, List.mem_singleton] at hv; subst hv; exact ht
  | .range _, ht, v, hv => by simp only [flattenInter, List.mem_singleton] at hv; subst hv; exact ht
  | .concat _ _, ht, v, hv => by
    simp only [flattenInter, List.mem_singleton] at hv; subst hv; exact ht
  | .loop _ _, ht, v, hv => by simp only [flattenInter, List.mem_singleton] at hv; subst hv; exact ht
  | .compl _, ht, v, hv => by simp only [flattenInter, List.mem_singleton] at hv; subst hv; exact ht
  | .union _, ht, v, hv => by simp only [flattenInter, List.mem_singleton] at hv; subst hv; exact ht
  | .inter m, ht, v, hv => by
    simp only [flattenInter] at hv
    exact mem_flattenInterList_of_mem hA m (hA.inter m ht) v hv
theorem mem_flattenInterList_of_mem (hA : SubClosed A) :
    ∀ (m : List RE), (∀ x ∈ m, x ∈ A) → ∀ v ∈ flattenInterList m, v ∈ A
  | [], _, v, hv => by simp [flattenInterList] at hv
  | x :: xs, hm, v, hv => by
    simp only [flattenInterList, List.mem_append] at hv
    rcases hv with hv | hv
    · exact mem_flattenInter_of_mem hA x (hm x (List.mem_cons_self ..)) v hv
    · exact mem_flattenInterList_of_mem hA xs (fun y hy => hm y (List.mem_cons_of_mem _ hy)) v hv
end

theorem Shape.flattenUnion (hA : SubClosed A) {t : RE} (h : Shape A t) :
    ∀ v ∈ flattenUnion t, Shape A v := by
  intro v hv
  cases h with
  | atom ht => exact .atom (mem_flattenUnion_of_mem hA t ht v hv)
  | empty => simp only [RE.flattenUnion, List.mem_singleton] at hv; subst hv; exact .empty
  | eps => simp only [RE.flattenUnion, List.mem_singleton] at hv; subst hv; exact .eps
  | concat ha hb => simp only [RE.flattenUnion, List.mem_singleton] at hv; subst hv; exact .concat ha hb
  | loop ρ hx => simp only [RE.flattenUnion, List.mem_singleton] at hv; subst hv; exact .loop ρ hx
  | compl hx => simp only [RE.flattenUnion, List.mem_singleton] at hv; subst hv; exact .compl hx
  | inter h1 h2 h3 =>
    simp only [RE.flattenUnion, List.mem_singleton] at hv; subst hv; exact .inter h1 h2 h3
  | union h1 h2 h3 =>
    rw [flattenUnion_union, List.mem_flatMap] at hv
    obtain ⟨x, hx, hvx⟩ := hv
    rw [flattenUnion_of_not_union (h3 x hx), List.mem_singleton] at hvx
    subst hvx
    exact h2 v hx

theorem Shape.flattenInter (hA : SubClosed A) {t : RE} (h : Shape A t) :
    ∀ v ∈ flattenInter t, Shape A v := by
  intro v hv
  cases h with
  | atom ht => exact .atom (mem_flattenInter_of_mem hA t ht v hv)
  | empty => simp only [RE.flattenInter, List.mem_singleton] at hv; subst hv; exact .empty
  | eps => simp only [RE.flattenInter, List.mem_singleton] at hv; subst hv; exact .eps
  | concat ha hb => simp only [RE.flattenInter, List.mem_singleton] at hv; subst hv; exact .concat ha hb
  | loop ρ hx => simp only [RE.flattenInter, List.mem_singleton] at hv; subst hv; exact .loop ρ hx
  | compl hx => simp only [RE.flattenInter, List.mem_singleton] at hv; subst hv; exact .compl hx
  | union h1 h2 h3 =>
    simp only [RE.flattenInter, List.mem_singleton] at hv; subst hv; exact .union h1 h2 h3
  | inter h1 h2 h3 =>
    rw [flattenInter_inter, List.mem_flatMap] at hv
    obtain ⟨x, hx, hvx⟩ := hv
    rw [flattenInter_of_not_inter (h3 x hx), List.mem_singleton] at hvx
    subst hvx
    exact h2 v hx

/-! ### the constructors and the derivative preserve the shape -/

theorem shape_pre (hA : SubClosed A) {e1 e2 r : RE} (hpre : concatPre e1 e2 = some r)
    (h1 : Shape A e1) (h2 : Shape A e2) : Shape A r := by
  rcases concatPre_some hpre with rfl | ⟨rfl, rfl⟩ | ⟨rfl, rfl⟩ | ⟨σ, rfl, rfl⟩ | ⟨ρ, rfl, rfl⟩ |
    ⟨x, ρ, σ, rfl, rfl, rfl⟩ | ⟨rfl, rfl⟩
  · exact .empty
  · exact h2
  · exact h1
  · exact .loop _ h1
  · exact .loop _ h2
  · exact .loop _ (h1.inv_loop hA)
  · exact .loop _ h1

theorem shape_mkConcat (hA : SubClosed A) (a b : RE) :
    Shape A a → Shape A b → Shape A (mkConcat a b) := by
  fun_induction mkConcat a b with
  | case1 x y e2 r hpre => exact fun h1 h2 => shape_pre hA hpre h1 h2
  | case2 x y e2 hpre ih2 ih1 =>
    intro h1 h2
    obtain ⟨hx, hy⟩ := h1.inv_concat hA
    exact ih1 hx (ih2 hy h2)
  | case3 e1 e2 hn r hpre => exact fun h1 h2 => shape_pre hA hpre h1 h2
  | case4 e1 e2 hn hpre =>
    intro h1 h2
    unfold concatBase
    split
    · exact h2
    · exact .concat h1 h2

theorem shape_mkLoop (hA : SubClosed A) {x : RE} (hx : Shape A x) (ρ : LoopRange) :
    Shape A (mkLoop x ρ) := by
  unfold mkLoop
  split
  · exact .eps
  · split
    · exact hx
    · split
      · split
        · exact .eps
        · exact .empty
      · exact .eps
      · split
        · exact .loop _ (hx.inv_loop hA)
        · exact .loop _ hx
      · exact .loop _ hx

theorem shape_complement (hA : SubClosed A) (hσ : sigma ∈ A) {x : RE} (hx : Shape A x) :
    Shape A x.complement := by
  unfold complement
  split
  · exact shape_sigmaStar hσ
  · exact shape_sigmaPlus hσ
  · exact hx.inv_compl hA
  · split
    · exact .empty
    · split
      · exact .eps
      · exact .compl hx

theorem shape_makeUnion (hinj : Function.Injective ord) (hσ : sigma ∈ A) {v : List RE}
    (hv : ∀ x ∈ v, Shape A x ∧ ∀ l, x ≠ .union l) : Shape A (makeUnion ord v) := by
  rcases makeUnion_cases hinj v with h | h | h | ⟨w, hnd, hsub, h⟩
  · rw [h]; exact .empty
  · rw [h]; exact shape_sigmaStar hσ
  · exact (hv _ h).1
  · rw [h]
    exact .union hnd (fun x hx => (hv x (hsub x hx)).1) (fun x hx => (hv x (hsub x hx)).2)

theorem shape_makeInter (hinj : Function.Injective ord) (hσ : sigma ∈ A) {v : List RE}
    (hv : ∀ x ∈ v, Shape A x ∧ ∀ l, x ≠ .inter l) : Shape A (makeInter ord v) := by
  rcases makeInter_cases hinj v with h | h | h | h | ⟨w, hnd, hsub, h⟩
  · rw [h]; exact .empty
  · rw [h]; exact .eps
  · rw [h]; exact shape_sigmaStar hσ
  · exact (hv _ h).1
  · rw [h]
    exact .inter hnd (fun x hx => (hv x (hsub x hx)).1) (fun x hx => (hv x (hsub x hx)).2)

theorem shape_mkUnion (hinj : Function.Injective ord) (hA : SubClosed A) (hσ : sigma ∈ A)
    {a b : RE} (ha : Shape A a) (hb : Shape A b) : Shape A (mkUnion ord a b) := by
  unfold mkUnion
  apply shape_makeUnion hinj hσ
  intro x hx
  rcases List.mem_append.1 hx with h | h
  · exact ⟨ha.flattenUnion hA x h, flattenUnion_not_union a x h⟩
  · exact ⟨hb.flattenUnion hA x h, flattenUnion_not_union b x h⟩

mutual
/-- **the derivative preserves the shape invariant** -/
theorem shape_deriv (hinj : Function.Injective ord) (hA : SubClosed A) (hσ : sigma ∈ A) :
    ∀ (t : RE) (c : Nat), Shape A t → Shape A (computeDeriv ord t c)
  | .empty, c, _ => by rw [cd_empty]; exact .empty
  | .epsilon, c, _ => by rw [cd_eps]; exact .empty
  | .range r, c, _ => by
    rw [cd_range]
    split
    · exact .eps
    · exact .empty
  | .concat a b, c, h => by
    obtain ⟨ha, hb⟩ := h.inv_concat hA
    have h1 := shape_mkConcat hA _ b (shape_deriv hinj hA hσ a (classRep a.derivClass c) ha) hb
    rw [cd_concat]
    split
    · exact shape_mkUnion hinj hA hσ h1 (shape_deriv hinj hA hσ b (classRep b.derivClass c) hb)
    · exact h1
  | .loop x ρ, c, h => by
    have hx := h.inv_loop hA
    rw [cd_loop]
    exact shape_mkConcat hA _ _ (shape_deriv hinj hA hσ x (classRep x.derivClass c) hx)
      (shape_mkLoop hA hx _)
  | .compl x, c, h => by
    rw [cd_compl]
    exact shape_complement hA hσ (shape_deriv hinj hA hσ x (classRep x.derivClass c) (h.inv_compl hA))
  | .union l, c, h => by
    have hl := shape_derivList hinj hA hσ l c (h.inv_union hA)
    rw [cd_union, mkUnionList]
    apply shape_makeUnion hinj hσ
    intro x hx
    rw [List.mem_flatMap] at hx
    obtain ⟨d, hd, hxd⟩ := hx
    exact ⟨(hl d hd).flattenUnion hA x hxd, flattenUnion_not_union d x hxd⟩
  | .inter l, c, h => by
    have hl := shape_derivList hinj hA hσ l c (h.inv_inter hA)
    rw [cd_inter, mkInterList]
    apply shape_makeInter hinj hσ
    intro x hx
    rw [List.mem_flatMap] at hx
    obtain ⟨d, hd, hxd⟩ := hx
    exact ⟨(hl d hd).flattenInter hA x hxd, flattenInter_not_inter d x hxd⟩
theorem shape_derivList (hinj : Function.Injective ord) (hA : SubClosed A) (hσ : sigma ∈ A) :
    ∀ (l : List RE) (c : Nat), (∀ x ∈ l, Shape A x) → ∀ d ∈ derivList ord l c, Shape A d
  | [], c, _, d, hd => by simp [derivList] at hd
  | x :: xs, c, hl, d, hd => by
    simp only [derivList, List.mem_cons] at hd
    rcases hd with rfl | hd
    · exact shape_deriv hinj hA hσ x _ (hl x (List.mem_cons_self ..))
    · exact shape_derivList hinj hA hσ xs c (fun y hy => hl y (List.mem_cons_of_mem _ hy)) d hd
end

/-! ### the finite universe: all terms of a given shape and bounded size -/

/-- all loop ranges whose bounds are at most `n` (an absent upper bound is allowed) -/
def rangesUpTo (n : Nat) : List LoopRange :=
  (List.range (n + 1)).flatMap fun i =>
    (⟨i, none⟩ : LoopRange) :: (List.range (n + 1)).map fun j => (⟨i, some j⟩ : LoopRange)

theorem mem_rangesUpTo {ρ : LoopRange} {n : Nat} (h1 : ρ.start ≤ n)
    (h2 : ∀ j, ρ.stop = some j → j ≤ n) : ρ ∈ rangesUpTo n := by
  obtain ⟨i, s⟩ := ρ
  unfold rangesUpTo
  rw [List.mem_flatMap]
  refine ⟨i, List.mem_range.2 (by simp only at h1; omega), ?_⟩
  cases s with
  | none => exact List.mem_cons_self ..
  | some j =>
    refine List.mem_cons_of_mem _ (List.mem_map.2 ⟨j, List.mem_range.2 ?_, rfl⟩)
    have := h2 j rfl
    omega

/-- the non-union terms of size `≤ n` over the terms `U` of size `< n` -/
def nuStep (A U : List RE) (n : Nat) : List RE :=
  A ++ [RE.empty, RE.epsilon] ++
    (U.flatMap fun a => U.map fun b => RE.concat a b) ++
    (U.flatMap fun x => (rangesUpTo n).map fun ρ => RE.loop x ρ) ++
    U.map RE.compl ++
    (nodupLists U).map RE.inter

/-- all terms of shape `A` and size `≤ n` -/
def univ (A : List RE) : Nat → List RE
  | 0 => A
  | n + 1 =>
    nuStep A (univ A n) (n + 1) ++ (nodupLists (nuStep A (univ A n) (n + 1))).map RE.union

theorem mem_nuStep {U : List RE} {n : Nat} {t : RE}
    (hU : ∀ u, Shape A u → sz u ≤ n → u ∈ U) (ht : Shape A t) (hs : sz t ≤ n + 1)
    (hnu : ∀ l, t ∈ A ∨ t ≠ .union l) : t ∈ nuStep A U (n + 1) := by
  unfold nuStep
  cases ht with
  | atom h => simp [h]
  | empty => simp
  | eps => simp
  | concat ha hb =>
    rename_i a b
    have := sz_pos a
    have := sz_pos b
    simp only [sz] at hs
    have h1 := hU a ha (by omega)
    have h2 := hU b hb (by omega)
    have : RE.concat a b ∈ (U.flatMap fun a => U.map fun b => RE.concat a b) :=
      List.mem_flatMap.2 ⟨a, h1, List.mem_map.2 ⟨b, h2, rfl⟩⟩
    simp [this]
  | loop ρ hx =>
    rename_i x
    have hp := sz_pos x
    have hm := mR_pos ρ
    simp only [sz] at hs
    have hxm : sz x ≤ sz x * mR ρ := Nat.le_mul_of_pos_right _ hm
    have hmx : mR ρ ≤ sz x * mR ρ := Nat.le_mul_of_pos_left _ hp
    have h1 := hU x hx (by omega)
    have h2 : ρ ∈ rangesUpTo (n + 1) := by
      apply mem_rangesUpTo
      · have := start_le_mR ρ; omega
      · intro j hj; have := stop_le_mR hj; omega
    have : RE.loop x ρ ∈ (U.flatMap fun x => (rangesUpTo (n + 1)).map fun ρ => RE.loop x ρ) :=
      List.mem_flatMap.2 ⟨x, h1, List.mem_map.2 ⟨ρ, h2, rfl⟩⟩
    simp [this]
  | compl hx =>
    rename_i x
    simp only [sz] at hs
    have h1 := hU x hx (by omega)
    have : RE.compl x ∈ U.map RE.compl := List.mem_map.2 ⟨x, h1, rfl⟩
    simp [this]
  | union h1 h2 h3 =>
    rename_i w
    rcases hnu w with h | h
    · simp [h]
    · exact absurd rfl h
  | inter h1 h2 h3 =>
    rename_i w
    simp only [sz] at hs
    have hw : ∀ x ∈ w, x ∈ U := fun x hx =>
      hU x (h2 x hx) (by have := sz_le_szL hx; omega)
    have : RE.inter w ∈ (nodupLists U).map RE.inter :=
      List.mem_map.2 ⟨w, mem_nodupLists h1 hw, rfl⟩
    simp [this]

/-- **every term of shape `A` and size at most `n` is a member of the finite list `univ A n`** -/
theorem mem_univ : ∀ (n : Nat) (t : RE), Shape A t → sz t ≤ n → t ∈ univ A n := by
  intro n
  induction n with
  | zero =>
    intro t _ hs
    have := sz_pos t
    omega
  | succ n ih =>
    intro t ht hs
    simp only [univ]
    by_cases hu : ∃ l, t = .union l ∧ t ∉ A
    · obtain ⟨l, rfl, hnA⟩ := hu
      cases ht with
      | atom h => exact absurd h hnA
      | union h1 h2 h3 =>
        apply List.mem_append_right
        refine List.mem_map.2 ⟨l, mem_nodupLists h1 ?_, rfl⟩
        intro x hx
        apply mem_nuStep ih (h2 x hx)
        · simp only [sz] at hs
          have := sz_le_szL hx
          omega
        · intro l'; right; exact h3 x hx l'
    · apply List.mem_append_left
      apply mem_nuStep ih ht hs
      intro l
      by_cases hA' : t ∈ A
      · left; exact hA'
      · right
        intro h
        exact hu ⟨l, h, hA'⟩

/-! ### every iterated derivative lies in the universe -/

theorem sigma_mem_atoms (e : RE) : sigma ∈ atoms e := List.mem_cons_self ..
theorem self_mem_atoms (e : RE) : e ∈ atoms e := List.mem_cons_of_mem _ (self_mem_subs e)

/-- invariant of the iterated derivatives of `e` -/
theorem strDerivative_inv (hinj : Function.Injective ord) (e : RE) (s : List Nat) :
    Shape (atoms e) (strDerivative ord e s) ∧ pot (strDerivative ord e s) ≤ pot e := by
  induction s using List.reverseRecOn with
  | nil => exact ⟨.atom (self_mem_atoms e), Nat.le_refl _⟩
  | append_singleton s c ih =>
    rw [strDerivative_snoc]
    unfold deriv
    exact ⟨shape_deriv hinj (subClosed_atoms e) (sigma_mem_atoms e) _ _ ih.1,
      Nat.le_trans (pot_deriv ord _ _) ih.2⟩

/-- **sizes are bounded for ANY id assignment**: the size of every iterated derivative is at most
    the potential of the start term -/
theorem pot_strDerivative_le (ord : RE → Nat) (e : RE) (s : List Nat) :
    pot (strDerivative ord e s) ≤ pot e := by
  induction s using List.reverseRecOn with
  | nil => exact Nat.le_refl _
  | append_singleton s c ih =>
    rw [strDerivative_snoc]
    unfold deriv
    exact Nat.le_trans (pot_deriv ord _ _) ih

theorem sz_strDerivative_le (ord : RE → Nat) (e : RE) (s : List Nat) :
    sz (strDerivative ord e s) ≤ pot e :=
  Nat.le_trans (sz_le_pot _) (pot_strDerivative_le ord e s)

mutual
/-- a term whose size fits in a `u32` has no loop bound above `u32::MAX` -/
theorem overflowed_of_sz : ∀ t : RE, sz t ≤ U32_MAX → t.overflowed = false
  | .empty, _ => by simp [overflowed]
  | .epsilon, _ => by simp [overflowed]
  | .range _, _ => by simp [overflowed]
  | .concat a b, h => by
    simp only [sz] at h
    simp only [overflowed, Bool.or_eq_false_iff]
    exact ⟨overflowed_of_sz a (by omega), overflowed_of_sz b (by omega)⟩
  | .loop x ρ, h => by
    simp only [sz] at h
    have hp := sz_pos x
    have hm := mR_pos ρ
    have hxm : sz x ≤ sz x * mR ρ := Nat.le_mul_of_pos_right _ hm
    have hmx : mR ρ ≤ sz x * mR ρ := Nat.le_mul_of_pos_left _ hp
    have h1 := start_le_mR ρ
    simp only [overflowed, Bool.or_eq_false_iff]
    refine ⟨overflowed_of_sz x (by omega), ?_⟩
    unfold LoopRange.tooBig
    simp only [Bool.or_eq_false_iff, decide_eq_false_iff_not, Nat.not_lt]
    refine ⟨by omega, ?_⟩
    cases hs : ρ.stop with
    | none => rfl
    | some j =>
      have := stop_le_mR hs
      simp only [decide_eq_false_iff_not, Nat.not_lt]
      omega
  | .compl x, h => by
    simp only [sz] at h
    simp only [overflowed]
    exact overflowed_of_sz x (by omega)
  | .union l, h => by
    simp only [sz] at h
    simp only [overflowed]
    exact overflowedList_of_szL l (by omega)
  | .inter l, h => by
    simp only [sz] at h
    simp only [overflowed]
    exact overflowedList_of_szL l (by omega)
theorem overflowedList_of_szL : ∀ l : List RE, szL l ≤ U32_MAX → overflowedList l = false
  | [], _ => by simp [overflowedList]
  | x :: xs, h => by
    simp only [szL] at h
    simp only [overflowedList, Bool.or_eq_false_iff]
    exact ⟨overflowed_of_sz x (by omega), overflowedList_of_szL xs (by omega)⟩
end

/-- **no loop bound of any iterated derivative exceeds `u32::MAX`** when the potential of the
    start term fits in a `u32` — for ANY id assignment -/
theorem strDerivative_not_overflowed (ord : RE → Nat) {e : RE} (he : pot e ≤ U32_MAX)
    (s : List Nat) : (strDerivative ord e s).overflowed = false :=
  overflowed_of_sz _ (Nat.le_trans (sz_strDerivative_le ord e s) he)

/-- what injectivity of `ord` is used for, isolated: for ANY id assignment, if the iterated
    derivatives keep the shape invariant (n-ary nodes duplicate-free and flat) they all lie in the
    finite universe -/
theorem derivBounded_of_shape (ord : RE → Nat) (e : RE)
    (h : ∀ s, Shape (atoms e) (strDerivative ord e s)) :
    DerivBounded ord e (univ (atoms e) (pot e)) :=
  fun s _ => mem_univ _ _ (h s) (sz_strDerivative_le ord e s)

/-- **finiteness of the derivative closure, for every term**: every iterated derivative of `e`
    (w.r.t. any string) is a member of the finite list `univ (atoms e) (pot e)` -/
theorem derivBounded_all (hinj : Function.Injective ord) (e : RE) :
    DerivBounded ord e (univ (atoms e) (pot e)) := by
  intro s _
  obtain ⟨h1, h2⟩ := strDerivative_inv (ord := ord) hinj e s
  exact mem_univ _ _ h1 (Nat.le_trans (sz_le_pot _) h2)

end Gen
end RE
end Smt
