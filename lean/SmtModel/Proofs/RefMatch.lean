/-
  The executable reference matcher `refMatch` (Spec/RefMatch.lean) decides exactly the
  `Language`-valued denotation `RE.lang` (Proofs/ReLang.lean) on well-formed terms and
  well-formed strings:

    theorem refMatch_iff (e : RE) (he : e.WF) (w : List ℕ) (hw : WFs w) :
        refMatch e w = true ↔ w ∈ e.lang

  Helper lemmas: `splits_spec` (the splits of `w` are exactly the pairs `(p, r)` with
  `p ++ r = w`), `loopMatch_iff` (the fuelled loop matcher decides `⋃ lo ≤ k ≤ hi, L^k` when the
  factor matcher decides `L` on well-formed strings, `fuel ≥ |w|` and `lo ≤ hi`).

  Why `hw : WFs w` is needed (and why there is no `refMatch_wf_only : e.WF → refMatch e w = true →
  WFs w`): the complement (and the intersection) of `RE.lang` is relative to the set of SMT
  strings, whereas `refMatch (.compl e) w = !refMatch e w` is plain negation.  For
  `w = [MAX_CHAR + 1]`, `refMatch (.compl .empty) w = true` but `w ∉ (RE.compl .empty).lang`
  (`refMatch_compl_nonWF` below).  The driver only calls `refMatch` on well-formed strings.

  Why `he : e.WF` is needed: only the loop clause uses it (`lo ≤ hi`): for `lo > hi` the language
  `loopLang L ⟨lo, some hi⟩` is empty but `loopMatch m _ lo (some hi) [] = m []`
  (`refMatch_loop_nonWF` below).
-/
import Mathlib.Computability.Language
import SmtModel.Spec.RefMatch
import SmtModel.Proofs.ReLang

namespace Smt
namespace RE

/-! ### `splits` -/

theorem splits_spec (w p r : List ℕ) : (p, r) ∈ splits w ↔ p ++ r = w := by
  induction w generalizing p r with
  | nil => simp [splits]
  | cons c w ih =>
    simp only [splits, List.mem_cons, List.mem_map, Prod.exists, Prod.mk.injEq]
    constructor
    · rintro (⟨rfl, rfl⟩ | ⟨p', r', h, rfl, rfl⟩)
      · rfl
      · simp [(ih p' r').1 h]
    · intro h
      cases p with
      | nil => left; simpa using h
      | cons a p' =>
        simp only [List.cons_append, List.cons.injEq] at h
        obtain ⟨rfl, h⟩ := h
        right; exact ⟨p', r, (ih _ _).2 h, rfl, rfl⟩

theorem any_splits (w : List ℕ) (f : List ℕ × List ℕ → Bool) :
    (splits w).any f = true ↔ ∃ p r, p ++ r = w ∧ f (p, r) = true := by
  simp only [List.any_eq_true, Prod.exists, splits_spec]

/-! ### well-formed strings -/

theorem WFs_append (p r : List ℕ) : WFs (p ++ r) ↔ WFs p ∧ WFs r := by
  simp only [WFs, List.mem_append]
  constructor
  · intro h; exact ⟨fun c hc => h c (Or.inl hc), fun c hc => h c (Or.inr hc)⟩
  · rintro ⟨h1, h2⟩ c (hc | hc)
    · exact h1 c hc
    · exact h2 c hc

theorem WFs_cons (c : ℕ) (w : List ℕ) : WFs (c :: w) ↔ c ≤ MAX_CHAR ∧ WFs w := by
  simp [WFs]

/-! ### powers of a language -/

theorem nil_mem_pow_of_nil_mem {L : Language ℕ} (h : [] ∈ L) (k : ℕ) : ([] : List ℕ) ∈ L ^ k := by
  induction k with
  | zero => simp [Language.mem_one]
  | succ k ih => rw [pow_succ', Language.mem_mul]; exact ⟨[], h, [], ih, rfl⟩

theorem pow_mono_of_nil {L : Language ℕ} (h : [] ∈ L) {w : List ℕ} {j k : ℕ}
    (hw : w ∈ L ^ j) (hjk : j ≤ k) : w ∈ L ^ k := by
  induction hjk with
  | refl => exact hw
  | step _ ih => rw [pow_succ', Language.mem_mul]; exact ⟨[], h, w, ih, rfl⟩

theorem nil_mem_of_nil_mem_pow {L : Language ℕ} {k : ℕ} (hk : k ≠ 0)
    (h : ([] : List ℕ) ∈ L ^ k) : [] ∈ L := by
  obtain ⟨k, rfl⟩ := Nat.exists_eq_succ_of_ne_zero hk
  rw [pow_succ', Language.mem_mul] at h
  obtain ⟨a, ha, b, _, hab⟩ := h
  have : a = [] := (List.append_eq_nil_iff.1 hab).1
  exact this ▸ ha

/-- a non-empty word of `L^k` starts with a non-empty factor; the rest is in `L^(k-1)`
    (if empty factors were skipped then `[] ∈ L` and the rest can be padded) -/
theorem cons_mem_pow {L : Language ℕ} {c : ℕ} {w : List ℕ} {k : ℕ} (h : c :: w ∈ L ^ k) :
    ∃ p r, p ++ r = w ∧ c :: p ∈ L ∧ r ∈ L ^ (k - 1) := by
  induction k with
  | zero => simp [Language.mem_one] at h
  | succ k ih =>
    rw [pow_succ', Language.mem_mul] at h
    obtain ⟨a, ha, b, hb, hab⟩ := h
    cases a with
    | nil =>
      simp only [List.nil_append] at hab
      subst hab
      obtain ⟨p, r, hpr, hp, hr⟩ := ih hb
      exact ⟨p, r, hpr, hp, pow_mono_of_nil ha hr (by omega)⟩
    | cons a p =>
      simp only [List.cons_append, List.cons.injEq] at hab
      obtain ⟨rfl, hab⟩ := hab
      exact ⟨p, b, hab, ha, hb⟩

/-! ### `loopMatch` -/

/-- `k ≤ hi` for an upper bound that may be infinite -/
def hiOK (k : ℕ) : Option ℕ → Prop
  | some j => k ≤ j
  | none => True

theorem loopMatch_succ_cons (m : List ℕ → Bool) (fuel lo : ℕ) (hi : Option ℕ) (c : ℕ) (w : List ℕ) :
    loopMatch m (fuel + 1) lo hi (c :: w) =
      ((match hi with | some h => decide (h ≥ 1) | none => true) &&
        (splits w).any fun x => m (c :: x.1) && loopMatch m fuel (lo - 1) (hi.map (· - 1)) x.2) := by
  cases hi <;> rfl

theorem loopMatch_iff (m : List ℕ → Bool) (L : Language ℕ)
    (hm : ∀ p, WFs p → (m p = true ↔ p ∈ L)) :
    ∀ (fuel lo : ℕ) (hi : Option ℕ) (w : List ℕ), WFs w → w.length ≤ fuel → hiOK lo hi →
      (loopMatch m fuel lo hi w = true ↔ ∃ k, lo ≤ k ∧ hiOK k hi ∧ w ∈ L ^ k) := by
  have hnil : ∀ (fuel lo : ℕ) (hi : Option ℕ), hiOK lo hi →
      (loopMatch m fuel lo hi [] = true ↔ ∃ k, lo ≤ k ∧ hiOK k hi ∧ ([] : List ℕ) ∈ L ^ k) := by
    intro fuel lo hi hlh
    have hm0 := hm [] (by simp [WFs])
    have e : loopMatch m fuel lo hi [] = (lo == 0 || m []) := by
      cases fuel <;> simp [loopMatch]
    rw [e]
    simp only [Bool.or_eq_true, beq_iff_eq]
    constructor
    · rintro (h | h)
      · subst h
        refine ⟨0, le_rfl, ?_, by simp [Language.mem_one]⟩
        cases hi <;> simp [hiOK]
      · exact ⟨lo, le_rfl, hlh, nil_mem_pow_of_nil_mem (hm0.1 h) lo⟩
    · rintro ⟨k, hk, _, hmem⟩
      by_cases h0 : lo = 0
      · exact Or.inl h0
      · exact Or.inr (hm0.2 (nil_mem_of_nil_mem_pow (by omega) hmem))
  intro fuel
  induction fuel with
  | zero =>
    intro lo hi w hw hf hlh
    cases w with
    | nil => exact hnil 0 lo hi hlh
    | cons c w => simp at hf
  | succ fuel ih =>
    intro lo hi w hw hf hlh
    cases w with
    | nil => exact hnil _ lo hi hlh
    | cons c w =>
      simp only [List.length_cons, Nat.add_le_add_iff_right] at hf
      rw [loopMatch_succ_cons, Bool.and_eq_true, any_splits]
      constructor
      · rintro ⟨hh, p, r, hpr, hpm⟩
        simp only [Bool.and_eq_true] at hpm
        obtain ⟨hp, hr⟩ := hpm
        subst hpr
        rw [WFs_cons, WFs_append] at hw
        have hwr : WFs r := hw.2.2
        have hwp : WFs (c :: p) := (WFs_cons c p).2 ⟨hw.1, hw.2.1⟩
        have hlh' : hiOK (lo - 1) (hi.map (· - 1)) := by
          cases hi with
          | none => simp [hiOK]
          | some h => simp only [hiOK, Option.map_some] at hlh ⊢; omega
        obtain ⟨k, hk, hkh, hmem⟩ :=
          (ih (lo - 1) (hi.map (· - 1)) r hwr (by simp at hf; omega) hlh').1 hr
        refine ⟨k + 1, by omega, ?_, ?_⟩
        · cases hi with
          | none => simp [hiOK]
          | some h =>
            simp only [hiOK, Option.map_some, decide_eq_true_eq] at hkh hh ⊢; omega
        · rw [pow_succ', Language.mem_mul]
          exact ⟨c :: p, (hm _ hwp).1 hp, r, hmem, rfl⟩
      · rintro ⟨k, hk, hkh, hmem⟩
        have hk0 : k ≠ 0 := by
          rintro rfl
          simp [Language.mem_one] at hmem
        obtain ⟨p, r, hpr, hp, hr⟩ := cons_mem_pow hmem
        subst hpr
        rw [WFs_cons, WFs_append] at hw
        have hwr : WFs r := hw.2.2
        have hwp : WFs (c :: p) := (WFs_cons c p).2 ⟨hw.1, hw.2.1⟩
        have hlh' : hiOK (lo - 1) (hi.map (· - 1)) := by
          cases hi with
          | none => simp [hiOK]
          | some h => simp only [hiOK, Option.map_some] at hlh ⊢; omega
        refine ⟨?_, p, r, rfl, ?_⟩
        · cases hi with
          | none => trivial
          | some h => simp only [hiOK, decide_eq_true_eq] at hkh ⊢; omega
        · simp only [Bool.and_eq_true]
          refine ⟨(hm _ hwp).2 hp, ?_⟩
          refine (ih (lo - 1) (hi.map (· - 1)) r hwr (by simp at hf; omega) hlh').2
            ⟨k - 1, by omega, ?_, hr⟩
          cases hi with
          | none => simp [hiOK]
          | some h => simp only [hiOK, Option.map_some] at hkh ⊢; omega

/-- `loopMatch` with enough fuel decides `loopLang L r` for a well-formed range -/
theorem loopMatch_iff_loopLang (m : List ℕ → Bool) (L : Language ℕ)
    (hm : ∀ p, WFs p → (m p = true ↔ p ∈ L)) (r : LoopRange)
    (hr : match r.stop with | some j => r.start ≤ j | none => True)
    (fuel : ℕ) (w : List ℕ) (hw : WFs w) (hf : w.length ≤ fuel) :
    loopMatch m fuel r.start r.stop w = true ↔ w ∈ loopLang L r := by
  have hlh : hiOK r.start r.stop := by
    cases h : r.stop <;> simp_all [hiOK]
  rw [loopMatch_iff m L hm fuel r.start r.stop w hw hf hlh]
  change _ ↔ ∃ k, LoopRange.Mem k r ∧ w ∈ L ^ k
  constructor
  · rintro ⟨k, h1, h2, h3⟩
    refine ⟨k, ⟨h1, ?_⟩, h3⟩
    cases h : r.stop <;> simp_all [hiOK]
  · rintro ⟨k, ⟨h1, h2⟩, h3⟩
    refine ⟨k, h1, ?_, h3⟩
    cases h : r.stop <;> simp_all [hiOK]

/-! ### the main theorem -/

mutual
theorem refMatch_iff : ∀ (e : RE), e.WF → ∀ (w : List ℕ), WFs w →
    (refMatch e w = true ↔ w ∈ e.lang)
  | .empty, _, w, _ => by
      simp only [refMatch, lang]
      constructor
      · intro h; cases h
      · intro h; exact absurd h (Language.notMem_zero w)
  | .epsilon, _, w, _ => by
      simp only [refMatch, lang, Language.mem_one, List.isEmpty_iff]
  | .range s, _, w, _ => by
      simp only [lang]
      change _ ↔ ∃ c, w = [c] ∧ s.start ≤ c ∧ c ≤ s.stop
      match w with
      | [] => simp [refMatch]
      | [c] => simp [refMatch, CharSet.contains]
      | _ :: _ :: _ => simp [refMatch]
  | .concat a b, he, w, hw => by
      simp only [WF] at he
      simp only [refMatch, lang]
      rw [any_splits, Language.mem_mul]
      constructor
      · rintro ⟨p, r, hpr, h⟩
        simp only [Bool.and_eq_true] at h
        subst hpr
        rw [WFs_append] at hw
        exact ⟨p, (refMatch_iff a he.1 p hw.1).1 h.1, r, (refMatch_iff b he.2 r hw.2).1 h.2, rfl⟩
      · rintro ⟨p, hp, r, hr, hpr⟩
        subst hpr
        rw [WFs_append] at hw
        refine ⟨p, r, rfl, ?_⟩
        simp only [Bool.and_eq_true]
        exact ⟨(refMatch_iff a he.1 p hw.1).2 hp, (refMatch_iff b he.2 r hw.2).2 hr⟩
  | .loop e rng, he, w, hw => by
      simp only [WF] at he
      simp only [refMatch, lang]
      exact loopMatch_iff_loopLang (fun p => refMatch e p) e.lang
        (fun p hp => refMatch_iff e he.1 p hp) rng he.2 w.length w hw le_rfl
  | .compl e, he, w, hw => by
      simp only [WF] at he
      simp only [refMatch, lang]
      change _ ↔ WFs w ∧ w ∉ e.lang
      rw [← refMatch_iff e he w hw]
      simp [hw]
  | .inter l, he, w, hw => by
      simp only [WF] at he
      simp only [refMatch, lang]
      change _ ↔ WFs w ∧ w ∈ langAll l
      rw [refMatchAll_iff l he w hw]
      simp [hw]
  | .union l, he, w, hw => by
      simp only [WF] at he
      simp only [refMatch, lang]
      exact refMatchAny_iff l he w hw
theorem refMatchAll_iff : ∀ (l : List RE), WFList l → ∀ (w : List ℕ), WFs w →
    (refMatchAll l w = true ↔ w ∈ langAll l)
  | [], _, w, _ => by
      simp only [refMatchAll, langAll]
      exact ⟨fun _ => trivial, fun _ => trivial⟩
  | x :: xs, hl, w, hw => by
      simp only [WFList] at hl
      simp only [refMatchAll, langAll, Bool.and_eq_true]
      rw [refMatch_iff x hl.1 w hw, refMatchAll_iff xs hl.2 w hw]
      exact Iff.rfl
theorem refMatchAny_iff : ∀ (l : List RE), WFList l → ∀ (w : List ℕ), WFs w →
    (refMatchAny l w = true ↔ w ∈ langAny l)
  | [], _, w, _ => by
      simp only [refMatchAny, langAny]
      constructor
      · intro h; cases h
      · intro h; exact absurd h (Language.notMem_zero w)
  | x :: xs, hl, w, hw => by
      simp only [WFList] at hl
      simp only [refMatchAny, langAny, Bool.or_eq_true, Language.mem_add]
      rw [refMatch_iff x hl.1 w hw, refMatchAny_iff xs hl.2 w hw]
end

/-! ### the hypotheses are needed -/

/-- without `WFs w` the complement clause differs: plain negation vs. complement within the
    SMT strings -/
theorem refMatch_compl_nonWF :
    refMatch (.compl .empty) [MAX_CHAR + 1] = true ∧ [MAX_CHAR + 1] ∉ (RE.compl .empty).lang := by
  refine ⟨by simp [refMatch], ?_⟩
  simp only [lang]
  rintro ⟨h, _⟩
  have := h (MAX_CHAR + 1) (by simp)
  omega

/-- without `e.WF` the loop clause differs (`lo > hi`): `ε ∈ refMatch (ε^[1,0])` -/
theorem refMatch_loop_nonWF :
    refMatch (.loop .epsilon ⟨1, some 0⟩) [] = true ∧ [] ∉ (RE.loop .epsilon ⟨1, some 0⟩).lang := by
  refine ⟨by simp [refMatch, loopMatch], ?_⟩
  simp only [lang]
  rintro ⟨k, ⟨h1, h2⟩, _⟩
  simp only at h1 h2
  omega

/-! ### non-vacuity -/

example : refMatch (.concat (.range ⟨97, 98⟩) (.loop (.range ⟨99, 99⟩) ⟨1, none⟩)) [97, 99, 99] = true := by
  decide
example : (RE.concat (.range ⟨97, 98⟩) (.loop (.range ⟨99, 99⟩) ⟨1, none⟩)).WF := by
  simp [WF, CharSet.WF, MAX_CHAR]

end RE
end Smt
