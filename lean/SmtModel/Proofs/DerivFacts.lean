/-
  Hypothesis bundles shared by C18 (start_char / start_class) and C10 (regex search / replace).

  Both properties sit on top of two results proved elsewhere:
    * C03 — `deriv ord e c` denotes the left quotient `c⁻¹ L(e)` (and derivative classes are uniform),
    * C05 — `isEmptyRe` is exact.
  They are taken here as *explicit hypothesis structures* over an abstract predicate
  `Good : RE → Prop` on terms (intended instance: `Good e := e.WF ∧ e.NZ`, for `PairSound ord`),
  so that C18/C10 are proved once, for every `ord`, and can be instantiated as soon as the C03/C05
  theorems are available (see the end of Props/C18.lean and Props/C10.lean).

  Every field is stated exactly as it is used.
-/
import Mathlib.Computability.Language
import SmtModel.Proofs.ReLang
import SmtModel.Model.Closure
import SmtModel.Props.C11

namespace Smt
namespace RE

/-- the side condition on the range of a loop node: `lo ≤ hi` (from `RE.WF`) and not `[0,0]`
    (from `RE.NZ`; `mk_loop` never builds such a node) -/
def LoopOK (r : LoopRange) : Prop :=
  (match r.stop with | some j => r.start ≤ j | none => True) ∧ r.isZero = false

/-- what C18 / C10 need from C03 (derivatives) and from the basic facts of `RE.lang` -/
structure DerivFacts (ord : RE → Nat) (Good : RE → Prop) : Prop where
  /-- derivatives of good terms by alphabet characters are good -/
  deriv_good : ∀ e c, Good e → c ≤ MAX_CHAR → Good (deriv ord e c)
  /-- C03 `char_derivative_quotient`: the derivative denotes the left quotient -/
  deriv_lang : ∀ e c, Good e → c ≤ MAX_CHAR → (deriv ord e c).lang = {w | c :: w ∈ e.lang}
  /-- the `nullable` flag is exact -/
  nullable_iff : ∀ e, Good e → (e.nullable = true ↔ [] ∈ e.lang)
  /-- every member of the language is an SMT string -/
  lang_sub : ∀ e, Good e → e.lang ≤ allStrings
  /-- `Good` is inherited by the body of a loop, whose range is `lo ≤ hi` and not `[0,0]` -/
  good_loop : ∀ e r, Good (.loop e r) → Good e ∧ LoopOK r
  /-- `Good` is inherited by the operands of a union -/
  good_union : ∀ l, Good (.union l) → ∀ e ∈ l, Good e

/-- what C18 needs from C05 (emptiness search) -/
structure EmptyFacts (ord : RE → Nat) (Good : RE → Prop) : Prop where
  /-- C05 `is_empty_iff` -/
  empty_iff : ∀ e fuel b, Good e → isEmptyRe ord fuel e = .ok b → (b = true ↔ ∀ w, w ∉ e.lang)
  /-- C05: the search does not panic on a good term -/
  no_panic : ∀ e fuel, Good e → isEmptyRe ord fuel e ≠ .panic

/-- what `start_class` needs from C03/C11 (derivative classes) -/
structure ClassFacts (Good : RE → Prop) : Prop where
  /-- the derivative classes of a good term form a well-formed partition -/
  class_wf : ∀ e, Good e → e.derivClass.WF
  /-- C03 `deriv_class_uniform`: characters of the same class have the same left quotient -/
  uniform : ∀ e c c', Good e → c ≤ MAX_CHAR → c' ≤ MAX_CHAR →
    e.derivClass.classOfChar c = e.derivClass.classOfChar c' →
    ∀ w, c :: w ∈ e.lang ↔ c' :: w ∈ e.lang

end RE
end Smt
