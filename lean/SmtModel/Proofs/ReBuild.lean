/-
  Helper lemmas for Props/C01.lean and Props/C07Tree.lean: the two structural invariants
  `RE.NZ` (no `[0,0]` loop, Proofs/ReNZ.lean) and `RE.ComplCanon` (complement nodes are canonical,
  Proofs/ReLangCore.lean) for the public constructors not yet covered by Proofs/DerivNZ.lean and
  Proofs/ReLangCore.lean:

    NZ          concat_list, char, range, smt_range, str, diff, diff_list
    ComplCanon  union, union_list, inter, inter_list, diff, diff_list, char, range, smt_range, str

  No new unfolding of the language semantics; everything is by membership in the operand lists.
-/
import SmtModel.Proofs.DerivFinal
import SmtModel.Proofs.RefMatch
import SmtModel.Model.Prog

namespace Smt.ReBuild
open Smt RE

/-! ### NZ -/

theorem flattenConcat_nz (e : RE) (h : e.NZ) : NZList (flattenConcat e) := by
  fun_induction flattenConcat e with
  | case1 => exact nzList_nil
  | case2 x y ihx ihy =>
    have := (nz_concat _ _).1 h
    exact (nzList_append _ _).2 ⟨ihx this.1, ihy this.2⟩
  | case3 r _ _ => exact (nzList_cons _ _).2 ⟨h, nzList_nil⟩

theorem mkConcat_good (a b : RE) (ha : Deriv.Good a) (hb : Deriv.Good b) :
    Deriv.Good (mkConcat a b) :=
  ⟨mkConcat_wf a b ha.1 hb.1, DerivNZ.mkConcat_good a b ha hb mkConcat_wf⟩

theorem foldr_mkConcat_good (l : List RE) (h : ∀ e ∈ l, Deriv.Good e) :
    Deriv.Good (l.foldr mkConcat .epsilon) := by
  induction l with
  | nil => exact ⟨trivial, nz_epsilon⟩
  | cons x xs ih =>
    rw [List.foldr_cons]
    exact mkConcat_good _ _ (h x (by simp)) (ih (fun e he => h e (by simp [he])))

theorem concatList_nz (a : List RE) (hw : WFList a) (hn : NZList a) : (concatList a).NZ := by
  rw [concatList]
  apply (foldr_mkConcat_good _ _).2
  intro e he
  obtain ⟨x, hx, hex⟩ := List.mem_flatMap.1 he
  exact ⟨(WFList_iff _).1 (flattenConcat_wf x ((WFList_iff _).1 hw x hx)) e hex,
    (nzList_iff _).1 (flattenConcat_nz x ((nzList_iff _).1 hn x hx)) e hex⟩

theorem char?_shape (x : ℕ) (e : RE) (h : char? x = some e) : ∃ s, e = .range s := by
  unfold char? at h
  split at h
  · cases h; exact ⟨_, rfl⟩
  · cases h

theorem range?_shape (a b : ℕ) (e : RE) (h : range? a b = some e) : ∃ s, e = .range s := by
  unfold range? at h
  split at h
  · cases h; exact ⟨_, rfl⟩
  · cases h

theorem smtRange_shape (s1 s2 : List ℕ) : smtRange s1 s2 = .empty ∨ ∃ s, smtRange s1 s2 = .range s := by
  unfold smtRange
  split
  · split
    · exact Or.inr ⟨_, rfl⟩
    · exact Or.inl rfl
  · exact Or.inl rfl

theorem range_canon (s : CharSet) : ComplCanon (.range s) := by rw [ComplCanon]; trivial

theorem str?_nz_canon (s : List ℕ) (e : RE) (h : str? s = some e) : e.NZ ∧ ComplCanon e := by
  induction s generalizing e with
  | nil =>
    simp only [str?, Option.some.injEq] at h
    subst h
    exact ⟨nz_epsilon, trivial⟩
  | cons c rest ih =>
    cases hr : str? rest with
    | none => simp [str?, hr] at h
    | some re =>
      cases hch : char? c with
      | none => simp [str?, hr, hch] at h
      | some ch =>
        simp only [str?, hr, hch, Option.bind_eq_bind, Option.bind_some, Option.pure_def,
          Option.some.injEq] at h
        subst h
        obtain ⟨h1, h2⟩ := ih re hr
        obtain ⟨cs, rfl⟩ := char?_shape c ch hch
        exact ⟨(mkConcat_good _ _ ⟨char?_wf c _ hch, nz_range cs⟩ ⟨str?_wf rest re hr, h1⟩).2,
          mkConcat_canon _ _ (range_canon cs) h2⟩

theorem nzList_complement_flatMap (l : List RE) (hl : NZList l) :
    NZList (l.flatMap (fun r => flattenInter r.complement)) :=
  DerivNZ.nzList_flatMap _ l (fun a ha =>
    DerivNZ.flattenInter_nz _ (DerivNZ.complement_nz a ((nzList_iff l).1 hl a ha)))

theorem mkDiff_nz (ord : RE → Nat) (a b : RE) (ha : a.NZ) (hb : b.NZ) : (mkDiff ord a b).NZ :=
  DerivNZ.mkInter_nz ord a b.complement ha (DerivNZ.complement_nz b hb)

theorem mkDiffList_nz (ord : RE → Nat) (a : RE) (l : List RE) (ha : a.NZ) (hl : NZList l) :
    (mkDiffList ord a l).NZ :=
  DerivNZ.makeInter_nz ord _
    ((nzList_append _ _).2 ⟨DerivNZ.flattenInter_nz a ha, nzList_complement_flatMap l hl⟩)

/-! ### ComplCanon -/

theorem canonList_append (l m : List RE) :
    ComplCanonList (l ++ m) ↔ ComplCanonList l ∧ ComplCanonList m := by
  simp only [ComplCanonList_iff, List.mem_append]
  constructor
  · intro h; exact ⟨fun e he => h e (.inl he), fun e he => h e (.inr he)⟩
  · rintro ⟨h1, h2⟩ e (he | he)
    · exact h1 e he
    · exact h2 e he

theorem canonList_flatMap {α : Type} (f : α → List RE) (l : List α)
    (h : ∀ a ∈ l, ComplCanonList (f a)) : ComplCanonList (l.flatMap f) := by
  rw [ComplCanonList_iff]
  intro e he
  obtain ⟨a, ha, hea⟩ := List.mem_flatMap.1 he
  exact (ComplCanonList_iff _).1 (h a ha) e hea

theorem canon_union (l : List RE) : ComplCanon (.union l) ↔ ComplCanonList l := by rw [ComplCanon]
theorem canon_inter (l : List RE) : ComplCanon (.inter l) ↔ ComplCanonList l := by rw [ComplCanon]

theorem flattenUnionList_canon (l : List RE)
    (h : ∀ e ∈ l, ComplCanon e → ComplCanonList (flattenUnion e))
    (hl : ComplCanonList l) : ComplCanonList (flattenUnionList l) := by
  induction l with
  | nil => simp only [flattenUnionList]; trivial
  | cons x xs ih =>
    rw [ComplCanonList] at hl
    simp only [flattenUnionList]
    rw [canonList_append]
    exact ⟨h x (by simp) hl.1, ih (fun e he => h e (by simp [he])) hl.2⟩

theorem flattenUnion_canon : ∀ e : RE, ComplCanon e → ComplCanonList (flattenUnion e) := by
  intro e
  induction e using Deriv.re_ind with
  | h_union l ih =>
    intro h
    simp only [flattenUnion]
    exact flattenUnionList_canon l ih ((canon_union l).1 h)
  | h_empty => intro h; simp only [flattenUnion]; exact ⟨h, trivial⟩
  | h_eps => intro h; simp only [flattenUnion]; exact ⟨h, trivial⟩
  | h_range s => intro h; simp only [flattenUnion]; exact ⟨h, trivial⟩
  | h_concat a b _ _ => intro h; simp only [flattenUnion]; exact ⟨h, trivial⟩
  | h_loop e r _ => intro h; simp only [flattenUnion]; exact ⟨h, trivial⟩
  | h_compl e _ => intro h; simp only [flattenUnion]; exact ⟨h, trivial⟩
  | h_inter l _ => intro h; simp only [flattenUnion]; exact ⟨h, trivial⟩

theorem flattenInterList_canon (l : List RE)
    (h : ∀ e ∈ l, ComplCanon e → ComplCanonList (flattenInter e))
    (hl : ComplCanonList l) : ComplCanonList (flattenInterList l) := by
  induction l with
  | nil => simp only [flattenInterList]; trivial
  | cons x xs ih =>
    rw [ComplCanonList] at hl
    simp only [flattenInterList]
    rw [canonList_append]
    exact ⟨h x (by simp) hl.1, ih (fun e he => h e (by simp [he])) hl.2⟩

theorem flattenInter_canon : ∀ e : RE, ComplCanon e → ComplCanonList (flattenInter e) := by
  intro e
  induction e using Deriv.re_ind with
  | h_inter l ih =>
    intro h
    simp only [flattenInter]
    exact flattenInterList_canon l ih ((canon_inter l).1 h)
  | h_empty => intro h; simp only [flattenInter]; exact ⟨h, trivial⟩
  | h_eps => intro h; simp only [flattenInter]; exact ⟨h, trivial⟩
  | h_range s => intro h; simp only [flattenInter]; exact ⟨h, trivial⟩
  | h_concat a b _ _ => intro h; simp only [flattenInter]; exact ⟨h, trivial⟩
  | h_loop e r _ => intro h; simp only [flattenInter]; exact ⟨h, trivial⟩
  | h_compl e _ => intro h; simp only [flattenInter]; exact ⟨h, trivial⟩
  | h_union l _ => intro h; simp only [flattenInter]; exact ⟨h, trivial⟩

theorem simplifySetOperation_canon (ord : RE → Nat) (v : List RE) (bottom top : RE)
    (hv : ComplCanonList v) (ht : ComplCanon top) :
    ComplCanonList (simplifySetOperation ord v bottom top) := by
  rw [ComplCanonList_iff] at hv ⊢
  intro e he
  rcases simplifySetOperation_subset ord v bottom top e he with h | h
  · exact hv e h
  · subst h; exact ht

theorem makeInter_canon (ord : RE → Nat) (v : List RE) (hv : ComplCanonList v) :
    ComplCanon (makeInter ord v) := by
  have hv' := simplifySetOperation_canon ord v sigmaStar .empty hv trivial
  unfold makeInter
  generalize simplifySetOperation ord v sigmaStar .empty = v' at hv'
  simp only
  split
  · split <;> trivial
  · split
    · exact sigmaStar_canon
    · exact hv'.1
    · exact (canon_inter _).2 hv'

theorem makeUnion_canon (ord : RE → Nat) (v : List RE) (hv : ComplCanonList v) :
    ComplCanon (makeUnion ord v) := by
  have hv' := simplifySetOperation_canon ord v .empty sigmaStar hv sigmaStar_canon
  unfold makeUnion
  generalize simplifySetOperation ord v .empty sigmaStar = v' at hv'
  have h2 : ComplCanonList (if v'.length ≥ 2 then removeSubsumed v' else v') := by
    split
    · rw [ComplCanonList_iff] at hv' ⊢
      exact fun e he => hv' e (removeSubsumed_subset v' e he)
    · exact hv'
  simp only
  generalize (if v'.length ≥ 2 then removeSubsumed v' else v') = v'' at h2
  split
  · trivial
  · exact h2.1
  · exact (canon_union _).2 h2

theorem mkUnion_canon (ord : RE → Nat) (a b : RE) (ha : ComplCanon a) (hb : ComplCanon b) :
    ComplCanon (mkUnion ord a b) :=
  makeUnion_canon ord _ ((canonList_append _ _).2 ⟨flattenUnion_canon a ha, flattenUnion_canon b hb⟩)

theorem mkUnionList_canon (ord : RE → Nat) (l : List RE) (hl : ComplCanonList l) :
    ComplCanon (mkUnionList ord l) :=
  makeUnion_canon ord _ (canonList_flatMap _ l
    (fun a ha => flattenUnion_canon a ((ComplCanonList_iff l).1 hl a ha)))

theorem mkInter_canon (ord : RE → Nat) (a b : RE) (ha : ComplCanon a) (hb : ComplCanon b) :
    ComplCanon (mkInter ord a b) :=
  makeInter_canon ord _ ((canonList_append _ _).2 ⟨flattenInter_canon a ha, flattenInter_canon b hb⟩)

theorem mkInterList_canon (ord : RE → Nat) (l : List RE) (hl : ComplCanonList l) :
    ComplCanon (mkInterList ord l) :=
  makeInter_canon ord _ (canonList_flatMap _ l
    (fun a ha => flattenInter_canon a ((ComplCanonList_iff l).1 hl a ha)))

theorem mkDiff_canon (ord : RE → Nat) (a b : RE) (ha : ComplCanon a) (hb : ComplCanon b) :
    ComplCanon (mkDiff ord a b) :=
  mkInter_canon ord a b.complement ha (complement_canon b hb)

theorem mkDiffList_canon (ord : RE → Nat) (a : RE) (l : List RE) (ha : ComplCanon a)
    (hl : ComplCanonList l) : ComplCanon (mkDiffList ord a l) :=
  makeInter_canon ord _ ((canonList_append _ _).2 ⟨flattenInter_canon a ha,
    canonList_flatMap _ l (fun r hr =>
      flattenInter_canon _ (complement_canon r ((ComplCanonList_iff l).1 hl r hr)))⟩)

/-! ### list forms of the list denotations -/

theorem langAny_eq_foldr (l : List RE) : langAny l = (l.map lang).foldr (· + ·) 0 := by
  induction l with
  | nil => rfl
  | cons x xs ih => simp only [langAny, List.map_cons, List.foldr_cons, ih]

theorem langAll_eq_foldr (l : List RE) : langAll l = (l.map lang).foldr (· ⊓ ·) ⊤ := by
  induction l with
  | nil => rfl
  | cons x xs ih => simp only [langAll, List.map_cons, List.foldr_cons, ih]

/-! ### the invariant of every term a manager can build, per public constructor -/

/-- well-formed, no `[0,0]` loop, complement nodes canonical -/
def Inv (e : RE) : Prop := e.WF ∧ e.NZ ∧ ComplCanon e

theorem Inv.good {e : RE} (h : Inv e) : Deriv.Good e := ⟨h.1, h.2.1⟩

theorem invList_wf {l : List RE} (h : ∀ e ∈ l, Inv e) : WFList l :=
  (WFList_iff l).2 (fun e he => (h e he).1)
theorem invList_nz {l : List RE} (h : ∀ e ∈ l, Inv e) : NZList l :=
  (nzList_iff l).2 (fun e he => (h e he).2.1)
theorem invList_canon {l : List RE} (h : ∀ e ∈ l, Inv e) : ComplCanonList l :=
  (ComplCanonList_iff l).2 (fun e he => (h e he).2.2)

theorem rangeOK_bridge {r : LoopRange} (h : RE.RangeOK r) : Deriv.RangeOK r := h

theorem empty_inv : Inv .empty := ⟨trivial, nz_empty, trivial⟩
theorem epsilon_inv : Inv .epsilon := ⟨trivial, nz_epsilon, trivial⟩
theorem sigma_inv : Inv sigma := ⟨sigma_wf, nz_sigma, range_canon _⟩
theorem sigmaStar_inv : Inv sigmaStar := ⟨sigmaStar_wf, nz_sigmaStar, sigmaStar_canon⟩
theorem sigmaPlus_inv : Inv sigmaPlus := ⟨sigmaPlus_wf, nz_sigmaPlus, sigmaPlus_canon⟩

theorem charSet_inv (cs : CharSet) (h : cs.WF) : Inv (charSet cs) :=
  ⟨by rw [charSet, WF]; exact h, nz_range cs, range_canon cs⟩

theorem char?_inv (x : ℕ) (e : RE) (h : char? x = some e) : Inv e := by
  obtain ⟨s, rfl⟩ := char?_shape x e h
  exact ⟨char?_wf x _ h, nz_range s, range_canon s⟩

theorem range?_inv (a b : ℕ) (e : RE) (h : range? a b = some e) : Inv e := by
  obtain ⟨s, rfl⟩ := range?_shape a b e h
  exact ⟨range?_wf a b _ h, nz_range s, range_canon s⟩

theorem smtRange_inv (s1 s2 : List ℕ) (h2 : WFs s2) : Inv (smtRange s1 s2) := by
  refine ⟨smtRange_wf s1 s2 h2, ?_⟩
  rcases smtRange_shape s1 s2 with h | ⟨s, h⟩
  · rw [h]; exact ⟨nz_empty, trivial⟩
  · rw [h]; exact ⟨nz_range s, range_canon s⟩

theorem str?_inv (s : List ℕ) (e : RE) (h : str? s = some e) : Inv e :=
  ⟨str?_wf s e h, (str?_nz_canon s e h).1, (str?_nz_canon s e h).2⟩

theorem complement_inv (e : RE) (h : Inv e) : Inv e.complement :=
  ⟨complement_wf e h.1, DerivNZ.complement_nz e h.2.1, complement_canon e h.2.2⟩

theorem mkConcat_inv (a b : RE) (ha : Inv a) (hb : Inv b) : Inv (mkConcat a b) :=
  ⟨mkConcat_wf a b ha.1 hb.1, (mkConcat_good a b ha.good hb.good).2,
    mkConcat_canon a b ha.2.2 hb.2.2⟩

theorem concatList_inv (l : List RE) (h : ∀ e ∈ l, Inv e) : Inv (concatList l) :=
  ⟨concatList_wf l (invList_wf h), concatList_nz l (invList_wf h) (invList_nz h),
    concatList_canon l (invList_canon h)⟩

theorem mkLoop_inv (e : RE) (r : LoopRange) (h : Inv e) (hr : RE.RangeOK r) : Inv (mkLoop e r) :=
  ⟨mkLoop_wf e r h.1 hr, DerivNZ.mkLoop_nz e r h.1 h.2.1 (rangeOK_bridge hr), mkLoop_canon e r h.2.2⟩

theorem star_inv (e : RE) (h : Inv e) : Inv (star e) := mkLoop_inv e _ h (rangeOK_inf 0)
theorem plus_inv (e : RE) (h : Inv e) : Inv (plus e) := mkLoop_inv e _ h (rangeOK_inf 1)
theorem opt_inv (e : RE) (h : Inv e) : Inv (opt e) :=
  mkLoop_inv e _ h ((rangeOK_fin 0 1).2 (Nat.zero_le _))
theorem exp_inv (e : RE) (k : ℕ) (h : Inv e) : Inv (exp e k) := mkLoop_inv e _ h (rangeOK_point k)

theorem smtLoop_inv (e : RE) (i j : ℕ) (h : Inv e) : Inv (smtLoop e i j) := by
  unfold smtLoop
  split
  · rename_i hij; exact mkLoop_inv e _ h ((rangeOK_fin i j).2 hij)
  · exact empty_inv

theorem mkUnion_inv (ord : RE → Nat) (a b : RE) (ha : Inv a) (hb : Inv b) : Inv (mkUnion ord a b) :=
  ⟨Final.mkUnion_wf ord a b ha.1 hb.1, DerivNZ.mkUnion_nz ord a b ha.2.1 hb.2.1,
    mkUnion_canon ord a b ha.2.2 hb.2.2⟩

theorem mkUnionList_inv (ord : RE → Nat) (l : List RE) (h : ∀ e ∈ l, Inv e) :
    Inv (mkUnionList ord l) :=
  ⟨Final.mkUnionList_wf ord l (invList_wf h), DerivNZ.mkUnionList_nz ord l (invList_nz h),
    mkUnionList_canon ord l (invList_canon h)⟩

theorem mkInter_inv (ord : RE → Nat) (a b : RE) (ha : Inv a) (hb : Inv b) : Inv (mkInter ord a b) :=
  ⟨Final.mkInter_wf ord a b ha.1 hb.1, DerivNZ.mkInter_nz ord a b ha.2.1 hb.2.1,
    mkInter_canon ord a b ha.2.2 hb.2.2⟩

theorem mkInterList_inv (ord : RE → Nat) (l : List RE) (h : ∀ e ∈ l, Inv e) :
    Inv (mkInterList ord l) :=
  ⟨Final.mkInterList_wf ord l (invList_wf h), DerivNZ.mkInterList_nz ord l (invList_nz h),
    mkInterList_canon ord l (invList_canon h)⟩

theorem mkDiff_inv (ord : RE → Nat) (a b : RE) (ha : Inv a) (hb : Inv b) : Inv (mkDiff ord a b) :=
  ⟨Final.mkDiff_wf ord a b ha.1 hb.1, mkDiff_nz ord a b ha.2.1 hb.2.1,
    mkDiff_canon ord a b ha.2.2 hb.2.2⟩

theorem mkDiffList_inv (ord : RE → Nat) (a : RE) (l : List RE) (ha : Inv a) (h : ∀ e ∈ l, Inv e) :
    Inv (mkDiffList ord a l) :=
  ⟨Final.mkDiffList_wf ord a l ha.1 (invList_wf h), mkDiffList_nz ord a l ha.2.1 (invList_nz h),
    mkDiffList_canon ord a l ha.2.2 (invList_canon h)⟩

end Smt.ReBuild
