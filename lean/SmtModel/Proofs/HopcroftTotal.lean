/-
  C04, Hopcroft layer 5: TOTALITY of the model of `minimizer.rs` / `Automaton::minimize`
  (Model/Hopcroft.lean): on a closed transition function (`Closed δ n k`, `1 ≤ n`, `1 ≤ k`, finality
  defined on the states) no `none` site of the model is reached — neither a Rust panic site nor the
  fuel of the `while` loop of `refine`.

  no panic.  The invariant of `Proofs/Hopcroft.lean` (`Inv`: `PartWF`, `Corr` with `LWF`, pred classes
  `PWF`) plus ONE new clause, `CurOK ss : ss.activeBlock < ss.list.length` (the cursor of
  `has_active_splitter` indexes `l[b]` before looking at anything else; it holds from the first
  `add_splitter` of `Minimizer::new` on — this is where `1 ≤ k` is needed), discharges every site:
    * `SplitterList::add` (`swap`), `pick_active`, `SplitterSet::add_splitter`, `has_active_splitter`,
      `pick_splitter`:                      `LWF`, `CurOK`                     (`pickSplitter_total`)
    * `upate_splitters_after_refinement`:   `s.class != 0`, `pred_classes[c]`, `refine_block`,
      `smaller_block`:                      structural part of `Corr` (`TInv`)  (`updateLoop_total`)
    * `init_main_partition`:                `num_blocks() == 2`, `(i, j) == (1, 2)`   (`new_total`)
    * `collect_refinement_candidates`:      `EntryOK` of the picked item, `FastSet` arguments
                                            `< num_blocks`                    (`collectLoop_total`)
    * `refine_block_with_splitter`:         `debug_assert!(i != 0)` needs the SEMANTIC fact that a
      candidate block still has a member whose successor lies in the splitter's block when its turn
      comes (the other candidates and "own block last" do not move such members)
                                            (`refineBlockWithSplitter_total`, `refineCandidates_total`)
    * `from_partition`, `remap_nodes`:      `PartWF` of the result          (`fromPartition_total`)

  fuel.  `Φ m = (number of active items) + k · (n + 1 − num_blocks)`.  A split of the main partition
  raises `num_blocks` by one and the number of active items by at most the length of the list of the
  split block (an active item yields ≤ 2 active items, an inactive one ≤ 1: `updateLoop_total`), which
  is `≤ k` (chars of one list are pairwise distinct and `< k`), and `num_blocks ≤ n + 1`
  (`numBlocks_le`): `Φ` does not increase.  `pick_splitter` lowers `Φ` by one.  After `new`,
  `Φ ≤ k·n < (k+1)·n + 1 = refineFuel n k` (in fact `Φ ≤ k·(n−1)`).

  * `run_total`, `refine_total`, `new_total`
  * `minimize_total`
-/
import SmtModel.Proofs.Hopcroft
import SmtModel.Proofs.HopcroftMinimize

namespace Smt
namespace Hopcroft
open BasePartition Partition

/-! ### the measure: number of active items -/

/-- sum of the `num_active` fields -/
def actSum (L : List SplitterList) : Nat := (L.map (·.numActive)).sum

/-- number of active items of a `SplitterSet` -/
def nAct (ss : SplitterSet) : Nat := actSum ss.list

/-- the cursor `active_block` is a valid index of `list` -/
def CurOK (ss : SplitterSet) : Prop := ss.activeBlock < ss.list.length

theorem actSum_set : ∀ (L : List SplitterList) (b : Nat) (l : SplitterList) (hb : b < L.length),
    actSum (L.set b l) + L[b].numActive = actSum L + l.numActive := by
  intro L
  induction L with
  | nil => intro b l hb; cases hb
  | cons a rest ih =>
    intro b l hb
    cases b with
    | zero => simp [actSum]; omega
    | succ b =>
      have := ih b l (by simpa using hb)
      simp only [actSum, List.set_cons_succ, List.map_cons, List.sum_cons, List.getElem_cons_succ] at this ⊢
      omega

theorem actSum_resize (L : List SplitterList) (m : Nat) :
    actSum (L ++ List.replicate m SplitterList.default) = actSum L := by
  unfold actSum
  rw [List.map_append, List.sum_append, List.map_replicate, List.sum_replicate]
  simp [SplitterList.default]

theorem add_meas {l l' : SplitterList} {s : SplitterItem} (h : l.add s = some l') :
    l'.numActive = l.numActive + (if s.active then 1 else 0) := by
  unfold SplitterList.add at h
  simp only at h
  split at h
  · split at h
    · split at h
      · cases h
      · cases h; simp [*]
    · cases h; simp [*]
  · cases h; simp [*]

theorem addSplitter_meas {ss : SplitterSet} (h : LWF ss) (s : Splitter) :
    ∃ ss', ss.addSplitter s = some ss' ∧ LWF ss' ∧ ss'.activeBlock = ss.activeBlock ∧
      ss.list.length ≤ ss'.list.length ∧ s.block < ss'.list.length ∧
      nAct ss' = nAct ss + (if s.active then 1 else 0) := by
  obtain ⟨ss', e, hl, _, _⟩ := addSplitter_spec h s
  refine ⟨ss', e, hl, ?_⟩
  unfold SplitterSet.addSplitter at e
  simp only at e
  obtain ⟨L, hL, hLlen, hLge, hLsum⟩ : ∃ L, L = (if ss.list.length ≤ s.block then
        ss.list ++ List.replicate (s.block + 1 - ss.list.length) SplitterList.default
      else ss.list) ∧ s.block < L.length ∧ ss.list.length ≤ L.length ∧ actSum L = actSum ss.list := by
    refine ⟨_, rfl, ?_, ?_, ?_⟩
    · split
      · simp; omega
      · omega
    · split
      · simp
      · exact Nat.le_refl _
    · split
      · exact actSum_resize _ _
      · rfl
  rw [← hL, List.getElem?_eq_getElem hLlen] at e
  simp only at e
  cases hadd : L[s.block].add (SplitterItem.fromSplitter s) with
  | none => rw [hadd] at e; cases e
  | some l' =>
    rw [hadd] at e
    simp only [Option.some.injEq] at e
    subst e
    refine ⟨rfl, by simpa using hLge, by simpa using hLlen, ?_⟩
    have h1 := actSum_set L s.block l' hLlen
    have h2 := add_meas hadd
    simp only [SplitterItem.fromSplitter] at h2
    show actSum (L.set s.block l') = actSum ss.list + _
    cases hsa : s.active <;> simp only [hsa, if_true, Bool.false_eq_true, if_false] at h2 ⊢ <;> omega

theorem takeList_meas (ss : SplitterSet) (b : Nat) :
    (ss.takeList b).2.activeBlock = ss.activeBlock ∧
    (ss.takeList b).2.list.length = ss.list.length ∧
    nAct (ss.takeList b).2 + (ss.takeList b).1.numActive = nAct ss := by
  unfold SplitterSet.takeList
  cases hb : ss.list[b]? with
  | none => simp [SplitterList.default]
  | some l =>
    have hlt : b < ss.list.length := (List.getElem?_eq_some_iff.1 hb).1
    have hget : ss.list[b] = l := by
      rw [List.getElem?_eq_getElem hlt] at hb; exact Option.some.inj hb
    have := actSum_set ss.list b SplitterList.default hlt
    rw [hget] at this
    simp only [List.length_set, true_and]
    show actSum (ss.list.set b SplitterList.default) + l.numActive = actSum ss.list
    simp only [SplitterList.default] at this ⊢
    omega

/-! ### `pick_splitter` never panics -/

theorem pickActive_total {l : SplitterList} (hl : l.numActive ≤ l.list.length) (hpos : 0 < l.numActive) :
    ∃ pair, l.pickActive = some (pair, { l with numActive := l.numActive - 1 }) := by
  unfold SplitterList.pickActive
  rw [if_neg (by omega)]
  simp only
  have hlt : l.numActive - 1 < l.list.length := by omega
  rw [List.getElem?_eq_getElem hlt]
  exact ⟨_, rfl⟩

theorem hasActive_total {ss : SplitterSet} (hc : CurOK ss) :
    ∃ fl ss1, ss.hasActiveSplitter = some (fl, ss1) ∧ ss1.list = ss.list ∧ (fl = false → ss1 = ss) ∧
      (fl = true → ∃ l, ss.list[ss1.activeBlock]? = some l ∧ 0 < l.numActive) := by
  unfold SplitterSet.hasActiveSplitter
  have hcur : ss.activeBlock < ss.list.length := hc
  rw [List.getElem?_eq_getElem hcur]
  simp only
  by_cases ha : ss.list[ss.activeBlock].hasActiveItems = true
  · rw [if_pos ha]
    refine ⟨true, ss, rfl, rfl, (fun e => by cases e), fun _ => ⟨_, List.getElem?_eq_getElem hcur, ?_⟩⟩
    simpa [SplitterList.hasActiveItems] using ha
  · rw [if_neg ha]
    cases hf : SplitterSet.firstActive ss.list 0 with
    | none => exact ⟨false, ss, rfl, rfl, fun _ => rfl, (fun e => by cases e)⟩
    | some b =>
      obtain ⟨_, l', hl', hpos⟩ := firstActive_some _ _ _ hf
      exact ⟨true, _, rfl, rfl, (fun e => by cases e), fun _ => ⟨l', by simpa using hl', hpos⟩⟩

theorem pickSplitter_total {ss : SplitterSet} (h : LWF ss) (hc : CurOK ss) :
    ∃ r ss', ss.pickSplitter = some (r, ss') ∧ CurOK ss' ∧
      (match r with
       | none => nAct ss' = nAct ss
       | some _ => nAct ss' + 1 = nAct ss) := by
  obtain ⟨fl, ss1, hhas, hlist, hfalse, htrue⟩ := hasActive_total hc
  unfold SplitterSet.pickSplitter
  rw [hhas]
  cases fl with
  | false =>
    rw [hfalse rfl]
    exact ⟨none, ss, rfl, hc, rfl⟩
  | true =>
    obtain ⟨l, hl, hpos⟩ := htrue rfl
    obtain ⟨L1, ab⟩ := ss1
    simp only at hlist hl
    subst hlist
    simp only [hl]
    have hlt : ab < ss.list.length := (List.getElem?_eq_some_iff.1 hl).1
    have hget : ss.list[ab] = l := by
      rw [List.getElem?_eq_getElem hlt] at hl; exact Option.some.inj hl
    obtain ⟨pair, hp⟩ := pickActive_total (h ab l hl) hpos
    rw [hp]
    refine ⟨_, _, rfl, ?_, ?_⟩
    · show ab < (ss.list.set ab _).length
      simpa using hlt
    · have := actSum_set ss.list ab { l with numActive := l.numActive - 1 } hlt
      rw [hget] at this
      show actSum (ss.list.set ab _) + 1 = actSum ss.list
      simp only at this
      omega

/-! ### `upate_splitters_after_refinement` never panics -/

theorem numBlocks_pos {p : BasePartition} {n : Nat} (hp : PWF p n) : 0 < p.numBlocks := by
  obtain ⟨h0, hb0, _⟩ := hp.blk0
  exact (List.getElem?_eq_some_iff.1 hb0).1

theorem blockSize_total {p : BasePartition} {n : Nat} (hp : PWF p n) {i : Nat} (hi : i < p.numBlocks) :
    ∃ sz, p.blockSize i = some sz := by
  unfold BasePartition.blockSize
  have hilt : i < p.block.length := hi
  rw [List.getElem?_eq_getElem hilt]
  simp only
  rw [if_pos (hp.hdr i _ (List.getElem?_eq_getElem hilt)).1]
  exact ⟨_, rfl⟩

theorem smallerBlock_total {p : BasePartition} {n : Nat} (hp : PWF p n) {i j : Nat}
    (hi : i < p.numBlocks) (hj : j < p.numBlocks) : ∃ b, p.smallerBlock i j = some b := by
  obtain ⟨a, ha⟩ := blockSize_total hp hi
  obtain ⟨b, hb⟩ := blockSize_total hp hj
  unfold BasePartition.smallerBlock
  rw [ha, hb]
  exact ⟨_, rfl⟩

section
variable {δ : Nat → Nat → Option Nat} {n k : Nat}

/-- the `refine_block` of the loop body: the closure `main.block_id(delta(x, c)) == i` does not
    panic on a pred class, the class index is a block -/
theorem refine_pred_total (hcl : Closed δ n k) {main : Partition} (hmain : PartWF main n) (i : Nat)
    {c : Nat} (hc : c < k) {p : BasePartition} (hp : PWF p n) {cls : Nat} (hcls : cls < p.numBlocks) :
    ∃ p' c1 c2, p.refineBlockOpt cls (fun x =>
        match δ x c with
        | none => none
        | some y => (main.blockIdOf y).map (fun v => v == i)) = some (p', (c1, c2)) ∧
      PWF p' n ∧ c1 < p'.numBlocks ∧ c2 < p'.numBlocks := by
  have hcongr : p.refineBlockOpt cls (fun x =>
        match δ x c with
        | none => none
        | some y => (main.blockIdOf y).map (fun v => v == i))
      = p.refineBlock cls (fun x => blk main (dd δ x c) == i) := by
    unfold BasePartition.refineBlock
    apply refineBlockOpt_congr
    intro s hs x hx
    have hxn : x < n := hp.bound cls x ⟨s, hs, hx⟩
    obtain ⟨e1, e2⟩ := hcl.eq hxn hc
    rw [e1]
    simp only
    rw [blockIdOf_eq hmain e2]
    rfl
  obtain ⟨p', r, heq, hp', hcases⟩ := refine_pwf hp hcls (fun x => blk main (dd δ x c) == i)
  refine ⟨p', r.1, r.2, by rw [hcongr, heq], hp', ?_⟩
  have h0 := numBlocks_pos hp
  rcases hcases with ⟨hr, hpe, _⟩ | ⟨hr, hpe, _, _⟩ | ⟨hr, hnb, _, _, _, _, _⟩
  · rw [hr, hpe]; exact ⟨h0, hcls⟩
  · rw [hr, hpe]; exact ⟨hcls, h0⟩
  · rw [hr]; simp only; constructor <;> omega

/-- weight of an item of the list being re-distributed: an active item yields at most two active
    items, an inactive one at most one -/
def wt (it : SplitterItem) : Nat := if it.active then 2 else 1
def wsum (l : List SplitterItem) : Nat := (l.map wt).sum

/-- the structural part of the loop invariant of `upate_splitters_after_refinement`, enough for
    the absence of panics -/
structure TInv (n k : Nat) (rest : List SplitterItem) (pc : List BasePartition) (ss : SplitterSet) :
    Prop where
  lwf : LWF ss
  pc_wf : ∀ (c : Nat) (p : BasePartition), pc[c]? = some p → PWF p n
  nodup : (rest.map (·.char)).Nodup
  ok : ∀ it ∈ rest, it.char < k ∧ it.cls ≠ 0 ∧ ∃ p, pc[it.char]? = some p ∧ it.cls < p.numBlocks

theorem updateLoop_total (hcl : Closed δ n k) {main : Partition} (hmain : PartWF main n) (i j : Nat) :
    ∀ (rest : List SplitterItem) (pc : List BasePartition) (ss : SplitterSet), TInv n k rest pc ss →
      ∃ pc' ss', updateLoop δ main i j rest pc ss = some (pc', ss') ∧
        ss'.activeBlock = ss.activeBlock ∧ ss.list.length ≤ ss'.list.length ∧
        nAct ss' ≤ nAct ss + wsum rest := by
  intro rest
  induction rest with
  | nil => intro pc ss _; exact ⟨pc, ss, rfl, rfl, Nat.le_refl _, by simp [wsum]⟩
  | cons s rest ih =>
    intro pc ss inv
    obtain ⟨hck, hcls0, p, hp, hclt⟩ := inv.ok s (List.mem_cons_self ..)
    obtain ⟨p', c1, c2, href, hp', hc1, hc2⟩ :=
      refine_pred_total hcl hmain i hck (inv.pc_wf _ _ hp) hclt
    -- the flags
    obtain ⟨a1, a2, hflags, hw⟩ : ∃ a1 a2, (if s.active then some (true, true) else
          match p'.smallerBlock c1 c2 with
          | none => none
          | some true => some (true, false)
          | some false => some (false, true)) = some (a1, a2) ∧
        (if a1 then 1 else 0) + (if a2 then 1 else 0) ≤ wt s := by
      cases hsa : s.active with
      | true => exact ⟨true, true, by simp, by simp [wt, hsa]⟩
      | false =>
        obtain ⟨b, hb⟩ := smallerBlock_total hp' hc1 hc2
        cases b with
        | true => exact ⟨true, false, by simp [hb], by simp [wt, hsa]⟩
        | false => exact ⟨false, true, by simp [hb], by simp [wt, hsa]⟩
    -- the two `add_splitter`
    have addOpt : ∀ (ss0 : SplitterSet) (b cl : Nat) (a : Bool), LWF ss0 →
        ∃ ss1, (if cl ≠ 0 then ss0.addSplitter { block := b, char := s.char, cls := cl, active := a }
          else some ss0) = some ss1 ∧ LWF ss1 ∧ ss1.activeBlock = ss0.activeBlock ∧
          ss0.list.length ≤ ss1.list.length ∧ nAct ss1 ≤ nAct ss0 + (if a then 1 else 0) := by
      intro ss0 b cl a hl0
      by_cases hz : cl ≠ 0
      · obtain ⟨ss1, e, hl, hab, hlen, _, hn⟩ :=
          addSplitter_meas hl0 { block := b, char := s.char, cls := cl, active := a }
        exact ⟨ss1, by rw [if_pos hz]; exact e, hl, hab, hlen, by rw [hn]⟩
      · exact ⟨ss0, by rw [if_neg hz], hl0, rfl, Nat.le_refl _, by omega⟩
    obtain ⟨ss1, hss1, hl1, hab1, hlen1, hn1⟩ := addOpt ss i c1 a1 inv.lwf
    obtain ⟨ss2, hss2, hl2, hab2, hlen2, hn2⟩ := addOpt ss1 j c2 a2 hl1
    have hcpc : s.char < pc.length := (List.getElem?_eq_some_iff.1 hp).1
    have hnd := inv.nodup
    rw [List.map_cons, List.nodup_cons] at hnd
    have inv' : TInv n k rest (pc.set s.char p') ss2 := by
      refine ⟨hl2, ?_, hnd.2, ?_⟩
      · intro c q hq
        by_cases hcc : c = s.char
        · subst hcc
          rw [List.getElem?_set_self hcpc] at hq
          cases hq; exact hp'
        · rw [List.getElem?_set_ne (fun e => hcc e.symm)] at hq
          exact inv.pc_wf c q hq
      · intro it hit
        obtain ⟨h1, h2, q, hq, h3⟩ := inv.ok it (List.mem_cons_of_mem _ hit)
        have hne : it.char ≠ s.char := fun e => hnd.1 (e ▸ List.mem_map_of_mem hit)
        exact ⟨h1, h2, q, by rw [List.getElem?_set_ne (fun e => hne e.symm)]; exact hq, h3⟩
    obtain ⟨pc', ss', e, hab, hlen, hn⟩ := ih _ _ inv'
    refine ⟨pc', ss', ?_, by rw [hab, hab2, hab1], by omega, ?_⟩
    · rw [updateLoop, if_neg hcls0]
      simp only [hp]
      split
      · rename_i heq; exact absurd (href.symm.trans heq) (by simp)
      · rename_i q d1 d2 heq
        obtain ⟨rfl, rfl, rfl⟩ : p' = q ∧ c1 = d1 ∧ c2 = d2 := by
          simpa using href.symm.trans heq
        split
        · rename_i hf; exact absurd (hflags.symm.trans hf) (by simp)
        · rename_i b1 b2 hf
          obtain ⟨rfl, rfl⟩ : a1 = b1 ∧ a2 = b2 := by simpa using hflags.symm.trans hf
          rw [hss1]
          simp only
          rw [hss2]
          exact e
    · have : wsum (s :: rest) = wt s + wsum rest := by simp [wsum]
      omega

theorem wt_true (X : List CharClassPair) :
    ((X.map (SplitterList.mk1 true)).map wt).sum = 2 * X.length := by
  induction X with
  | nil => rfl
  | cons a X ih => simp only [List.map_cons, List.sum_cons, ih, List.length_cons]; simp [wt, SplitterList.mk1]; omega

theorem wt_false (X : List CharClassPair) :
    ((X.map (SplitterList.mk1 false)).map wt).sum = X.length := by
  induction X with
  | nil => rfl
  | cons a X ih => simp only [List.map_cons, List.sum_cons, ih, List.length_cons]; simp [wt, SplitterList.mk1]; omega

theorem wsum_items {l : SplitterList} (hl : l.numActive ≤ l.list.length) :
    wsum l.items = l.list.length + l.numActive ∧ l.items.length = l.list.length := by
  rw [SplitterList.items_eq]
  unfold wsum
  rw [List.map_append, List.sum_append, wt_true, wt_false]
  simp only [List.length_take, List.length_drop, List.length_append, List.length_map]
  omega

theorem length_le_of_nodup_lt {l : List Nat} {k : Nat} (hnd : l.Nodup) (hlt : ∀ x ∈ l, x < k) :
    l.length ≤ k := by
  have hsub : l ⊆ List.range k := fun x hx => List.mem_range.2 (hlt x hx)
  have := (List.subperm_of_subset hnd hsub).length_le
  simpa using this

/-- at most `n` non-empty pairwise disjoint blocks besides block 0 -/
theorem numBlocks_le {p : BasePartition} {n : Nat} (hp : PWF p n) : p.numBlocks ≤ n + 1 := by
  classical
  have hne : ∀ t, t + 1 < p.numBlocks → ∃ x, Mem p (t + 1) x :=
    fun t ht => hp.nonempty (t + 1) (by omega) ht
  let r : Nat → Nat := fun t => if h : t + 1 < p.numBlocks then Classical.choose (hne t h) else 0
  have hr : ∀ t, t + 1 < p.numBlocks → Mem p (t + 1) (r t) := by
    intro t ht
    simp only [r, dif_pos ht]
    exact Classical.choose_spec (hne t ht)
  have hnd : ((List.range (p.numBlocks - 1)).map r).Nodup := by
    apply List.Nodup.map_on _ List.nodup_range
    intro t1 h1 t2 h2 e
    have m1 := hr t1 (by have := List.mem_range.1 h1; omega)
    have m2 := hr t2 (by have := List.mem_range.1 h2; omega)
    rw [e] at m1
    have := hp.disj _ _ _ m1 m2
    omega
  have hlt : ∀ z ∈ (List.range (p.numBlocks - 1)).map r, z < n := by
    intro z hz
    obtain ⟨t, ht, rfl⟩ := List.mem_map.1 hz
    exact hp.bound _ _ (hr t (by have := List.mem_range.1 ht; omega))
  have := length_le_of_nodup_lt hnd hlt
  simp only [List.length_map, List.length_range] at this
  omega

/-- `upate_splitters_after_refinement(i, j)` does not panic; the cursor stays valid and at most one
    more item per entry of the old list of `i` is active afterwards -/
theorem update_total (hcl : Closed δ n k) {m : Minimizer} (hmain : PartWF m.mainPartition n) (i j : Nat)
    (hl : LWF m.splitters) (hpc : ∀ (c : Nat) (p : BasePartition), m.predClasses[c]? = some p → PWF p n)
    (hnd : ((itemsAt m.splitters i).map (·.char)).Nodup)
    (hok : ∀ it ∈ itemsAt m.splitters i, it.char < k ∧ it.cls ≠ 0 ∧
      ∃ p, m.predClasses[it.char]? = some p ∧ it.cls < p.numBlocks) :
    ∃ m', updateSplittersAfterRefinement δ m i j = some m' ∧
      m'.mainPartition = m.mainPartition ∧
      m'.splitters.activeBlock = m.splitters.activeBlock ∧
      m.splitters.list.length ≤ m'.splitters.list.length ∧
      nAct m'.splitters ≤ nAct m.splitters + (itemsAt m.splitters i).length := by
  obtain ⟨ht1, ht2, _⟩ := takeList_spec hl i
  obtain ⟨hm1, hm2, hm3⟩ := takeList_meas m.splitters i
  have hold : (m.splitters.takeList i).1.numActive ≤ (m.splitters.takeList i).1.list.length := by
    unfold SplitterSet.takeList
    cases hb : m.splitters.list[i]? with
    | none => simp [SplitterList.default]
    | some l => simpa using hl i l hb
  unfold updateSplittersAfterRefinement
  generalize hT : m.splitters.takeList i = T at ht1 ht2 hm1 hm2 hm3 hold ⊢
  obtain ⟨old, ss0⟩ := T
  simp only at ht1 ht2 hm1 hm2 hm3 hold ⊢
  obtain ⟨pc', ss', e, hab, hlen, hn⟩ := updateLoop_total hcl hmain i j old.items m.predClasses ss0
    ⟨ht2, hpc, by rw [ht1]; exact hnd, by rw [ht1]; exact hok⟩
  rw [e]
  refine ⟨_, rfl, rfl, ?_, ?_, ?_⟩
  · show ss'.activeBlock = _
    rw [hab, hm1]
  · show _ ≤ ss'.list.length
    omega
  · show nAct ss' ≤ _
    obtain ⟨hw1, hw2⟩ := wsum_items hold
    rw [← ht1, hw2]
    omega

/-! ### `refine_block` of the main partition never panics -/

theorem finishRefine_total {P : Partition} (hP : PartWF P n) {i : Nat} (hi : i < P.base.numBlocks)
    (pro : Nat → Option Bool) (hdef : ∀ x, Mem P.base i x → pro x ≠ none) :
    ∃ Q r, finishRefine P.blockId (P.base.refineBlockOpt i pro) = some (Q, r) := by
  have hcongr : P.base.refineBlockOpt i pro
      = P.base.refineBlock i (fun x => (pro x).getD false) := by
    unfold BasePartition.refineBlock
    apply refineBlockOpt_congr
    intro s hs x hx
    have := hdef x ⟨s, hs, hx⟩
    cases hpx : pro x with
    | none => exact absurd hpx this
    | some b => simp [hpx]
  obtain ⟨p', r', heq, hp', hcases⟩ := refine_pwf hP.base hi (fun x => (pro x).getD false)
  rw [hcongr, heq]
  obtain ⟨b1, b2⟩ := r'
  unfold finishRefine
  simp only
  by_cases hb : b1 ≠ 0 ∧ b2 ≠ 0
  · rw [if_pos hb]
    have hb2 : b2 < p'.numBlocks := by
      rcases hcases with ⟨hr, _, _⟩ | ⟨hr, _, _, _⟩ | ⟨hr, hnb, _, _, _, _, _⟩
      · cases hr; exact absurd rfl hb.1
      · cases hr; exact absurd rfl hb.2
      · cases hr; omega
    obtain ⟨hd, hbk⟩ : ∃ hd, p'.block[b2]? = some hd := ⟨_, List.getElem?_eq_getElem hb2⟩
    rw [blockElements_of_hdr hp' hbk]
    simp only
    obtain ⟨ids', e1, _, _⟩ := setIds_spec b2 (window p'.segment hd) P.blockId (by
      intro x hx
      rw [hP.ids_len]
      exact hp'.bound b2 x ((mem_iff hp' b2 x).2 ⟨hd, hbk, hx⟩))
    rw [e1]
    exact ⟨_, _, rfl⟩
  · rw [if_neg hb]
    exact ⟨_, _, rfl⟩

theorem refineBlockWithFunP_some {P : Partition} (hP : PartWF P n) {i : Nat} (hi : i < P.base.numBlocks)
    (f : Nat → Option Nat) (b : Nat) (hf : ∀ x, Mem P.base i x → ∃ t, f x = some t ∧ t < n) :
    ∃ Q r, refineBlockWithFunP P i f b = some (Q, r) := by
  unfold refineBlockWithFunP
  apply finishRefine_total hP hi
  intro x hx
  obtain ⟨t, ht, hlt⟩ := hf x hx
  have : t < P.blockId.length := by rw [hP.ids_len]; exact hlt
  simp [ht, this]

theorem refineBlockP_some {P : Partition} (hP : PartWF P n) {i : Nat} (hi : i < P.base.numBlocks)
    (pr : Nat → Option Bool) (hf : ∀ x, Mem P.base i x → pr x ≠ none) :
    ∃ Q r, refineBlockP P i pr = some (Q, r) := by
  unfold refineBlockP
  exact finishRefine_total hP hi pr hf

/-! ### the round for one splitter never panics and does not raise the measure -/

variable {isFinal : Nat → Option Bool}

/-- the measure of the loop of `refine` -/
def Phi (n k : Nat) (m : Minimizer) : Nat :=
  nAct m.splitters + k * (n + 1 - m.mainPartition.numBlocks)

/-- `refine_block_with_splitter(s, b)`: `debug_assert!(i != 0)` holds because some member of `b` goes
    into the splitter's block -/
theorem refineBlockWithSplitter_total (hcl : Closed δ n k) {E : Nat → Nat → Nat → Prop} {m : Minimizer}
    (inv : Inv δ isFinal n k E m) (hcur : CurOK m.splitters) {s : Splitter} (hsk : s.char < k) {b : Nat}
    (hwit : ∃ x, x < n ∧ blk m.mainPartition x = b ∧ blk m.mainPartition (dd δ x s.char) = s.block) :
    ∃ m', refineBlockWithSplitter δ m s b = some m' ∧ CurOK m'.splitters ∧ Phi n k m' ≤ Phi n k m := by
  obtain ⟨x0, hx0, hx0b, hx0s⟩ := hwit
  have hmem0 : Mem m.mainPartition.base b x0 := (blk_spec inv.wf hx0 b).1 hx0b
  have hb : b < m.mainPartition.base.numBlocks := mem_lt_numBlocks hmem0
  have hb0 : b ≠ 0 := by
    rintro rfl
    exact not_mem_zero inv.wf.base x0 hmem0
  obtain ⟨Q, r, href⟩ := refineBlockWithFunP_some inv.wf hb (fun x => δ x s.char) s.block (by
    intro x hx
    have hxn := inv.wf.base.bound _ _ hx
    exact ⟨_, (hcl.eq hxn hsk).1, (hcl.eq hxn hsk).2⟩)
  obtain ⟨i, j⟩ := r
  obtain ⟨_, hQ, hcases⟩ := refineP_spec inv.wf _ href
  have hpr : ∀ x, x < n →
      ((match δ x s.char with
        | none => none
        | some t => (m.mainPartition.blockId[t]?).map (fun v => v == s.block)) : Option Bool).getD false
      = (blk m.mainPartition (dd δ x s.char) == s.block) := by
    intro x hx
    obtain ⟨e1, e2⟩ := hcl.eq hx hsk
    have e3 := blockIdOf_eq inv.wf e2
    unfold blockIdOf at e3
    simp only [e1, e3, Option.map_some, Option.getD_some]
  have hcases' : SplitCases m.mainPartition.base b
      (fun x => blk m.mainPartition (dd δ x s.char) == s.block) Q.base (i, j) :=
    SplitCases.congr hcases (fun x hx => hpr x (inv.wf.base.bound _ _ hx))
  have hnbpos := numBlocks_pos inv.wf.base
  unfold refineBlockWithSplitter
  rw [href]
  simp only
  rcases hcases' with ⟨hr, _, hall⟩ | ⟨hr, hpe, _, _⟩ | ⟨hr, hnb, _, _, _, _, _⟩
  · exfalso
    have := hall x0 hmem0
    simp [hx0s] at this
  · cases hr
    rw [if_neg hb0]
    simp only [ne_eq, not_true_eq_false, if_false]
    refine ⟨_, rfl, hcur, ?_⟩
    show nAct m.splitters + k * (n + 1 - Q.base.numBlocks) ≤ _
    rw [hpe]
    exact Nat.le_refl _
  · cases hr
    have hne : m.mainPartition.base.numBlocks ≠ 0 := by omega
    rw [if_neg hb0, if_pos hne, if_neg (not_not.2 rfl)]
    obtain ⟨m', e, hmain, hab, hlen, hn⟩ := update_total hcl (m := { m with mainPartition := Q }) hQ b
      m.mainPartition.base.numBlocks inv.corr.lwf inv.corr.pc_wf (inv.corr.f3 b) (fun it hit => by
        have hok := inv.corr.f1 b it hit
        obtain ⟨p, hp, hlt, _⟩ := hok.pred
        exact ⟨hok.char_lt, hok.cls_ne, p, hp, hlt⟩)
    refine ⟨m', e, ?_, ?_⟩
    · show m'.splitters.activeBlock < m'.splitters.list.length
      rw [hab]
      exact Nat.lt_of_lt_of_le hcur hlen
    · have hlen_k : (itemsAt m.splitters b).length ≤ k := by
        have := length_le_of_nodup_lt (inv.corr.f3 b) (by
          intro c hc
          obtain ⟨it, hit, rfl⟩ := List.mem_map.1 hc
          exact (inv.corr.f1 b it hit).char_lt)
        simpa using this
      have hQle := numBlocks_le hQ.base
      unfold Phi Partition.numBlocks
      rw [hmain]
      simp only at hn ⊢
      rw [hnb]
      have e1 : n + 1 - m.mainPartition.base.numBlocks = (n + 1 - (m.mainPartition.base.numBlocks + 1)) + 1 := by
        omega
      rw [e1, Nat.mul_succ]
      omega

theorem collectLoop_total {main : Partition} (hmain : PartWF main n) :
    ∀ (xs : List Nat) (set : FastSet), (∀ x ∈ xs, x < n) → FastSet.Inv set → set.max = main.numBlocks →
      ∃ set', collectLoop main xs set = some set' ∧
        ∀ b ∈ FastSet.live set', b ∈ FastSet.live set ∨ ∃ x ∈ xs, blk main x = b := by
  intro xs
  induction xs with
  | nil => intro set _ _ _; exact ⟨set, rfl, fun b hb => .inl hb⟩
  | cons x rest ih =>
    intro set hlt hi hmax
    have hx : x < n := hlt x (List.mem_cons_self ..)
    have hrest : ∀ y ∈ rest, y < n := fun y hy => hlt y (List.mem_cons_of_mem _ hy)
    have hbl := blk_pos hmain hx
    obtain ⟨sz, hsz⟩ := blockSize_total hmain.base hbl.2
    have hsz' : main.blockSize (blk main x) = some sz := hsz
    unfold collectLoop
    rw [blockIdOf_eq hmain hx]
    simp only
    rw [hsz']
    simp only
    by_cases hgt : sz > 1
    · rw [if_pos hgt]
      obtain ⟨set1, e1, hi1, hm1, hl1⟩ := FastSet.insert_spec hi (x := blk main x)
        (by rw [hmax]; exact hbl.2)
      rw [e1]
      simp only
      obtain ⟨set', e, hsub⟩ := ih set1 hrest hi1 (by rw [hm1]; exact hmax)
      refine ⟨set', e, ?_⟩
      intro b hb
      rcases hsub b hb with h1 | ⟨y, hy, e⟩
      · rw [hl1] at h1
        split at h1
        · exact .inl h1
        · rcases List.mem_append.1 h1 with h2 | h2
          · exact .inl h2
          · exact .inr ⟨x, List.mem_cons_self .., (List.mem_singleton.1 h2).symm⟩
      · exact .inr ⟨y, List.mem_cons_of_mem _ hy, e⟩
    · rw [if_neg hgt]
      obtain ⟨set', e, hsub⟩ := ih set hrest hi hmax
      refine ⟨set', e, ?_⟩
      intro b hb
      rcases hsub b hb with h1 | ⟨y, hy, e⟩
      · exact .inl h1
      · exact .inr ⟨y, List.mem_cons_of_mem _ hy, e⟩

/-- the loop over the candidate blocks: every candidate still has a member going into the
    splitter's block when its turn comes -/
theorem refineCandidates_total (hcl : Closed δ n k) {E : Nat → Nat → Nat → Prop} {s : Splitter}
    (hsk : s.char < k) (S0 : Nat → Prop) :
    ∀ (bs : List Nat) (m : Minimizer), Inv δ isFinal n k E m → CurOK m.splitters → bs.Nodup →
      s.block ∉ bs → s.block < m.mainPartition.numBlocks →
      (∀ z, z < n → (blk m.mainPartition z = s.block ↔ S0 z)) →
      (∀ b ∈ bs, ∃ x, x < n ∧ blk m.mainPartition x = b ∧ S0 (dd δ x s.char)) →
      ∃ m', refineCandidates δ s bs m = some m' ∧ Inv δ isFinal n k E m' ∧ CurOK m'.splitters ∧
        Phi n k m' ≤ Phi n k m ∧
        (∀ z, z < n → (blk m'.mainPartition z = s.block ↔ S0 z)) ∧
        (∀ z, z < n → blk m.mainPartition z ∉ bs → blk m'.mainPartition z = blk m.mainPartition z) := by
  intro bs
  induction bs with
  | nil =>
    intro m inv hcur _ _ _ hS0 _
    exact ⟨m, rfl, inv, hcur, Nat.le_refl _, hS0, fun _ _ _ => rfl⟩
  | cons b rest ih =>
    intro m inv hcur hnd hnot hlt hS0 hwit
    rw [List.nodup_cons] at hnd
    have hbne : b ≠ s.block := fun e => hnot (e ▸ List.mem_cons_self ..)
    obtain ⟨x, hx, hxb, hxs⟩ := hwit b (List.mem_cons_self ..)
    have hxs' : blk m.mainPartition (dd δ x s.char) = s.block := (hS0 _ (hcl.eq hx hsk).2).2 hxs
    obtain ⟨m1, e1, hcur1, hphi1⟩ := refineBlockWithSplitter_total hcl inv hcur hsk ⟨x, hx, hxb, hxs'⟩
    obtain ⟨inv1, _, _, hmove, hnb⟩ := refineBlockWithSplitter_inv hcl inv hsk e1
    have hS0' : ∀ z, z < n → (blk m1.mainPartition z = s.block ↔ S0 z) := by
      intro z hz
      rcases hmove z hz with e | ⟨e1, e2⟩
      · rw [e]; exact hS0 z hz
      · rw [← hS0 z hz, e1, e2]
        constructor
        · intro e; omega
        · intro e; exact absurd e hbne
    have hwit' : ∀ b' ∈ rest, ∃ x, x < n ∧ blk m1.mainPartition x = b' ∧ S0 (dd δ x s.char) := by
      intro b' hb'
      obtain ⟨y, hy, hyb, hys⟩ := hwit b' (List.mem_cons_of_mem _ hb')
      refine ⟨y, hy, ?_, hys⟩
      rcases hmove y hy with e | ⟨e, _⟩
      · rw [e]; exact hyb
      · exfalso
        rw [hyb] at e
        exact hnd.1 (e ▸ hb')
    obtain ⟨m', e, inv', hcur', hphi', hS0'', hstay⟩ := ih m1 inv1 hcur1 hnd.2
      (fun hm => hnot (List.mem_cons_of_mem _ hm)) (by omega) hS0' hwit'
    refine ⟨m', ?_, inv', hcur', by omega, hS0'', ?_⟩
    · unfold refineCandidates
      rw [e1]
      exact e
    · intro z hz hzn
      have h1 : blk m.mainPartition z ≠ b := fun e => hzn (e ▸ List.mem_cons_self ..)
      have h2 : blk m1.mainPartition z = blk m.mainPartition z := by
        rcases hmove z hz with e | ⟨e, _⟩
        · exact e
        · exact absurd e h1
      rw [hstay z hz (by rw [h2]; exact fun hm => hzn (List.mem_cons_of_mem _ hm)), h2]

/-- `refine_with_splitter(s)` for the splitter just picked -/
theorem refineWithSplitter_total (hcl : Closed δ n k) {m : Minimizer} {s : Splitter}
    (inv : Inv δ isFinal n k (Es δ m.mainPartition s) m) (hcur : CurOK m.splitters)
    (hs : (⟨s.char, s.cls, false⟩ : SplitterItem) ∈ itemsAt m.splitters s.block) :
    ∃ m', refineWithSplitter δ m s = some m' ∧ CurOK m'.splitters ∧ Phi n k m' ≤ Phi n k m := by
  have hok := inv.corr.f1 _ _ hs
  have hsk : s.char < k := hok.char_lt
  obtain ⟨p, hp, hclt, hM⟩ := hok.pred
  simp only at hp hclt hM
  have hpwf := inv.corr.pc_wf _ _ hp
  have hblt : s.block < m.mainPartition.numBlocks := by
    obtain ⟨x, hx⟩ := hpwf.nonempty s.cls (Nat.pos_of_ne_zero hok.cls_ne) hclt
    obtain ⟨hxn, e⟩ := (hM x).1 hx
    rw [← e]
    exact (blk_pos inv.wf (hcl.eq hxn hsk).2).2
  obtain ⟨hd, hbk⟩ : ∃ hd, p.block[s.cls]? = some hd := ⟨_, List.getElem?_eq_getElem hclt⟩
  have hxs := blockElements_of_hdr hpwf hbk
  have hxs_mem : ∀ x, x ∈ window p.segment hd ↔
      (x < n ∧ blk m.mainPartition (dd δ x s.char) = s.block) := by
    intro x
    rw [← hM x]
    constructor
    · intro hx; exact ⟨_, hxs, hx⟩
    · rintro ⟨l, hl, hx⟩
      rw [hxs] at hl; cases hl; exact hx
  have hxlt : ∀ x ∈ window p.segment hd, x < n := fun x hx => ((hxs_mem x).1 hx).1
  have hi0 : FastSet.Inv (FastSet.new m.mainPartition.numBlocks).reset :=
    FastSet.reset_inv (FastSet.new_inv _)
  obtain ⟨set1, hcollect, hback⟩ := collectLoop_total inv.wf (window p.segment hd)
    (FastSet.new m.mainPartition.numBlocks).reset hxlt hi0 rfl
  obtain ⟨hi1, hmax1, _, _⟩ := collectLoop_spec inv.wf (window p.segment hd) _ set1 hxlt hi0 rfl hcollect
  have hmax1' : set1.max = m.mainPartition.numBlocks := by rw [hmax1]; rfl
  have hback' : ∀ b ∈ FastSet.live set1, ∃ x, x < n ∧ blk m.mainPartition x = b ∧
      blk m.mainPartition (dd δ x s.char) = s.block := by
    intro b hb
    rcases hback b hb with h1 | ⟨x, hx, e⟩
    · rw [FastSet.reset_live] at h1; cases h1
    · exact ⟨x, ((hxs_mem x).1 hx).1, e, ((hxs_mem x).1 hx).2⟩
  have hcrc : collectRefinementCandidates m s (FastSet.new m.mainPartition.numBlocks) = some set1 := by
    unfold collectRefinementCandidates
    simp only [hp, hxs]
    exact hcollect
  unfold refineWithSplitter
  simp only
  rw [hcrc]
  simp only
  rw [FastSet.contains_spec hi1 (by rw [hmax1']; exact hblt)]
  simp only
  obtain ⟨set2, hset2, hi2, hlive2⟩ : ∃ set2,
      (if decide (s.block ∈ FastSet.live set1) = true then set1.remove s.block else some set1)
        = some set2 ∧ FastSet.Inv set2 ∧
      ∀ z, z ∈ FastSet.live set2 ↔ z ∈ FastSet.live set1 ∧ z ≠ s.block := by
    by_cases hself : s.block ∈ FastSet.live set1
    · obtain ⟨set2, e, hi, _, hmem, _⟩ := FastSet.remove_spec hi1 (x := s.block)
        (by rw [hmax1']; exact hblt)
      exact ⟨set2, by simp [hself, e], hi, hmem⟩
    · refine ⟨set1, by simp [hself], hi1, ?_⟩
      intro z
      constructor
      · intro hz; exact ⟨hz, fun e => hself (e ▸ hz)⟩
      · intro hz; exact hz.1
  rw [hset2]
  simp only
  rw [(FastSet.iter_spec hi2).1]
  simp only
  obtain ⟨m1, hcands, inv1, hcur1, hphi1, hS01, hstay⟩ := refineCandidates_total hcl hsk
    (fun z => blk m.mainPartition z = s.block) (FastSet.live set2) m inv hcur (FastSet.live_nodup hi2)
    (fun hm => ((hlive2 _).1 hm).2 rfl) hblt (fun z _ => Iff.rfl) (fun b hb => by
      obtain ⟨x, hx, e1, e2⟩ := hback' b ((hlive2 b).1 hb).1
      exact ⟨x, hx, e1, e2⟩)
  rw [hcands]
  simp only
  by_cases hself : s.block ∈ FastSet.live set1
  · simp only [hself, decide_true, if_true]
    obtain ⟨x, hx, e1, e2⟩ := hback' _ hself
    have hx1 : blk m1.mainPartition x = s.block := by
      rw [hstay x hx (by rw [e1]; exact fun hm => ((hlive2 _).1 hm).2 rfl), e1]
    have hx2 : blk m1.mainPartition (dd δ x s.char) = s.block :=
      (hS01 _ (hcl.eq hx hsk).2).2 e2
    obtain ⟨m', e, hcur', hphi'⟩ := refineBlockWithSplitter_total hcl inv1 hcur1 hsk ⟨x, hx, hx1, hx2⟩
    exact ⟨m', e, hcur', by omega⟩
  · simp only [hself, decide_false, Bool.false_eq_true, if_false]
    exact ⟨m1, rfl, hcur1, hphi1⟩

/-! ### the loop of `refine`: no panic, and the fuel suffices -/

/-- one iteration of the `while` loop of `refine` (`pick_splitter`, then `refine_with_splitter` if a
    splitter was picked): no panic site is reached, the invariant (`Inv` and `CurOK`) is
    re-established and the measure `Φ` drops -/
theorem round_total (hcl : Closed δ n k) {m : Minimizer}
    (inv : Inv δ isFinal n k (fun _ _ _ => False) m) (hcur : CurOK m.splitters) :
    m.mainPartition.index = some (m.mainPartition.numBlocks - 1) ∧
    ∃ r m1, pickSplitter m = some (r, m1) ∧
      ∀ s, r = some s → ∃ m2, refineWithSplitter δ m1 s = some m2 ∧
        Inv δ isFinal n k (fun _ _ _ => False) m2 ∧ CurOK m2.splitters ∧ Phi n k m2 < Phi n k m := by
  refine ⟨?_, ?_⟩
  · unfold Partition.index BasePartition.index
    have := numBlocks_pos inv.wf.base
    rw [if_neg (by omega)]
    rfl
  · obtain ⟨r, ss', hp, hcur', hmeas⟩ := pickSplitter_total inv.corr.lwf hcur
    have hpick : pickSplitter m = some (r, { m with splitters := ss' }) := by
      unfold pickSplitter
      rw [hp]
    refine ⟨r, _, hpick, ?_⟩
    rintro s rfl
    obtain ⟨_, inv1, hs⟩ := pick_inv inv hpick
    simp only at hmeas
    have inv1' : Inv δ isFinal n k
        (Es δ ({ m with splitters := ss' } : Minimizer).mainPartition s) { m with splitters := ss' } :=
      inv1
    obtain ⟨m2, e2, hcur2, hphi2⟩ := refineWithSplitter_total hcl inv1' hcur' hs
    refine ⟨m2, e2, refineWithSplitter_inv hcl inv1' hs e2, hcur2, ?_⟩
    have : Phi n k { m with splitters := ss' } + 1 = Phi n k m := by
      unfold Phi
      simp only
      omega
    omega

theorem refineLoop_total (hcl : Closed δ n k) :
    ∀ (fuel : Nat) (m : Minimizer), Inv δ isFinal n k (fun _ _ _ => False) m → CurOK m.splitters →
      Phi n k m < fuel → ∃ m', refineLoop δ fuel m = some m' := by
  intro fuel
  induction fuel with
  | zero => intro m _ _ h; omega
  | succ fuel ih =>
    intro m inv hcur hphi
    obtain ⟨hidx, r, m1, hpick, hround⟩ := round_total hcl inv hcur
    unfold refineLoop
    rw [hidx]
    simp only
    by_cases hlt : m.mainPartition.numBlocks - 1 < m.numStates
    · rw [if_pos hlt, hpick]
      cases r with
      | none => exact ⟨_, rfl⟩
      | some s =>
        simp only
        obtain ⟨m2, e2, inv2, hcur2, hphi2⟩ := hround s rfl
        rw [e2]
        simp only
        exact ih m2 inv2 hcur2 (by omega)
    · rw [if_neg hlt]
      exact ⟨_, rfl⟩

/-! ### `Minimizer::new` -/

theorem newLoop_total : ∀ (cs : List Nat) (ss : SplitterSet), LWF ss →
    ∃ ss', newLoop cs ss = some ss' ∧ LWF ss' ∧ ss'.activeBlock = ss.activeBlock ∧
      ss.list.length ≤ ss'.list.length ∧ (cs ≠ [] → 1 < ss'.list.length) ∧ nAct ss' = nAct ss := by
  intro cs
  induction cs with
  | nil => intro ss hl; exact ⟨ss, rfl, hl, rfl, Nat.le_refl _, fun h => absurd rfl h, rfl⟩
  | cons c rest ih =>
    intro ss hl
    obtain ⟨ss1, e1, hl1, hab1, hlen1, hb1, hn1⟩ :=
      addSplitter_meas hl { block := 1, char := c, cls := 1, active := false }
    obtain ⟨ss', e, hl', hab, hlen, _, hn⟩ := ih ss1 hl1
    refine ⟨ss', ?_, hl', by rw [hab, hab1], by omega, fun _ => by simp only at hb1; omega, ?_⟩
    · unfold newLoop
      rw [e1]
      exact e
    · rw [hn, hn1]
      simp

theorem new_total (hcl : Closed δ n k) (hn : 1 ≤ n) (hk : 1 ≤ k) (hfin : ∀ x, x < n → isFinal x ≠ none) :
    ∃ m, Hopcroft.new δ isFinal n k = some m ∧ CurOK m.splitters ∧ Phi n k m ≤ k * n := by
  have hn' : 0 < n := hn
  have hl0 : LWF SplitterSet.new := by
    intro b l hb; simp [SplitterSet.new] at hb
  obtain ⟨ss, hss, hl, hab, _, h1, hact⟩ := newLoop_total (List.range k) SplitterSet.new hl0
  have hcur : CurOK ss := by
    have := h1 (by
      intro e
      have := congrArg List.length e
      simp at this
      omega)
    show ss.activeBlock < ss.list.length
    rw [hab]
    show 0 < _
    omega
  have hnact : nAct ss = 0 := by rw [hact]; rfl
  have hP := new_partWF hn'
  have hnb2 : (Partition.new n).numBlocks = 2 := new_numBlocks hn'
  have hkn : k * (n + 1 - 2) ≤ k * n := Nat.mul_le_mul_left _ (by omega)
  unfold Hopcroft.new
  simp only
  rw [hss]
  simp only
  unfold initMainPartition
  simp only
  rw [if_neg (not_not.2 hnb2)]
  obtain ⟨Q, r, href⟩ := refineBlockP_some hP (i := 1)
    (by show 1 < (Partition.new n).numBlocks; rw [hnb2]; omega) isFinal
    (fun x hx => hfin x (hP.base.bound _ _ hx))
  rw [href]
  simp only
  obtain ⟨i, j⟩ := r
  obtain ⟨_, hQ, hcases⟩ := refineP_spec hP _ href
  rcases hcases with ⟨hr, hpe, _⟩ | ⟨hr, hpe, _, _⟩ | ⟨hr, hnb, _, _, _, _, _⟩
  · cases hr
    simp only [ne_eq, not_true_eq_false, false_and, if_false]
    refine ⟨_, rfl, hcur, ?_⟩
    show nAct ss + k * (n + 1 - Q.base.numBlocks) ≤ _
    rw [hpe, hnact]
    have : (Partition.new n).base.numBlocks = 2 := hnb2
    rw [this]
    omega
  · cases hr
    simp only [ne_eq, not_true_eq_false, and_false, if_false]
    refine ⟨_, rfl, hcur, ?_⟩
    show nAct ss + k * (n + 1 - Q.base.numBlocks) ≤ _
    rw [hpe, hnact]
    have : (Partition.new n).base.numBlocks = 2 := hnb2
    rw [this]
    omega
  · have hnbP : (Partition.new n).base.numBlocks = 2 := hnb2
    rw [hnbP] at hr hnb
    cases hr
    simp only [ne_eq, OfNat.ofNat_ne_zero, not_false_eq_true, and_self, if_true, not_true_eq_false,
      if_false, one_ne_zero]
    -- the list of block 1
    obtain ⟨_, hoth, hone⟩ := newLoop_spec _ _ _ hl0 hss
    have hempty : ∀ b, itemsAt SplitterSet.new b = [] := by
      intro b; simp [itemsAt, itemsOf, SplitterSet.new]
    rw [hempty, List.nil_append] at hone
    obtain ⟨m', e, hmain, hab', hlen', hnm⟩ := update_total hcl
      (m := { numStates := n, alphabetSize := k, mainPartition := Q,
              predClasses := List.replicate k (BasePartition.new n), splitters := ss })
      hQ 1 2 hl
      (by
        intro c p hp
        rw [List.getElem?_replicate] at hp
        split at hp
        · cases hp; exact new_pwf hn'
        · cases hp)
      (by
        show ((itemsAt ss 1).map (·.char)).Nodup
        rw [(hone.map _).nodup_iff, List.map_map]
        have : ((fun it : SplitterItem => it.char) ∘ fun c => (⟨c, 1, false⟩ : SplitterItem)) = id := rfl
        rw [this, List.map_id]
        exact List.nodup_range)
      (by
        intro it hit
        have hit' : it ∈ itemsAt ss 1 := hit
        rw [hone.mem_iff, List.mem_map] at hit'
        obtain ⟨c, hc, rfl⟩ := hit'
        have hc' := List.mem_range.1 hc
        refine ⟨hc', by simp, BasePartition.new n, by simp [hc'], ?_⟩
        rw [new_numBlocks hn']
        simp)
    refine ⟨m', e, ?_, ?_⟩
    · show m'.splitters.activeBlock < m'.splitters.list.length
      rw [hab']
      exact Nat.lt_of_lt_of_le hcur hlen'
    · have hlen1 : (itemsAt ss 1).length = k := by
        rw [hone.length_eq]; simp
      have hm1 : nAct m'.splitters ≤ k := by
        have := hnm
        simp only at this
        rw [hnact, hlen1] at this
        omega
      unfold Phi Partition.numBlocks
      rw [hmain]
      simp only
      rw [hnb]
      have e1 : k * n = k * (n - 1) + k := by
        have : n = (n - 1) + 1 := by omega
        conv => lhs; rw [this, Nat.mul_succ]
      have e2 : k * (n + 1 - (2 + 1)) ≤ k * (n - 1) := Nat.mul_le_mul_left _ (by omega)
      omega

theorem refine_total (hcl : Closed δ n k) {m : Minimizer}
    (inv : Inv δ isFinal n k (fun _ _ _ => False) m) (hcur : CurOK m.splitters)
    (hphi : Phi n k m ≤ k * n) : ∃ m', refine δ m = some m' := by
  unfold refine refineFuel
  rw [inv.ns, inv.as]
  apply refineLoop_total hcl _ m inv hcur
  have : (k + 1) * n = k * n + n := by rw [Nat.add_mul, Nat.one_mul]
  omega

/-- T:run_total — on a closed transition function over `n ≥ 1` states and `k ≥ 1` letters with a
    finality closure defined on the states, `Minimizer::new(n, k, delta, is_final).refine()` reaches
    no panic site and its loop ends within the model's fuel `(k+1)·n+1` -/
theorem run_total (hcl : Closed δ n k) (hn : 1 ≤ n) (hk : 1 ≤ k)
    (hfin : ∀ x, x < n → isFinal x ≠ none) : ∃ P, Hopcroft.run δ isFinal n k = some P := by
  obtain ⟨m, hnew, hcur, hphi⟩ := new_total (isFinal := isFinal) hcl hn hk hfin
  obtain ⟨m', href⟩ := refine_total hcl (new_inv hcl hnew) hcur hphi
  refine ⟨m'.mainPartition, ?_⟩
  unfold Hopcroft.run
  rw [hnew]
  simp only
  rw [href]
  rfl

end

end Hopcroft

/-! ### `StateMapping::from_partition` and `Automaton::minimize` -/

namespace StateMapping
open BasePartition Partition

theorem newIds_total {p : Partition} {n : Nat} (hP : PartWF p n) : ∀ (xs newId : List Nat),
    (∀ s ∈ xs, s < n) → newId.length = n → ∃ r, fromPartitionNewIds p xs newId = some r := by
  intro xs
  induction xs with
  | nil => intro newId _ _; exact ⟨newId, rfl⟩
  | cons s rest ih =>
    intro newId hlt hlen
    have hs : s < n := hlt s (List.mem_cons_self ..)
    unfold fromPartitionNewIds
    rw [blockIdOf_eq hP hs]
    simp only
    rw [if_neg (by have := (blk_pos hP hs).1; omega), if_pos (by omega)]
    exact ih _ (fun y hy => hlt y (List.mem_cons_of_mem _ hy)) (by simpa using hlen)

theorem oldIds_total {p : Partition} {n : Nat} (hP : PartWF p n) : ∀ (bs oldId : List Nat),
    (∀ b ∈ bs, 1 ≤ b ∧ b < p.numBlocks ∧ b - 1 < oldId.length) →
    ∃ r, fromPartitionOldIds p bs oldId = some r := by
  intro bs
  induction bs with
  | nil => intro oldId _; exact ⟨oldId, rfl⟩
  | cons b rest ih =>
    intro oldId hb
    obtain ⟨h1, h2, h3⟩ := hb b (List.mem_cons_self ..)
    obtain ⟨x, hx, _⟩ := BasePartition.pickElement_mem hP.base (b := b) (by omega) h2
    have hx' : p.pickElement b = some x := hx
    unfold fromPartitionOldIds
    rw [hx']
    simp only
    rw [if_pos h3]
    exact ih _ (fun b' hb' => by
      obtain ⟨a1, a2, a3⟩ := hb b' (List.mem_cons_of_mem _ hb')
      exact ⟨a1, a2, by simpa using a3⟩)

/-- `from_partition(p)` does not panic on a well-formed partition, and `old_id[j]` is a member of
    block `j + 1`, which `new_id` sends back to `j` -/
theorem fromPartition_total {p : Partition} {n : Nat} (hP : PartWF p n) :
    ∃ sm, fromPartition p = some sm ∧ sm.newId.length = n ∧ sm.oldId.length = p.numBlocks - 1 ∧
      ∀ j, j < sm.oldId.length → ∃ x, sm.oldId[j]? = some x ∧ x < n ∧ sm.newId[x]? = some j := by
  have hpos := Hopcroft.numBlocks_pos hP.base
  have hidx : p.index = some (p.numBlocks - 1) := by
    unfold Partition.index BasePartition.index
    rw [if_neg (by omega)]
    rfl
  have hsize : p.sizeOf = n := hP.base.size_eq
  have hbs : ∀ b ∈ (List.range p.numBlocks).drop 1, 1 ≤ b ∧ b < p.numBlocks := by
    intro b hb
    obtain ⟨i, hi, rfl⟩ := List.getElem_of_mem hb
    simp only [List.getElem_drop, List.getElem_range]
    simp only [List.length_drop, List.length_range] at hi
    omega
  obtain ⟨newId, hnew⟩ := newIds_total hP (List.range n) (List.replicate n 0)
    (fun s hs => List.mem_range.1 hs) (by simp)
  obtain ⟨oldId, hold⟩ := oldIds_total hP ((List.range p.numBlocks).drop 1)
    (List.replicate (p.numBlocks - 1) 0) (fun b hb => by
      obtain ⟨a1, a2⟩ := hbs b hb
      exact ⟨a1, a2, by simp; omega⟩)
  obtain ⟨hnlen, hnin, _⟩ := newIds_spec _ _ _ _ hnew
  obtain ⟨holen, hoin⟩ := oldIds_spec _ _ _ _ (fun b hb => (hbs b hb).1) hold
  refine ⟨⟨newId, oldId⟩, ?_, by simpa using hnlen, by simpa using holen, ?_⟩
  · unfold fromPartition
    simp only [hidx, hsize, hnew, hold]
  · intro j hj
    simp only at hj ⊢
    have hj' : j < p.numBlocks - 1 := by simpa [holen] using hj
    have hmem : j + 1 ∈ (List.range p.numBlocks).drop 1 := by
      rw [List.mem_iff_getElem]
      refine ⟨j, by simp; omega, by simp; omega⟩
    obtain ⟨x, hx, hox⟩ := hoin _ hmem
    obtain ⟨x', hx', hmx⟩ := BasePartition.pickElement_mem hP.base (b := j + 1) (by omega)
      (by show j + 1 < p.numBlocks; omega)
    have hxx : x' = x := by
      have : p.pickElement (j + 1) = p.base.pickElement (j + 1) := rfl
      rw [this, hx'] at hx
      exact Option.some.inj hx
    subst hxx
    have hxn := hP.base.bound _ _ hmx
    refine ⟨x', by simpa using hox, hxn, ?_⟩
    obtain ⟨b, hb, _, e⟩ := hnin x' (List.mem_range.2 hxn)
    rw [blockIdOf_eq hP hxn] at hb
    cases hb
    rw [e, (blk_spec hP hxn (j + 1)).2 hmx]
    rfl

end StateMapping

namespace Minimize
open Hopcroft

/-- T:minimize_total — the model of `Automaton::minimize` reaches no panic site and stays within the
    fuel of `refine` on every automaton as the crate hands them out -/
theorem minimize_total {A : Automaton} (hw : AutWF A) (h : wfAut A = true) :
    ∃ A', A.minimize = some A' := by
  obtain ⟨T, hT, _, hTa, heval⟩ := C14.compile_successors_eval hw
  have hnum : A.numStates = A.states.length := (wfAut_spec h).1
  have hale : ∀ c ∈ A.pickAlphabet, c ≤ MAX_CHAR := (alphabet_covers h).1
  have hδ : ∀ i j, i < A.states.length → j < A.pickAlphabet.length →
      T.eval i j = some (stepD A i (A.pickAlphabet.getD j 0)) ∧
      stepD A i (A.pickAlphabet.getD j 0) < A.states.length := by
    intro i j hi hj
    obtain ⟨t, ht, he⟩ := heval i hi j hj
    have hc : A.pickAlphabet.getD j 0 = A.pickAlphabet[j] := by
      simp [List.getD_eq_getElem?_getD, hj]
    have hcm : A.pickAlphabet[j] ≤ MAX_CHAR := hale _ (List.getElem_mem hj)
    have hs : stepD A i A.pickAlphabet[j] = t.id := by
      simp [stepD, stepIdx, List.getElem?_eq_getElem hi, ht]
    rw [hc, hs]
    exact ⟨he, by rw [← hs]; exact stepD_lt h hi hcm⟩
  have hcl : Hopcroft.Closed (fun i j => T.eval i j) A.states.length A.pickAlphabet.length :=
    fun x c hx hc => ⟨_, (hδ x c hx hc).1, (hδ x c hx hc).2⟩
  have hn : 1 ≤ A.states.length := Nat.lt_of_le_of_lt (Nat.zero_le _) hw.init
  have hk : 1 ≤ A.pickAlphabet.length := List.length_pos_iff.2 (C14.pickAlphabet_ne_nil hw)
  have hfin : ∀ x, x < A.states.length → (fun i => (A.state i).map (·.isFinal)) x ≠ none := by
    intro x hx
    simp [Automaton.state, hx]
  obtain ⟨mz, hnew, hcur, hphi⟩ := new_total hcl hn hk hfin
  have inv0 := new_inv hcl hnew
  obtain ⟨mz', hrefine⟩ := refine_total hcl inv0 hcur hphi
  obtain ⟨inv', _⟩ := refineLoop_inv hcl _ mz mz' hrefine inv0
  have hP := inv'.wf
  have hpos := Hopcroft.numBlocks_pos hP.base
  have hidx : mz'.mainPartition.index = some (mz'.mainPartition.numBlocks - 1) := by
    unfold Partition.index BasePartition.index
    rw [if_neg (by omega)]
    rfl
  unfold Automaton.minimize
  simp only [hT]
  rw [hnum, hTa, hnew]
  simp only
  rw [hrefine]
  simp only
  rw [hidx]
  simp only
  by_cases hlt : mz'.mainPartition.numBlocks - 1 < A.states.length
  · rw [if_pos hlt]
    obtain ⟨sm, hsm, hnl, _, hrep⟩ := StateMapping.fromPartition_total hP
    rw [hsm]
    simp only
    obtain ⟨Q, hQ, _⟩ := remap_isQuot h (blk := sm.newId) (nb := sm.oldId.length)
      (rep := fun j => sm.oldId.getD j 0) hnl (by
        intro j hj
        obtain ⟨x, hx, hxn, e⟩ := hrep j hj
        have : sm.oldId.getD j 0 = x := by rw [List.getD_eq_getElem?_getD, hx]; rfl
        rw [this]
        exact ⟨hxn, e⟩)
    have hsm_eq : (⟨sm.newId, (List.range sm.oldId.length).map (fun j => sm.oldId.getD j 0)⟩ : StateMapping)
        = sm := by
      obtain ⟨a, b⟩ := sm
      simp only [StateMapping.mk.injEq, true_and]
      apply List.ext_getElem?
      intro j
      by_cases hj : j < b.length
      · simp [hj, List.getD_eq_getElem?_getD]
      · rw [List.getElem?_eq_none (by simp; omega), List.getElem?_eq_none (by omega)]
    rw [hsm_eq] at hQ
    exact ⟨Q, hQ⟩
  · rw [if_neg hlt]
    exact ⟨A, rfl⟩

end Minimize
end Smt
