/-
  C04, Hopcroft layer 2: the correspondence between the splitter lists, the pred-class partitions and
  the main partition (`Corr`), and its preservation by `upate_splitters_after_refinement(i, j)`.

  Context: `δ` closed on `n` states and `k` letters (`Closed`), `dd δ x c` the total successor.
  `B x` = the block of state `x` in the main partition.

  * `EntryOK … B pc b it`   item `it = (c, cls, _)` of block `b`: `c < k`, `cls ≠ 0`, and block `cls`
                            of `pred_classes[c]` is exactly `pred(b, c) = {x | B(δ(x,c)) = b}`
  * `Corr … B pc ss`        every item of every list is `EntryOK`; every non-empty `pred(b, c)` has an
                            item in the list of `b`; the chars of a list are pairwise distinct; the
                            pred-class partitions are well formed
  * `update_spec`           after block `i` has been split into `i` and `j` (new block function `Bn`,
                            old one `Bo`), `upate_splitters_after_refinement(i, j)` re-establishes
                            `Corr` for `Bn` and transfers activity:
                              (T1) lists of other blocks unchanged,
                              (T2) an active `(i, c)` makes every non-empty `(i, c)`, `(j, c)` active,
                              (T3) otherwise, if both `pred(i, c)` and `pred(j, c)` are non-empty, one of
                                   `(i, c)`, `(j, c)` becomes active (Hopcroft's "smaller half", whichever
                                   half the code picks)
-/
import SmtModel.Proofs.HopcroftPart
import SmtModel.Proofs.HopcroftLists

namespace Smt
namespace Hopcroft
open BasePartition Partition

/-- `delta` is defined and stays inside the state set for every state and letter -/
def Closed (δ : Nat → Nat → Option Nat) (n k : Nat) : Prop :=
  ∀ x c, x < n → c < k → ∃ t, δ x c = some t ∧ t < n

/-- the total successor function -/
def dd (δ : Nat → Nat → Option Nat) (x c : Nat) : Nat := (δ x c).getD 0

theorem Closed.eq {δ : Nat → Nat → Option Nat} {n k : Nat} (h : Closed δ n k) {x c : Nat}
    (hx : x < n) (hc : c < k) : δ x c = some (dd δ x c) ∧ dd δ x c < n := by
  obtain ⟨t, ht, hlt⟩ := h x c hx hc
  simp [dd, ht, hlt]

section
variable {δ : Nat → Nat → Option Nat} {n k : Nat}

structure EntryOK (δ : Nat → Nat → Option Nat) (n k : Nat) (B : Nat → Nat)
    (pc : List BasePartition) (b : Nat) (it : SplitterItem) : Prop where
  char_lt : it.char < k
  cls_ne : it.cls ≠ 0
  pred : ∃ p, pc[it.char]? = some p ∧ it.cls < p.numBlocks ∧
    ∀ x, Mem p it.cls x ↔ (x < n ∧ B (dd δ x it.char) = b)

structure Corr (δ : Nat → Nat → Option Nat) (n k : Nat) (B : Nat → Nat)
    (pc : List BasePartition) (ss : SplitterSet) : Prop where
  lwf : LWF ss
  pc_len : pc.length = k
  pc_wf : ∀ (c : Nat) (p : BasePartition), pc[c]? = some p → PWF p n
  f1 : ∀ (b : Nat) (it : SplitterItem), it ∈ itemsAt ss b → EntryOK δ n k B pc b it
  f2 : ∀ x c, x < n → c < k → ∃ it ∈ itemsAt ss (B (dd δ x c)), it.char = c
  f3 : ∀ b, ((itemsAt ss b).map (·.char)).Nodup

/-- `(b, c)` is an active splitter -/
def Act (ss : SplitterSet) (b c : Nat) : Prop :=
  ∃ it ∈ itemsAt ss b, it.char = c ∧ it.active = true

/-- refining block `cls` of `pred_classes[c]` leaves every other item `EntryOK` -/
theorem entryOK_frame {B : Nat → Nat} {pc : List BasePartition} {c cls : Nat}
    {p p' : BasePartition} (hpc : pc[c]? = some p) (hle : p.numBlocks ≤ p'.numBlocks)
    (hframe : ∀ cls', cls' ≠ cls → cls' < p.numBlocks → ∀ x, Mem p' cls' x ↔ Mem p cls' x)
    {b : Nat} {it : SplitterItem} (h : EntryOK δ n k B pc b it)
    (hne : it.char ≠ c ∨ it.cls ≠ cls) : EntryOK δ n k B (pc.set c p') b it := by
  refine ⟨h.char_lt, h.cls_ne, ?_⟩
  obtain ⟨q, hq, hlt, hM⟩ := h.pred
  by_cases hc : it.char = c
  · rw [hc] at hq
    rw [hpc] at hq
    cases hq
    have hcls : it.cls ≠ cls := by
      rcases hne with h1 | h1
      · exact absurd hc h1
      · exact h1
    refine ⟨p', ?_, by omega, ?_⟩
    · rw [hc]
      have : c < pc.length := (List.getElem?_eq_some_iff.1 hpc).1
      simp [this]
    · intro x
      rw [hframe it.cls hcls hlt x]
      exact hM x
  · refine ⟨q, ?_, hlt, hM⟩
    rw [List.getElem?_set_ne (fun e => hc e.symm)]
    exact hq

/-- what one `refine_block` of the loop of `upate_splitters_after_refinement` does to the pred
    class `pred(i_old, c)`: it is cut into `pred(i, c)` and `pred(j, c)` -/
theorem refine_pred_class (hcl : Closed δ n k) {main : Partition} (hmain : PartWF main n)
    {i j : Nat} (hij : i ≠ j) {Bo : Nat → Nat}
    (hBo : ∀ x, x < n → Bo x = if blk main x = j then i else blk main x)
    {c : Nat} (hc : c < k) {p : BasePartition} (hp : PWF p n) {cls : Nat} (hcls0 : cls ≠ 0)
    (hM : ∀ x, Mem p cls x ↔ (x < n ∧ Bo (dd δ x c) = i))
    {p' : BasePartition} {c1 c2 : Nat}
    (h : p.refineBlockOpt cls (fun x =>
        match δ x c with
        | none => none
        | some y => (main.blockIdOf y).map (fun v => v == i)) = some (p', (c1, c2))) :
    PWF p' n ∧ p.numBlocks ≤ p'.numBlocks ∧
    (∀ cls', cls' ≠ cls → cls' < p.numBlocks → ∀ x, Mem p' cls' x ↔ Mem p cls' x) ∧
    (c1 ≠ 0 → c1 < p'.numBlocks ∧ ∀ x, Mem p' c1 x ↔ (x < n ∧ blk main (dd δ x c) = i)) ∧
    (c1 = 0 → ∀ x, x < n → blk main (dd δ x c) ≠ i) ∧
    (c2 ≠ 0 → c2 < p'.numBlocks ∧ ∀ x, Mem p' c2 x ↔ (x < n ∧ blk main (dd δ x c) = j)) ∧
    (c2 = 0 → ∀ x, x < n → blk main (dd δ x c) ≠ j) := by
  -- cls is a block
  have hcls : cls < p.numBlocks := by
    cases hb : p.block[cls]? with
    | none => simp [refineBlockOpt, hb] at h
    | some hd => exact (List.getElem?_eq_some_iff.1 hb).1
  -- the closure is total on the block
  have hcongr : p.refineBlockOpt cls (fun x =>
        match δ x c with
        | none => none
        | some y => (main.blockIdOf y).map (fun v => v == i))
      = p.refineBlock cls (fun x => blk main (dd δ x c) == i) := by
    unfold BasePartition.refineBlock
    apply refineBlockOpt_congr
    intro s hs x hx
    have hxn : x < n := ((hM x).1 ⟨s, hs, hx⟩).1
    obtain ⟨e1, e2⟩ := hcl.eq hxn hc
    rw [e1]
    simp only
    rw [blockIdOf_eq hmain e2]
    rfl
  rw [hcongr] at h
  obtain ⟨p'', r, heq, hp', hcases⟩ := refine_pwf hp hcls (fun x => blk main (dd δ x c) == i)
  rw [heq] at h
  simp only [Option.some.injEq, Prod.mk.injEq] at h
  obtain ⟨rfl, hr⟩ := h
  -- the relation between old and new blocks
  have hBn_i : ∀ x, x < n → blk main x = i → Bo x = i := by
    intro x hx e; rw [hBo x hx, e, if_neg hij]
  have hBn_j : ∀ x, x < n → blk main x = j → Bo x = i := by
    intro x hx e; rw [hBo x hx, if_pos e]
  have hBo_i : ∀ x, x < n → Bo x = i → blk main x = i ∨ blk main x = j := by
    intro x hx e
    rw [hBo x hx] at e
    split at e
    · right; assumption
    · left; exact e
  have hdn : ∀ x, x < n → dd δ x c < n := fun x hx => (hcl.eq hx hc).2
  rcases hcases with ⟨hr', hpe, hall⟩ | ⟨hr', hpe, hall, _⟩ | ⟨hr', hnb, _, _, hMi, hMn, hMo⟩
  · -- (0, cls): nobody goes to i
    rw [hr'] at hr
    simp only [Prod.mk.injEq] at hr
    obtain ⟨rfl, rfl⟩ := hr
    subst hpe
    have hnot : ∀ x, x < n → blk main (dd δ x c) ≠ i := by
      intro x hx e
      have := hall x ((hM x).2 ⟨hx, hBn_i _ (hdn x hx) e⟩)
      simp [e] at this
    refine ⟨hp, Nat.le_refl _, fun _ _ _ _ => Iff.rfl, fun h0 => absurd rfl h0, fun _ => hnot,
      fun _ => ⟨hcls, ?_⟩, fun h0 => absurd h0 hcls0⟩
    intro x
    rw [hM x]
    constructor
    · rintro ⟨hx, e⟩
      refine ⟨hx, ?_⟩
      rcases hBo_i _ (hdn x hx) e with e' | e'
      · exact absurd e' (hnot x hx)
      · exact e'
    · rintro ⟨hx, e⟩
      exact ⟨hx, hBn_j _ (hdn x hx) e⟩
  · -- (cls, 0): everybody goes to i
    rw [hr'] at hr
    simp only [Prod.mk.injEq] at hr
    obtain ⟨rfl, rfl⟩ := hr
    subst hpe
    have hnot : ∀ x, x < n → blk main (dd δ x c) ≠ j := by
      intro x hx e
      have := hall x ((hM x).2 ⟨hx, hBn_j _ (hdn x hx) e⟩)
      simp only [beq_iff_eq] at this
      rw [e] at this
      exact hij this.symm
    refine ⟨hp, Nat.le_refl _, fun _ _ _ _ => Iff.rfl, fun _ => ⟨hcls, ?_⟩, fun h0 => absurd h0 hcls0,
      fun h0 => absurd rfl h0, fun _ => hnot⟩
    intro x
    rw [hM x]
    constructor
    · rintro ⟨hx, e⟩
      refine ⟨hx, ?_⟩
      rcases hBo_i _ (hdn x hx) e with e' | e'
      · exact e'
      · exact absurd e' (hnot x hx)
    · rintro ⟨hx, e⟩
      exact ⟨hx, hBn_i _ (hdn x hx) e⟩
  · -- a real split
    rw [hr'] at hr
    simp only [Prod.mk.injEq] at hr
    obtain ⟨rfl, rfl⟩ := hr
    refine ⟨hp', by omega, ?_, fun _ => ⟨by omega, ?_⟩, fun h0 => absurd h0 hcls0,
      fun _ => ⟨by omega, ?_⟩, fun h0 => by omega⟩
    · intro cls' h1 h2 x
      exact hMo cls' h1 (by omega) x
    · intro x
      rw [hMi x, hM x]
      constructor
      · rintro ⟨⟨hx, _⟩, e⟩
        exact ⟨hx, by simpa using e⟩
      · rintro ⟨hx, e⟩
        exact ⟨⟨hx, hBn_i _ (hdn x hx) e⟩, by simpa using e⟩
    · intro x
      rw [hMn x, hM x]
      constructor
      · rintro ⟨⟨hx, e⟩, e2⟩
        refine ⟨hx, ?_⟩
        rcases hBo_i _ (hdn x hx) e with e' | e'
        · simp [e'] at e2
        · exact e'
      · rintro ⟨hx, e⟩
        refine ⟨⟨hx, hBn_j _ (hdn x hx) e⟩, ?_⟩
        simp only [beq_eq_false_iff_ne, ne_eq]
        rw [e]
        exact fun e' => hij e'.symm

/-! ### the loop of `upate_splitters_after_refinement` -/

/-- the two conditional `add_splitter` calls at the end of the loop body -/
theorem add_two {ss : SplitterSet} (h : LWF ss) {i j : Nat} (hij : i ≠ j) (c c1 c2 : Nat) (a1 a2 : Bool)
    {ss1 ss2 : SplitterSet}
    (e1 : (if c1 ≠ 0 then ss.addSplitter { block := i, char := c, cls := c1, active := a1 }
            else some ss) = some ss1)
    (e2 : (if c2 ≠ 0 then ss1.addSplitter { block := j, char := c, cls := c2, active := a2 }
             else some ss1) = some ss2) :
    LWF ss2 ∧ (∀ b, b ≠ i → b ≠ j → itemsAt ss2 b = itemsAt ss b) ∧
    (itemsAt ss2 i).Perm (itemsAt ss i ++ if c1 ≠ 0 then [⟨c, c1, a1⟩] else []) ∧
    (itemsAt ss2 j).Perm (itemsAt ss j ++ if c2 ≠ 0 then [⟨c, c2, a2⟩] else []) := by
  -- first add
  obtain ⟨hl1, ho1, hi1, hj1⟩ : LWF ss1 ∧ (∀ b, b ≠ i → itemsAt ss1 b = itemsAt ss b) ∧
      (itemsAt ss1 i).Perm (itemsAt ss i ++ if c1 ≠ 0 then [⟨c, c1, a1⟩] else []) ∧
      itemsAt ss1 j = itemsAt ss j := by
    by_cases hc1 : c1 ≠ 0
    · obtain ⟨ss1', e, hl, ho, hp⟩ := addSplitter_spec h { block := i, char := c, cls := c1, active := a1 }
      rw [if_pos hc1, e] at e1
      cases e1
      refine ⟨hl, ho, ?_, ho j (fun e => hij e.symm)⟩
      rw [if_pos hc1]; exact hp
    · rw [if_neg hc1] at e1
      cases e1
      exact ⟨h, fun _ _ => rfl, by rw [if_neg hc1]; simp, rfl⟩
  by_cases hc2 : c2 ≠ 0
  · rw [if_pos hc2] at e2
    obtain ⟨ss2', e, hl, ho, hp⟩ := addSplitter_spec hl1 { block := j, char := c, cls := c2, active := a2 }
    rw [e] at e2
    cases e2
    refine ⟨hl, ?_, ?_, ?_⟩
    · intro b hbi hbj; rw [ho b hbj, ho1 b hbi]
    · rw [ho i hij]; exact hi1
    · rw [if_pos hc2, ← hj1]; exact hp
  · rw [if_neg hc2] at e2
    cases e2
    refine ⟨hl1, ?_, hi1, ?_⟩
    · intro b hbi _; exact ho1 b hbi
    · rw [if_neg hc2, hj1]; simp

/-- loop invariant of `upate_splitters_after_refinement(i, j)`: `done` = items of the old list of
    `i` already processed, `rest` = those still to come, `items0` = the lists of the other blocks -/
structure UInv (δ : Nat → Nat → Option Nat) (n k : Nat) (Bn Bo : Nat → Nat) (i j : Nat)
    (items0 : Nat → List SplitterItem) (done rest : List SplitterItem)
    (pc : List BasePartition) (ss : SplitterSet) : Prop where
  lwf : LWF ss
  pc_len : pc.length = k
  pc_wf : ∀ (c : Nat) (p : BasePartition), pc[c]? = some p → PWF p n
  others : ∀ b, b ≠ i → b ≠ j → itemsAt ss b = items0 b
  nodup_all : ((done ++ rest).map (·.char)).Nodup
  new_items : ∀ b, (b = i ∨ b = j) → ∀ it ∈ itemsAt ss b,
    it.char ∈ done.map (·.char) ∧ EntryOK δ n k Bn pc b it
  new_nodup : ∀ b, (b = i ∨ b = j) → ((itemsAt ss b).map (·.char)).Nodup
  pending : ∀ it ∈ rest, EntryOK δ n k Bo pc i it
  other_items : ∀ b, b ≠ i → b ≠ j → ∀ it ∈ items0 b, EntryOK δ n k Bn pc b it
  done_complete : ∀ it ∈ done, ∀ b, (b = i ∨ b = j) → ∀ x, x < n → Bn (dd δ x it.char) = b →
    ∃ it' ∈ itemsAt ss b, it'.char = it.char ∧ (it.active = true → it'.active = true)
  done_sibling : ∀ it ∈ done, it.active = false →
    (∃ x, x < n ∧ Bn (dd δ x it.char) = i) → (∃ y, y < n ∧ Bn (dd δ y it.char) = j) →
    Act ss i it.char ∨ Act ss j it.char

theorem updateLoop_spec (hcl : Closed δ n k) {main : Partition} (hmain : PartWF main n)
    {i j : Nat} (hij : i ≠ j) {Bo : Nat → Nat}
    (hBo : ∀ x, x < n → Bo x = if blk main x = j then i else blk main x)
    (items0 : Nat → List SplitterItem) :
    ∀ (rest done : List SplitterItem) (pc : List BasePartition) (ss : SplitterSet)
      {pc' : List BasePartition} {ss' : SplitterSet},
      updateLoop δ main i j rest pc ss = some (pc', ss') →
      UInv δ n k (blk main) Bo i j items0 done rest pc ss →
      UInv δ n k (blk main) Bo i j items0 (done ++ rest) [] pc' ss' := by
  intro rest
  induction rest with
  | nil =>
    intro done pc ss pc' ss' h inv
    simp only [updateLoop, Option.some.injEq, Prod.mk.injEq] at h
    obtain ⟨rfl, rfl⟩ := h
    simpa using inv
  | cons s rest ih =>
    intro done pc ss pc' ss' h inv
    have hs := inv.pending s (List.mem_cons_self ..)
    obtain ⟨p, hp, hclslt, hM⟩ := hs.pred
    have hck := hs.char_lt
    have hcls0 := hs.cls_ne
    unfold updateLoop at h
    rw [if_neg hcls0] at h
    simp only [hp] at h
    split at h
    · cases h
    · rename_i p' c1 c2 href
      obtain ⟨hp', hnble, hframe, hc1, hc1z, hc2, hc2z⟩ :=
        refine_pred_class hcl hmain hij hBo hck (inv.pc_wf _ _ hp) hcls0 hM href
      split at h
      · cases h
      · rename_i a1 a2 hflags
        -- the flags
        obtain ⟨hact, hone⟩ : (s.active = true → a1 = true ∧ a2 = true) ∧ (a1 = true ∨ a2 = true) := by
          cases hsa : s.active with
          | true =>
            rw [hsa] at hflags
            simp only [if_true, Option.some.injEq, Prod.mk.injEq] at hflags
            exact ⟨fun _ => ⟨hflags.1.symm, hflags.2.symm⟩, .inl hflags.1.symm⟩
          | false =>
            rw [hsa] at hflags
            simp only [Bool.false_eq_true, if_false] at hflags
            split at hflags
            · cases hflags
            · simp only [Option.some.injEq, Prod.mk.injEq] at hflags
              exact ⟨(fun e => by cases e), .inl hflags.1.symm⟩
            · simp only [Option.some.injEq, Prod.mk.injEq] at hflags
              exact ⟨(fun e => by cases e), .inr hflags.2.symm⟩
        split at h
        · cases h
        · rename_i ss1 hss1
          split at h
          · cases h
          · rename_i ss2 hss2
            have hrec : updateLoop δ main i j rest (pc.set s.char p') ss2 = some (pc', ss') := h
            obtain ⟨hl2, ho2, hi2, hj2⟩ := add_two inv.lwf hij s.char c1 c2 a1 a2 hss1 hss2
            -- chars
            have hnd := inv.nodup_all
            rw [List.map_append, List.map_cons] at hnd
            have hc_not_done : s.char ∉ done.map (·.char) := by
              intro hm
              have := (List.nodup_append.1 hnd).2.2 _ hm _ (List.mem_cons_self ..)
              exact this rfl
            have hc_not_rest : s.char ∉ rest.map (·.char) := by
              have := (List.nodup_append.1 hnd).2.1
              exact (List.nodup_cons.1 this).1
            -- old items are still there
            have hsub : ∀ b it, it ∈ itemsAt ss b → it ∈ itemsAt ss2 b := by
              intro b it hit
              by_cases hbi : b = i
              · subst hbi; exact hi2.mem_iff.2 (List.mem_append_left _ hit)
              · by_cases hbj : b = j
                · subst hbj; exact hj2.mem_iff.2 (List.mem_append_left _ hit)
                · rw [ho2 b hbi hbj]; exact hit
            have hcpc : s.char < pc.length := (List.getElem?_eq_some_iff.1 hp).1
            have hdn : ∀ x, x < n → dd δ x s.char < n := fun x hx => (hcl.eq hx hck).2
            have hBo_ij : ∀ x, x < n → Bo x = i → blk main x = i ∨ blk main x = j := by
              intro x hx e
              rw [hBo x hx] at e
              split at e
              · right; assumption
              · left; exact e
            -- membership in the new lists
            have hmem_i : ∀ it, it ∈ itemsAt ss2 i ↔ it ∈ itemsAt ss i ∨ (c1 ≠ 0 ∧ it = ⟨s.char, c1, a1⟩) := by
              intro it
              rw [hi2.mem_iff, List.mem_append]
              by_cases hz : c1 ≠ 0
              · rw [if_pos hz]; simp [hz]
              · rw [if_neg hz]; simp [hz]
            have hmem_j : ∀ it, it ∈ itemsAt ss2 j ↔ it ∈ itemsAt ss j ∨ (c2 ≠ 0 ∧ it = ⟨s.char, c2, a2⟩) := by
              intro it
              rw [hj2.mem_iff, List.mem_append]
              by_cases hz : c2 ≠ 0
              · rw [if_pos hz]; simp [hz]
              · rw [if_neg hz]; simp [hz]
            have hnewOK_i : c1 ≠ 0 → EntryOK δ n k (blk main) (pc.set s.char p') i ⟨s.char, c1, a1⟩ := by
              intro hz
              obtain ⟨hlt, hMi⟩ := hc1 hz
              exact ⟨hck, hz, p', by simp [hcpc], hlt, hMi⟩
            have hnewOK_j : c2 ≠ 0 → EntryOK δ n k (blk main) (pc.set s.char p') j ⟨s.char, c2, a2⟩ := by
              intro hz
              obtain ⟨hlt, hMj⟩ := hc2 hz
              exact ⟨hck, hz, p', by simp [hcpc], hlt, hMj⟩
            have inv' : UInv δ n k (blk main) Bo i j items0 (done ++ [s]) rest (pc.set s.char p') ss2 := by
              refine ⟨hl2, by rw [List.length_set]; exact inv.pc_len, ?_, ?_, ?_, ?_, ?_, ?_, ?_, ?_, ?_⟩
              · -- pc_wf
                intro c q hq
                by_cases hcc : c = s.char
                · subst hcc
                  rw [List.getElem?_set_self hcpc] at hq
                  cases hq; exact hp'
                · rw [List.getElem?_set_ne (fun e => hcc e.symm)] at hq
                  exact inv.pc_wf c q hq
              · -- others
                intro b hbi hbj
                rw [ho2 b hbi hbj]; exact inv.others b hbi hbj
              · -- nodup_all
                simpa using inv.nodup_all
              · -- new_items
                intro b hb it hit
                have hcase : it ∈ itemsAt ss b ∨ (it.char = s.char ∧ EntryOK δ n k (blk main) (pc.set s.char p') b it) := by
                  rcases hb with rfl | rfl
                  · rcases (hmem_i it).1 hit with h1 | ⟨hz, rfl⟩
                    · exact .inl h1
                    · exact .inr ⟨rfl, hnewOK_i hz⟩
                  · rcases (hmem_j it).1 hit with h1 | ⟨hz, rfl⟩
                    · exact .inl h1
                    · exact .inr ⟨rfl, hnewOK_j hz⟩
                rcases hcase with h1 | ⟨h1, h2⟩
                · obtain ⟨hd, hok⟩ := inv.new_items b hb it h1
                  refine ⟨by rw [List.map_append]; exact List.mem_append_left _ hd, ?_⟩
                  exact entryOK_frame hp hnble hframe hok (.inl (fun e => hc_not_done (e ▸ hd)))
                · exact ⟨by rw [h1]; simp, h2⟩
              · -- new_nodup
                intro b hb
                have hfresh : ∀ it ∈ itemsAt ss b, it.char ≠ s.char := by
                  intro it hit e
                  exact hc_not_done (e ▸ (inv.new_items b hb it hit).1)
                have hold := inv.new_nodup b hb
                have key : ∀ (cl : Nat) (a : Bool) (l : List SplitterItem),
                    l.Perm (itemsAt ss b ++ if cl ≠ 0 then [⟨s.char, cl, a⟩] else []) →
                    (l.map (·.char)).Nodup := by
                  intro cl a l hperm
                  rw [(hperm.map _).nodup_iff, List.map_append]
                  by_cases hz : cl ≠ 0
                  · rw [if_pos hz]
                    rw [List.nodup_append]
                    refine ⟨hold, by simp, ?_⟩
                    intro x hx y hy
                    simp only [List.map_cons, List.map_nil, List.mem_singleton] at hy
                    subst hy
                    obtain ⟨it, hit, rfl⟩ := List.mem_map.1 hx
                    exact hfresh it hit
                  · rw [if_neg hz]; simpa using hold
                rcases hb with rfl | rfl
                · exact key c1 a1 _ hi2
                · exact key c2 a2 _ hj2
              · -- pending
                intro it hit
                have hok := inv.pending it (List.mem_cons_of_mem _ hit)
                exact entryOK_frame hp hnble hframe hok
                  (.inl (fun e => hc_not_rest (e ▸ List.mem_map_of_mem hit)))
              · -- other_items
                intro b hbi hbj it hit
                have hok := inv.other_items b hbi hbj it hit
                refine entryOK_frame hp hnble hframe hok ?_
                by_cases hcc : it.char = s.char
                · right
                  intro hcl'
                  obtain ⟨q, hq, _, hMq⟩ := hok.pred
                  rw [hcc, hp] at hq
                  cases hq
                  obtain ⟨x, hx⟩ := (inv.pc_wf _ _ hp).nonempty s.cls (Nat.pos_of_ne_zero hcls0) hclslt
                  have h1 := (hM x).1 hx
                  rw [← hcl'] at hx
                  have h2 := (hMq x).1 hx
                  rw [hcc] at h2
                  rcases hBo_ij _ (hdn x h1.1) h1.2 with e | e
                  · exact hbi (h2.2.symm.trans e)
                  · exact hbj (h2.2.symm.trans e)
                · exact .inl hcc
              · -- done_complete
                intro it hit b hb x hx hBx
                rcases List.mem_append.1 hit with hd | hd
                · obtain ⟨it', hit', h1, h2⟩ := inv.done_complete it hd b hb x hx hBx
                  exact ⟨it', hsub b it' hit', h1, h2⟩
                · simp only [List.mem_singleton] at hd
                  subst hd
                  rcases hb with rfl | rfl
                  · have hz : c1 ≠ 0 := fun e => hc1z e x hx hBx
                    exact ⟨⟨it.char, c1, a1⟩, (hmem_i _).2 (.inr ⟨hz, rfl⟩), rfl, fun e => (hact e).1⟩
                  · have hz : c2 ≠ 0 := fun e => hc2z e x hx hBx
                    exact ⟨⟨it.char, c2, a2⟩, (hmem_j _).2 (.inr ⟨hz, rfl⟩), rfl, fun e => (hact e).2⟩
              · -- done_sibling
                intro it hit hina hex hey
                rcases List.mem_append.1 hit with hd | hd
                · rcases inv.done_sibling it hd hina hex hey with ⟨it', h1, h2⟩ | ⟨it', h1, h2⟩
                  · exact .inl ⟨it', hsub i it' h1, h2⟩
                  · exact .inr ⟨it', hsub j it' h1, h2⟩
                · simp only [List.mem_singleton] at hd
                  subst hd
                  obtain ⟨x, hx, hBx⟩ := hex
                  obtain ⟨y, hy, hBy⟩ := hey
                  have hz1 : c1 ≠ 0 := fun e => hc1z e x hx hBx
                  have hz2 : c2 ≠ 0 := fun e => hc2z e y hy hBy
                  rcases hone with e | e
                  · exact .inl ⟨⟨it.char, c1, a1⟩, (hmem_i _).2 (.inr ⟨hz1, rfl⟩), rfl, e⟩
                  · exact .inr ⟨⟨it.char, c2, a2⟩, (hmem_j _).2 (.inr ⟨hz2, rfl⟩), rfl, e⟩
            have := ih (done ++ [s]) (pc.set s.char p') ss2 hrec inv'
            simpa using this

/-- `upate_splitters_after_refinement(i, j)` after block `i` (old block function `Bo`) has been split
    into `i` and the new block `j` (new block function `blk main`) -/
theorem update_spec (hcl : Closed δ n k) {main : Partition} (hmain : PartWF main n)
    {i j : Nat} (hij : i ≠ j) {Bo : Nat → Nat}
    (hBo : ∀ x, x < n → Bo x = if blk main x = j then i else blk main x)
    {m m' : Minimizer} (hm : m.mainPartition = main)
    (hcorr : Corr δ n k Bo m.predClasses m.splitters)
    (h : updateSplittersAfterRefinement δ m i j = some m') :
    m'.mainPartition = main ∧ m'.numStates = m.numStates ∧ m'.alphabetSize = m.alphabetSize ∧
    Corr δ n k (blk main) m'.predClasses m'.splitters ∧
    (∀ b, b ≠ i → b ≠ j → itemsAt m'.splitters b = itemsAt m.splitters b) ∧
    (∀ c, Act m.splitters i c → ∀ b, (b = i ∨ b = j) →
      (∃ x, x < n ∧ blk main (dd δ x c) = b) → Act m'.splitters b c) ∧
    (∀ c, c < k → (∃ x, x < n ∧ blk main (dd δ x c) = i) →
      (∃ y, y < n ∧ blk main (dd δ y c) = j) → Act m'.splitters i c ∨ Act m'.splitters j c) := by
  unfold updateSplittersAfterRefinement at h
  obtain ⟨htake1, htake2, htake3⟩ := takeList_spec hcorr.lwf i
  generalize hT : m.splitters.takeList i = T at h htake1 htake2 htake3
  obtain ⟨old, ss0⟩ := T
  simp only at h htake1 htake2 htake3
  rw [hm] at h
  split at h
  · cases h
  · rename_i pc' ss' hloop
    simp only [Option.some.injEq] at h
    subst h
    -- facts about the two block functions
    have hBo_ne_j : ∀ x, x < n → Bo x ≠ j := by
      intro x hx e
      rw [hBo x hx] at e
      split at e
      · exact hij e
      · rename_i hne; exact hne e
    have hBo_other : ∀ x b, x < n → b ≠ i → b ≠ j → (Bo x = b ↔ blk main x = b) := by
      intro x b hx hbi hbj
      rw [hBo x hx]
      split
      · rename_i e
        constructor
        · intro e'; exact absurd e'.symm hbi
        · intro e'; exact absurd (e.symm.trans e') (fun e'' => hbj e''.symm)
      · exact Iff.rfl
    have hBn_ij : ∀ x, x < n → (blk main x = i ∨ blk main x = j) → Bo x = i := by
      intro x hx hb
      rw [hBo x hx]
      rcases hb with e | e
      · rw [e, if_neg hij]
      · rw [if_pos e]
    -- the new block has no list yet
    have hj_empty : itemsAt m.splitters j = [] := by
      cases hl : itemsAt m.splitters j with
      | nil => rfl
      | cons it rest =>
        exfalso
        have hok := hcorr.f1 j it (by rw [hl]; exact List.mem_cons_self ..)
        obtain ⟨p, hp, hlt, hM⟩ := hok.pred
        obtain ⟨x, hx⟩ := (hcorr.pc_wf _ _ hp).nonempty it.cls (Nat.pos_of_ne_zero hok.cls_ne) hlt
        obtain ⟨hxn, e⟩ := (hM x).1 hx
        exact hBo_ne_j _ (hcl.eq hxn hok.char_lt).2 e
    have hdn : ∀ x c, x < n → c < k → dd δ x c < n := fun x c hx hc => (hcl.eq hx hc).2
    -- initial invariant
    have inv0 : UInv δ n k (blk main) Bo i j (fun b => itemsAt m.splitters b) [] old.items
        m.predClasses ss0 := by
      refine ⟨htake2, hcorr.pc_len, hcorr.pc_wf, ?_, ?_, ?_, ?_, ?_, ?_, ?_, ?_⟩
      · intro b hbi _; rw [htake3 b, if_neg hbi]
      · rw [List.nil_append, htake1]; exact hcorr.f3 i
      · intro b hb it hit
        exfalso
        rcases hb with rfl | rfl
        · rw [htake3 b, if_pos rfl] at hit; cases hit
        · rw [htake3 b, if_neg (fun e => hij e.symm), hj_empty] at hit; cases hit
      · intro b hb
        rcases hb with rfl | rfl
        · rw [htake3 b, if_pos rfl]; simp
        · rw [htake3 b, if_neg (fun e => hij e.symm), hj_empty]; simp
      · intro it hit
        rw [htake1] at hit
        exact hcorr.f1 i it hit
      · intro b hbi hbj it hit
        have hok := hcorr.f1 b it hit
        refine ⟨hok.char_lt, hok.cls_ne, ?_⟩
        obtain ⟨p, hp, hlt, hM⟩ := hok.pred
        refine ⟨p, hp, hlt, ?_⟩
        intro x
        rw [hM x]
        constructor
        · rintro ⟨hx, e⟩
          exact ⟨hx, (hBo_other _ b (hdn x _ hx hok.char_lt) hbi hbj).1 e⟩
        · rintro ⟨hx, e⟩
          exact ⟨hx, (hBo_other _ b (hdn x _ hx hok.char_lt) hbi hbj).2 e⟩
      · intro it hit; cases hit
      · intro it hit; cases hit
    have inv := updateLoop_spec hcl hmain hij hBo _ old.items [] m.predClasses ss0 hloop inv0
    rw [List.nil_append, htake1] at inv
    refine ⟨rfl, rfl, rfl, ?_, ?_, ?_, ?_⟩
    · -- Corr
      refine ⟨inv.lwf, inv.pc_len, inv.pc_wf, ?_, ?_, ?_⟩
      · intro b it hit
        by_cases hbi : b = i
        · exact (inv.new_items b (.inl hbi) it hit).2
        · by_cases hbj : b = j
          · exact (inv.new_items b (.inr hbj) it hit).2
          · rw [inv.others b hbi hbj] at hit
            exact inv.other_items b hbi hbj it hit
      · intro x c hx hc
        have hd := hdn x c hx hc
        by_cases hb : blk main (dd δ x c) = i ∨ blk main (dd δ x c) = j
        · have e := hBn_ij _ hd hb
          obtain ⟨it, hit, hitc⟩ := hcorr.f2 x c hx hc
          rw [e] at hit
          obtain ⟨it', hit', h1, _⟩ := inv.done_complete it hit _ hb x hx (by rw [hitc])
          exact ⟨it', hit', by rw [h1, hitc]⟩
        · have hbi : blk main (dd δ x c) ≠ i := fun e => hb (.inl e)
          have hbj : blk main (dd δ x c) ≠ j := fun e => hb (.inr e)
          obtain ⟨it, hit, hitc⟩ := hcorr.f2 x c hx hc
          rw [(hBo_other _ _ hd hbi hbj).2 rfl] at hit
          exact ⟨it, by rw [inv.others _ hbi hbj]; exact hit, hitc⟩
      · intro b
        by_cases hbi : b = i
        · exact inv.new_nodup b (.inl hbi)
        · by_cases hbj : b = j
          · exact inv.new_nodup b (.inr hbj)
          · rw [inv.others b hbi hbj]; exact hcorr.f3 b
    · intro b hbi hbj; exact inv.others b hbi hbj
    · rintro c ⟨it, hit, hitc, hita⟩ b hb ⟨x, hx, hBx⟩
      obtain ⟨it', hit', h1, h2⟩ := inv.done_complete it hit b hb x hx (by rw [hitc]; exact hBx)
      exact ⟨it', hit', by rw [h1, hitc], h2 hita⟩
    · intro c hc ⟨x, hx, hBx⟩ ⟨y, hy, hBy⟩
      have e := hBn_ij _ (hdn x c hx hc) (.inl hBx)
      obtain ⟨it, hit, hitc⟩ := hcorr.f2 x c hx hc
      rw [e] at hit
      cases hita : it.active with
      | true =>
        obtain ⟨it', hit', h1, h2⟩ := inv.done_complete it hit i (.inl rfl) x hx (by rw [hitc]; exact hBx)
        exact .inl ⟨it', hit', by rw [h1, hitc], h2 hita⟩
      | false =>
        have := inv.done_sibling it hit hita ⟨x, hx, by rw [hitc]; exact hBx⟩ ⟨y, hy, by rw [hitc]; exact hBy⟩
        rw [hitc] at this
        exact this

end
end Hopcroft
end Smt
