/-
  Helper lemmas for C13: the builder state reached by a call sequence is the one the
  specification of the sequence (Model/Spec/Builder.lean) describes.

  * `Rel L b`        the id map of `b` numbers the keys `L` in order, `L` has no duplicates
  * `expSIC L ops k` the state in construction the specification expects for key `k`
  * `inv_run`        `run k0 ops` satisfies `Inv` : its states are `(keys k0 ops).map (expSIC ..)`
  Mathlib-free.
-/
import SmtModel.Model.Spec.Builder
import SmtModel.Proofs.AutomatonState

namespace Smt.BuilderSpec
open Smt

/-! ### `indexOf`, `addKeys` -/

def addKey1 (L : List Nat) (k : Nat) : List Nat := if k ∈ L then L else L ++ [k]

theorem addKeys_nil (L : List Nat) : addKeys L [] = L := rfl

theorem addKeys_cons (L : List Nat) (k : Nat) (rest : List Nat) :
    addKeys L (k :: rest) = addKeys (addKey1 L k) rest := by
  simp only [addKeys, addKey1]
  split <;> rfl

theorem indexOf_lt {k : Nat} {L : List Nat} {i : Nat} (h : indexOf k L = some i) :
    ∃ hi : i < L.length, L[i] = k := by
  induction L generalizing i with
  | nil => cases h
  | cons x L ih =>
    simp only [indexOf] at h
    split at h
    · cases h; exact ⟨by simp, by simpa⟩
    · cases h' : indexOf k L with
      | none => rw [h'] at h; cases h
      | some j =>
        rw [h'] at h
        cases h
        obtain ⟨hj, he⟩ := ih h'
        exact ⟨by simp; omega, by simpa using he⟩

theorem indexOf_isSome_of_mem {k : Nat} {L : List Nat} (h : k ∈ L) : ∃ i, indexOf k L = some i := by
  induction L with
  | nil => cases h
  | cons x L ih =>
    simp only [indexOf]
    split
    · exact ⟨0, rfl⟩
    · rename_i hne
      rcases List.mem_cons.1 h with rfl | h'
      · exact absurd rfl hne
      · obtain ⟨i, hi⟩ := ih h'
        exact ⟨i + 1, by simp [hi]⟩

theorem mem_of_indexOf {k : Nat} {L : List Nat} {i : Nat} (h : indexOf k L = some i) : k ∈ L := by
  obtain ⟨hi, he⟩ := indexOf_lt h
  rw [← he]
  exact List.getElem_mem hi

theorem indexOf_none_of_not_mem {k : Nat} {L : List Nat} (h : k ∉ L) : indexOf k L = none := by
  cases h' : indexOf k L with
  | none => rfl
  | some i => exact absurd (mem_of_indexOf h') h

theorem indexOf_append_of_mem {k : Nat} {L : List Nat} (h : k ∈ L) (L' : List Nat) :
    indexOf k (L ++ L') = indexOf k L := by
  induction L with
  | nil => cases h
  | cons x L ih =>
    simp only [List.cons_append, indexOf]
    split
    · rfl
    · rename_i hne
      rcases List.mem_cons.1 h with rfl | h'
      · exact absurd rfl hne
      · rw [ih h']

theorem indexOf_append_new {k : Nat} {L : List Nat} (h : k ∉ L) :
    indexOf k (L ++ [k]) = some L.length := by
  induction L with
  | nil => simp [indexOf]
  | cons x L ih =>
    have hne : x ≠ k := fun e => h (by simp [e])
    have hnm : k ∉ L := fun e => h (by simp [e])
    simp only [List.cons_append, indexOf, if_neg hne, ih hnm]
    simp

/-- two keys with the same index are equal -/
theorem indexOf_inj {k k' : Nat} {L : List Nat} {i : Nat} (h : indexOf k L = some i)
    (h' : indexOf k' L = some i) : k = k' := by
  obtain ⟨_, he⟩ := indexOf_lt h
  obtain ⟨_, he'⟩ := indexOf_lt h'
  rw [← he, ← he']

theorem lookup_zipIdx (k : Nat) (L : List Nat) (n : Nat) :
    (L.zipIdx n).lookup k = (indexOf k L).map (· + n) := by
  induction L generalizing n with
  | nil => rfl
  | cons x L ih =>
    simp only [List.zipIdx_cons, List.lookup_cons, indexOf]
    by_cases hx : x = k
    · subst hx; simp
    · have : (k == x) = false := by simpa using fun e => hx e.symm
      simp only [this, if_neg hx, ih]
      cases indexOf k L <;> simp; omega

theorem addKey1_mem (L : List Nat) (k x : Nat) : x ∈ addKey1 L k ↔ x ∈ L ∨ x = k := by
  unfold addKey1
  split
  · constructor
    · exact .inl
    · rintro (h | rfl)
      · exact h
      · assumption
  · simp

theorem addKey1_nodup {L : List Nat} (h : L.Nodup) (k : Nat) : (addKey1 L k).Nodup := by
  unfold addKey1
  split
  · exact h
  · rename_i hk
    rw [List.nodup_append]
    refine ⟨h, by simp, ?_⟩
    intro a ha b hb
    simp only [List.mem_singleton] at hb
    subst hb
    intro e
    subst e
    exact hk ha

theorem addKey1_ext (L : List Nat) (k : Nat) : ∃ ext, addKey1 L k = L ++ ext := by
  unfold addKey1
  split
  · exact ⟨[], by simp⟩
  · exact ⟨[k], rfl⟩

/-! ### the id map -/

structure Rel (L : List Nat) (b : Builder) : Prop where
  size : b.size = L.length
  map : b.idMap = L.zipIdx
  nodup : L.Nodup
  len : b.states.length = L.length

theorem getStateId_rel {L : List Nat} {b : Builder} (h : Rel L b) (k : Nat) :
    Rel (addKey1 L k) (b.getStateId k).1 ∧
    indexOf k (addKey1 L k) = some (b.getStateId k).2 ∧
    (b.getStateId k).1.states = b.states ++ (if k ∈ L then [] else [StateInConstruction.new]) := by
  unfold Builder.getStateId
  rw [h.map, lookup_zipIdx]
  by_cases hk : k ∈ L
  · obtain ⟨i, hi⟩ := indexOf_isSome_of_mem hk
    simp only [hi, Option.map_some, addKey1, if_pos hk, Nat.add_zero, List.append_nil]
    exact ⟨h, trivial, trivial⟩
  · simp only [indexOf_none_of_not_mem hk, Option.map_none, addKey1, if_neg hk]
    refine ⟨⟨by simp [h.size], ?_, ?_, by simp [h.len]⟩, ?_, by simp⟩
    · simp [h.size, List.zipIdx_append]
    · have := addKey1_nodup h.nodup k
      simpa [addKey1, hk] using this
    · rw [indexOf_append_new hk, h.size]

/-! ### the states the specification expects -/

/-- index of a key (0 for a key that is not mentioned: never used, see `Closed`) -/
def idx (L : List Nat) (k : Nat) : Nat := (indexOf k L).getD 0

def expSIC (L : List Nat) (ops : List BuilderOp) (k : Nat) : StateInConstruction :=
  { isFinal := final ops k,
    defaultSuccessor := (default ops k).map (idx L),
    transitions := (transitions ops k).map (fun t => (t.1, idx L t.2)) }

/-- every key mentioned by `ops` is in `L` -/
def Closed (L : List Nat) (ops : List BuilderOp) : Prop := ∀ op ∈ ops, ∀ k ∈ keysOf op, k ∈ L

theorem idx_append {L : List Nat} {k : Nat} (h : k ∈ L) (ext : List Nat) : idx (L ++ ext) k = idx L k := by
  simp [idx, indexOf_append_of_mem h]

theorem idx_spec {L : List Nat} {k : Nat} (h : k ∈ L) : indexOf k L = some (idx L k) := by
  obtain ⟨i, hi⟩ := indexOf_isSome_of_mem h
  simp [idx, hi]

theorem transitions_source_mem {ops : List BuilderOp} {k : Nat} {t : CharSet × Nat}
    (h : t ∈ transitions ops k) : BuilderOp.addTransition k t.1 t.2 ∈ ops := by
  simp only [transitions, List.mem_filterMap] at h
  obtain ⟨op, hop, he⟩ := h
  cases op with
  | addTransition k1 set k2 =>
    simp only at he
    split at he
    · rename_i hk; cases he; subst hk; exact hop
    · cases he
  | setDefault _ _ => cases he
  | markFinal _ => cases he

theorem defaults_source_mem {ops : List BuilderOp} {k k' : Nat}
    (h : k' ∈ defaults ops k) : BuilderOp.setDefault k k' ∈ ops := by
  simp only [defaults, List.mem_filterMap] at h
  obtain ⟨op, hop, he⟩ := h
  cases op with
  | setDefault k1 k2 =>
    simp only at he
    split at he
    · rename_i hk; cases he; subst hk; exact hop
    · cases he
  | addTransition _ _ _ => cases he
  | markFinal _ => cases he

theorem default_source_mem {ops : List BuilderOp} {k k' : Nat}
    (h : default ops k = some k') : BuilderOp.setDefault k k' ∈ ops := by
  apply defaults_source_mem
  unfold default at h
  exact List.mem_of_getLast? h

theorem final_source_mem {ops : List BuilderOp} {k : Nat}
    (h : final ops k = true) : BuilderOp.markFinal k ∈ ops := by
  simp only [final, List.any_eq_true] at h
  obtain ⟨op, hop, he⟩ := h
  cases op with
  | markFinal k1 =>
    simp only [decide_eq_true_eq] at he
    subst he; exact hop
  | addTransition _ _ _ => cases he
  | setDefault _ _ => cases he

theorem expSIC_ext {L : List Nat} {ops : List BuilderOp} (hc : Closed L ops) (ext : List Nat)
    (k : Nat) : expSIC (L ++ ext) ops k = expSIC L ops k := by
  unfold expSIC
  congr 1
  · cases hd : default ops k with
    | none => rfl
    | some k' =>
      have : k' ∈ L := hc _ (default_source_mem hd) k' (by simp [keysOf])
      simp [idx_append this]
  · apply List.map_congr_left
    intro t ht
    have : t.2 ∈ L := hc _ (transitions_source_mem ht) t.2 (by simp [keysOf])
    simp [idx_append this]

theorem expSIC_new {L L' : List Nat} {ops : List BuilderOp} (hc : Closed L ops) {k : Nat}
    (hk : k ∉ L) : expSIC L' ops k = StateInConstruction.new := by
  have h1 : transitions ops k = [] := by
    cases h : transitions ops k with
    | nil => rfl
    | cons t _ =>
      have : t ∈ transitions ops k := by simp [h]
      exact absurd (hc _ (transitions_source_mem this) k (by simp [keysOf])) hk
  have h2 : default ops k = none := by
    cases h : default ops k with
    | none => rfl
    | some k' => exact absurd (hc _ (default_source_mem h) k (by simp [keysOf])) hk
  have h3 : final ops k = false := by
    cases h : final ops k with
    | false => rfl
    | true => exact absurd (hc _ (final_source_mem h) k (by simp [keysOf])) hk
  simp [expSIC, h1, h2, h3, StateInConstruction.new]

theorem Closed.mono {L : List Nat} {ops : List BuilderOp} (hc : Closed L ops) (ext : List Nat) :
    Closed (L ++ ext) ops := fun op hop k hk => List.mem_append_left _ (hc op hop k hk)

/-- after `get_state_id(k)` the state vector is still the expected one, over the extended key list -/
theorem getStateId_states {L : List Nat} {b : Builder} {ops : List BuilderOp} (h : Rel L b)
    (hc : Closed L ops) (hs : b.states = L.map (expSIC L ops)) (k : Nat) :
    (b.getStateId k).1.states = (addKey1 L k).map (expSIC (addKey1 L k) ops) ∧
    Closed (addKey1 L k) ops := by
  obtain ⟨_, _, hst⟩ := getStateId_rel h k
  rw [hst, hs]
  unfold addKey1
  by_cases hk : k ∈ L
  · simp only [if_pos hk, List.append_nil]
    exact ⟨trivial, hc⟩
  · simp only [if_neg hk, List.map_append, List.map_cons, List.map_nil]
    refine ⟨?_, hc.mono _⟩
    congr 1
    · apply List.map_congr_left
      intro x _
      exact (expSIC_ext hc [k] x).symm
    · rw [expSIC_new hc hk]

theorem modify_map {α} {L : List Nat} (hn : L.Nodup) {k i : Nat} (hi : indexOf k L = some i)
    (g : Nat → α) (f : α → α) :
    (L.map g).modify i f = L.map (fun x => if x = k then f (g x) else g x) := by
  induction L generalizing i with
  | nil => cases hi
  | cons x L ih =>
    obtain ⟨hx, hL⟩ := List.nodup_cons.1 hn
    simp only [indexOf] at hi
    split at hi
    · rename_i hxk
      cases hi
      subst hxk
      simp only [List.map_cons, List.modify_zero_cons, if_true, List.cons.injEq, true_and]
      apply List.map_congr_left
      intro y hy
      have : y ≠ x := fun e => hx (e ▸ hy)
      simp [this]
    · rename_i hxk
      cases h' : indexOf k L with
      | none => rw [h'] at hi; cases hi
      | some j =>
        rw [h'] at hi
        cases hi
        simp only [List.map_cons, List.modify_succ_cons, if_neg hxk, ih hL h']

/-! ### the invariant -/

structure Inv (k0 : Nat) (ops : List BuilderOp) (b : Builder) : Prop where
  rel : Rel (keys k0 ops) b
  closed : Closed (keys k0 ops) ops
  init : indexOf k0 (keys k0 ops) = some 0
  states : b.states = (keys k0 ops).map (expSIC (keys k0 ops) ops)

theorem keys_snoc (k0 : Nat) (ops : List BuilderOp) (op : BuilderOp) :
    keys k0 (ops ++ [op]) = addKeys (keys k0 ops) (keysOf op) := by
  simp [keys, List.foldl_append]

theorem transitions_snoc (ops : List BuilderOp) (op : BuilderOp) (k : Nat) :
    transitions (ops ++ [op]) k = transitions ops k ++
      (match op with
       | .addTransition k1 set k2 => if k1 = k then [(set, k2)] else []
       | _ => []) := by
  simp only [transitions, List.filterMap_append, List.filterMap_cons, List.filterMap_nil]
  cases op with
  | addTransition k1 set k2 => by_cases h : k1 = k <;> simp [h]
  | setDefault _ _ => simp
  | markFinal _ => simp

theorem defaults_snoc (ops : List BuilderOp) (op : BuilderOp) (k : Nat) :
    defaults (ops ++ [op]) k = defaults ops k ++
      (match op with
       | .setDefault k1 k2 => if k1 = k then [k2] else []
       | _ => []) := by
  simp only [defaults, List.filterMap_append, List.filterMap_cons, List.filterMap_nil]
  cases op with
  | setDefault k1 k2 => by_cases h : k1 = k <;> simp [h]
  | addTransition _ _ _ => simp
  | markFinal _ => simp

theorem final_snoc (ops : List BuilderOp) (op : BuilderOp) (k : Nat) :
    final (ops ++ [op]) k = (final ops k ||
      (match op with
       | .markFinal k1 => decide (k1 = k)
       | _ => false)) := by
  simp only [final, List.any_append, List.any_cons, List.any_nil, Bool.or_false]
  cases op <;> rfl

theorem closed_snoc {L : List Nat} {ops : List BuilderOp} {op : BuilderOp} (hc : Closed L ops)
    (hop : ∀ k ∈ keysOf op, k ∈ L) : Closed L (ops ++ [op]) := by
  intro o ho k hk
  rcases List.mem_append.1 ho with h | h
  · exact hc o h k hk
  · simp only [List.mem_singleton] at h
    subst h
    exact hop k hk

theorem inv_new (k0 : Nat) : Inv k0 [] (Builder.new k0) := by
  have hrel : Rel [] Builder.empty := ⟨rfl, rfl, List.nodup_nil, rfl⟩
  obtain ⟨h1, h2, h3⟩ := getStateId_rel hrel k0
  have hk : keys k0 [] = [k0] := rfl
  have ha : addKey1 [] k0 = [k0] := by simp [addKey1]
  rw [ha] at h1 h2
  refine ⟨(by rw [hk]; exact h1), fun op hop => (by cases hop), (by rw [hk]; simp [indexOf]), ?_⟩
  rw [hk]
  unfold Builder.new
  rw [h3]
  simp [Builder.empty, expSIC, transitions, default, defaults, final, StateInConstruction.new]

theorem inv_step {k0 : Nat} {ops : List BuilderOp} {b : Builder} (h : Inv k0 ops b)
    (op : BuilderOp) : Inv k0 (ops ++ [op]) (b.step op) := by
  obtain ⟨hrel, hcl, hinit, hst⟩ := h
  rw [show Inv k0 (ops ++ [op]) (b.step op) ↔ Inv k0 (ops ++ [op]) (b.step op) from Iff.rfl]
  cases op with
  | markFinal k =>
    -- one key
    obtain ⟨hr1, hi1, _⟩ := getStateId_rel hrel k
    obtain ⟨hs1, hc1⟩ := getStateId_states hrel hcl hst k
    have hkeys : keys k0 (ops ++ [.markFinal k]) = addKey1 (keys k0 ops) k := by
      rw [keys_snoc]; simp [keysOf, addKeys_cons, addKeys_nil]
    have hkmem : k ∈ addKey1 (keys k0 ops) k := (addKey1_mem _ _ _).2 (.inr rfl)
    obtain ⟨ext, hext⟩ := addKey1_ext (keys k0 ops) k
    refine ⟨?_, ?_, ?_, ?_⟩
    · rw [hkeys]
      exact ⟨hr1.size, hr1.map, hr1.nodup, by
        simp only [Builder.step, Builder.markFinal, List.length_modify]; exact hr1.len⟩
    · rw [hkeys]
      exact closed_snoc hc1 (by intro x hx; simp [keysOf] at hx; subst hx; exact hkmem)
    · rw [hkeys, hext, indexOf_append_of_mem (mem_of_indexOf hinit)]; exact hinit
    · rw [hkeys]
      simp only [Builder.step, Builder.markFinal]
      rw [hs1, modify_map hr1.nodup hi1]
      apply List.map_congr_left
      intro x _
      simp only [expSIC, transitions_snoc, defaults_snoc, default, final_snoc, List.append_nil]
      by_cases hx : x = k
      · subst hx; simp
      · have : ¬ k = x := fun e => hx e.symm
        simp [hx, this]
  | setDefault k k' =>
    obtain ⟨hr1, hi1, _⟩ := getStateId_rel hrel k
    obtain ⟨hs1, hc1⟩ := getStateId_states hrel hcl hst k
    obtain ⟨hr2, hi2, _⟩ := getStateId_rel hr1 k'
    obtain ⟨hs2, hc2⟩ := getStateId_states hr1 hc1 hs1 k'
    have hkeys : keys k0 (ops ++ [.setDefault k k']) = addKey1 (addKey1 (keys k0 ops) k) k' := by
      rw [keys_snoc]; simp [keysOf, addKeys_cons, addKeys_nil]
    obtain ⟨ext1, hext1⟩ := addKey1_ext (keys k0 ops) k
    obtain ⟨ext2, hext2⟩ := addKey1_ext (addKey1 (keys k0 ops) k) k'
    have hkmem1 : k ∈ addKey1 (keys k0 ops) k := (addKey1_mem _ _ _).2 (.inr rfl)
    have hkmem : k ∈ addKey1 (addKey1 (keys k0 ops) k) k' := (addKey1_mem _ _ _).2 (.inl hkmem1)
    have hk'mem : k' ∈ addKey1 (addKey1 (keys k0 ops) k) k' := (addKey1_mem _ _ _).2 (.inr rfl)
    have hi1' : indexOf k (addKey1 (addKey1 (keys k0 ops) k) k') = some (b.getStateId k).2 := by
      rw [hext2, indexOf_append_of_mem hkmem1]; exact hi1
    refine ⟨?_, ?_, ?_, ?_⟩
    · rw [hkeys]
      exact ⟨hr2.size, hr2.map, hr2.nodup, by
        simp only [Builder.step, Builder.setDefaultSuccessor, List.length_modify]; exact hr2.len⟩
    · rw [hkeys]
      exact closed_snoc hc2 (by
        intro x hx
        simp [keysOf] at hx
        rcases hx with rfl | rfl
        · exact hkmem
        · exact hk'mem)
    · rw [hkeys, hext2, hext1, List.append_assoc,
        indexOf_append_of_mem (mem_of_indexOf hinit)]; exact hinit
    · rw [hkeys]
      simp only [Builder.step, Builder.setDefaultSuccessor]
      rw [hs2, modify_map hr2.nodup hi1']
      apply List.map_congr_left
      intro x _
      simp only [expSIC, transitions_snoc, defaults_snoc, default, final_snoc, List.append_nil,
        Bool.or_false]
      by_cases hx : x = k
      · subst hx
        simp [StateInConstruction.setDefaultSuccessor, idx, hi2]
      · have : ¬ k = x := fun e => hx e.symm
        simp [hx, this]
  | addTransition k set k' =>
    obtain ⟨hr1, hi1, _⟩ := getStateId_rel hrel k
    obtain ⟨hs1, hc1⟩ := getStateId_states hrel hcl hst k
    obtain ⟨hr2, hi2, _⟩ := getStateId_rel hr1 k'
    obtain ⟨hs2, hc2⟩ := getStateId_states hr1 hc1 hs1 k'
    have hkeys : keys k0 (ops ++ [.addTransition k set k']) =
        addKey1 (addKey1 (keys k0 ops) k) k' := by
      rw [keys_snoc]; simp [keysOf, addKeys_cons, addKeys_nil]
    obtain ⟨ext1, hext1⟩ := addKey1_ext (keys k0 ops) k
    obtain ⟨ext2, hext2⟩ := addKey1_ext (addKey1 (keys k0 ops) k) k'
    have hkmem1 : k ∈ addKey1 (keys k0 ops) k := (addKey1_mem _ _ _).2 (.inr rfl)
    have hkmem : k ∈ addKey1 (addKey1 (keys k0 ops) k) k' := (addKey1_mem _ _ _).2 (.inl hkmem1)
    have hk'mem : k' ∈ addKey1 (addKey1 (keys k0 ops) k) k' := (addKey1_mem _ _ _).2 (.inr rfl)
    have hi1' : indexOf k (addKey1 (addKey1 (keys k0 ops) k) k') = some (b.getStateId k).2 := by
      rw [hext2, indexOf_append_of_mem hkmem1]; exact hi1
    refine ⟨?_, ?_, ?_, ?_⟩
    · rw [hkeys]
      exact ⟨hr2.size, hr2.map, hr2.nodup, by
        simp only [Builder.step, Builder.addTransition, List.length_modify]; exact hr2.len⟩
    · rw [hkeys]
      exact closed_snoc hc2 (by
        intro x hx
        simp [keysOf] at hx
        rcases hx with rfl | rfl
        · exact hkmem
        · exact hk'mem)
    · rw [hkeys, hext2, hext1, List.append_assoc,
        indexOf_append_of_mem (mem_of_indexOf hinit)]; exact hinit
    · rw [hkeys]
      simp only [Builder.step, Builder.addTransition]
      rw [hs2, modify_map hr2.nodup hi1']
      apply List.map_congr_left
      intro x _
      simp only [expSIC, transitions_snoc, defaults_snoc, default, final_snoc, List.append_nil,
        Bool.or_false]
      by_cases hx : x = k
      · subst hx
        simp [StateInConstruction.addTransition, idx, hi2]
      · have : ¬ k = x := fun e => hx e.symm
        simp [hx, this]

theorem inv_foldl {k0 : Nat} (ops : List BuilderOp) :
    ∀ (pre : List BuilderOp) (b : Builder), Inv k0 pre b →
      Inv k0 (pre ++ ops) (ops.foldl Builder.step b) := by
  induction ops with
  | nil => intro pre b h; simpa using h
  | cons op rest ih =>
    intro pre b h
    have := ih (pre ++ [op]) (b.step op) (inv_step h op)
    simpa [List.append_assoc] using this

/-- the builder reached by `new(k0); ops` is the one the specification describes -/
theorem inv_run (k0 : Nat) (ops : List BuilderOp) : Inv k0 ops (Builder.run k0 ops) := by
  have := inv_foldl ops [] (Builder.new k0) (inv_new k0)
  simpa [Builder.run] using this

/-! ### bookkeeping facts usable from outside (C02: `compile` drives the builder with keys that
    are their own state ids) -/

/-- `size` = number of distinct keys mentioned -/
theorem run_size (k0 : Nat) (ops : List BuilderOp) :
    (Builder.run k0 ops).size = (keys k0 ops).length := (inv_run k0 ops).rel.size

theorem run_states_length (k0 : Nat) (ops : List BuilderOp) :
    (Builder.run k0 ops).states.length = (keys k0 ops).length := (inv_run k0 ops).rel.len

theorem keys_nodup (k0 : Nat) (ops : List BuilderOp) : (keys k0 ops).Nodup :=
  (inv_run k0 ops).rel.nodup

/-- `id_map.get(k)` = position of `k` in the order of first mention (`none` if never mentioned) -/
theorem run_lookup (k0 : Nat) (ops : List BuilderOp) (k : Nat) :
    (Builder.run k0 ops).idMap.lookup k = idOf k0 ops k := by
  rw [(inv_run k0 ops).rel.map, lookup_zipIdx]
  unfold idOf
  cases indexOf k (keys k0 ops) <;> simp

theorem mem_keys_iff_idOf (k0 : Nat) (ops : List BuilderOp) (k : Nat) :
    k ∈ keys k0 ops ↔ ∃ i, idOf k0 ops k = some i :=
  ⟨fun h => indexOf_isSome_of_mem h, fun ⟨_, h⟩ => mem_of_indexOf h⟩

/-- every key mentioned by an op of the sequence, and `k0`, is in `keys` -/
theorem mem_keys_of_op (k0 : Nat) {ops : List BuilderOp} {op : BuilderOp} (hop : op ∈ ops)
    {k : Nat} (hk : k ∈ keysOf op) : k ∈ keys k0 ops := (inv_run k0 ops).closed op hop k hk

theorem k0_mem_keys (k0 : Nat) (ops : List BuilderOp) : k0 ∈ keys k0 ops :=
  mem_of_indexOf (inv_run k0 ops).init

/-- the state vector of the builder, per key -/
theorem run_state (k0 : Nat) (ops : List BuilderOp) {k i : Nat} (h : idOf k0 ops k = some i) :
    (Builder.run k0 ops).states[i]? = some (expSIC (keys k0 ops) ops k) := by
  obtain ⟨hi, hk⟩ := indexOf_lt h
  rw [(inv_run k0 ops).states, List.getElem?_map, List.getElem?_eq_getElem hi, hk]
  rfl

theorem indexOf_range {k m : Nat} (h : k < m) : indexOf k (List.range m) = some k := by
  induction m with
  | zero => omega
  | succ m ih =>
    rw [List.range_succ]
    by_cases hk : k < m
    · rw [indexOf_append_of_mem (List.mem_range.2 hk)]
      exact ih hk
    · have : k = m := by omega
      subst this
      have := indexOf_append_new (k := k) (L := List.range k) (by simp)
      simpa using this

/-- keys that are their own ids: if the keys were first mentioned in the order `0, 1, 2, …`
    (as `compile` does), the id map is the identity -/
theorem idOf_of_keys_range {k0 : Nat} {ops : List BuilderOp} {m : Nat}
    (h : keys k0 ops = List.range m) {k : Nat} (hk : k < m) : idOf k0 ops k = some k := by
  unfold idOf
  rw [h]
  exact indexOf_range hk

theorem addKey1_range {n k : Nat} (hk : k ≤ n) :
    addKey1 (List.range n) k = List.range (max n (k + 1)) := by
  unfold addKey1
  by_cases h : k < n
  · simp only [List.mem_range, h, if_true]
    congr 1
    omega
  · have : k = n := by omega
    subst this
    simp only [List.mem_range, Nat.lt_irrefl, if_false]
    rw [← List.range_succ]
    congr 1
    omega

/-- one call whose keys are at most the number of keys mentioned so far (i.e. old keys, or the
    next fresh number) keeps `keys = 0, 1, …, m-1` -/
theorem keys_range_snoc {k0 : Nat} {ops : List BuilderOp} {m : Nat}
    (h : keys k0 ops = List.range m) (op : BuilderOp)
    (hop : match op with
      | .addTransition k _ k' => k ≤ m ∧ k' ≤ max m (k + 1)
      | .setDefault k k' => k ≤ m ∧ k' ≤ max m (k + 1)
      | .markFinal k => k ≤ m) :
    ∃ m', m ≤ m' ∧ keys k0 (ops ++ [op]) = List.range m' := by
  rw [keys_snoc, h]
  cases op with
  | markFinal k =>
    simp only at hop
    refine ⟨max m (k + 1), by omega, ?_⟩
    simp [keysOf, addKeys_cons, addKeys_nil, addKey1_range hop]
  | setDefault k k' =>
    simp only at hop
    refine ⟨max (max m (k + 1)) (k' + 1), by omega, ?_⟩
    simp [keysOf, addKeys_cons, addKeys_nil, addKey1_range hop.1, addKey1_range hop.2]
  | addTransition k set k' =>
    simp only at hop
    refine ⟨max (max m (k + 1)) (k' + 1), by omega, ?_⟩
    simp [keysOf, addKeys_cons, addKeys_nil, addKey1_range hop.1, addKey1_range hop.2]

theorem keys_new (k0 : Nat) : keys k0 [] = [k0] := rfl

end Smt.BuilderSpec
