/-
  Family `re`: regular expressions (C01, C03, C05, C07, C10, C16, C18, C19; C02 via FamReAut).

  A *session* is one `ReManager`.  The harness first dumps the manager's final term table
      re begin => ok
      re node <id> <enc> => ok          enc:  E | e | R:a:b | C:l:r | L:e:lo:hi | N:e | U:i,j | I:i,j
                                        (hi = `inf` or a number; children are ids)
      re strings [c1,c2,..] <len> => ok (test alphabet and maximal length for the language checks)
  then one line per operation, terms referenced and returned **by id**.  The table is the model's
  `ord` (DESIGN.md §1(a)); the driver checks the table itself (children smaller than the node,
  no duplicates, `node(id xor 1) = complement`).

  Spec column: `refMatch` (Spec/RefMatch.lean) evaluated on the session's test strings checks that
  the *implementation's* result denotes the language SMT-LIB assigns to the operation.
-/
import Driver.Proto
import Driver.FamCharPartition
import Driver.FamAutomaton
import SmtModel.Model.Compile
import SmtModel.Model.Closure
import SmtModel.Model.ReplaceRe
import SmtModel.Spec.RefMatch
import Std.Data.HashMap

namespace Driver.FamRe
open Smt Smt.RE Driver

structure ReSt where
  terms : Array RE := #[]
  ids : Std.HashMap RE Nat := {}
  strings : List (List Nat) := [[]]
  chars : List Nat := []

def FUEL : Nat := 20000

def ReSt.ord (st : ReSt) (t : RE) : Nat := st.ids.getD t 1000000000

def ReSt.pId (st : ReSt) (t : RE) : String :=
  if t.overflowed then "PANIC"
  else match st.ids.get? t with
    | some i => toString i
    | none => "NOTINTABLE"

def ReSt.term (st : ReSt) (s : String) : Option RE := do
  let i ← rNat s
  st.terms[i]?

def ReSt.termList (st : ReSt) (s : String) : Option (List RE) := do
  let l ← rNats s
  l.mapM (fun i => st.terms[i]?)

/-- all strings over `cs` of length ≤ n -/
def allStrings (cs : List Nat) : Nat → List (List Nat)
  | 0 => [[]]
  | n + 1 =>
    let shorter := allStrings cs n
    [] :: (cs.flatMap fun c => shorter.map (c :: ·))

def dedupStrings (l : List (List Nat)) : List (List Nat) := l.eraseDups

def rCid (s : String) : Option ClassId :=
  if s == "C" then some .complement
  else if s.startsWith "I" then (rNat (sDrop s 1)).map ClassId.interval
  else none

def pCid : ClassId → String
  | .complement => "C"
  | .interval i => s!"I{i}"

def rRange (s : String) : Option LoopRange :=
  match s.splitOn ".." with
  | [a, b] => do
    let lo ← rNat a
    if b == "inf" then pure ⟨lo, none⟩ else do let hi ← rNat b; pure ⟨lo, some hi⟩
  | _ => none

def pErr : Err → String
  | .UndefinedDerivative => "Err:UndefinedDerivative"
  | .EmptyComplementaryClass => "Err:EmptyComplementaryClass"
  | .AmbiguousCharSet => "Err:AmbiguousCharSet"
  | .BadClassId => "Err:BadClassId"
  | .NonDisjointCharSets => "Err:NonDisjointCharSets"
  | .MissingDefaultSuccessor => "Err:MissingDefaultSuccessor"

def pRes {α} (f : α → String) : Res α → String
  | .ok a => f a
  | .panic => "PANIC"
  | .outOfFuel => "OUTOFFUEL"

def pPartition (p : CharPartition) : String :=
  pList FamCharSet.pCS p.list ++ "|" ++ toString p.compWitness

/-- decode one node; children must already be in the table -/
def decodeNode (st : ReSt) (enc : String) : Option RE :=
  match enc.splitOn ":" with
  | ["E"] => some .empty
  | ["e"] => some .epsilon
  | ["R", a, b] => do let a ← rNat a; let b ← rNat b; pure (.range ⟨a, b⟩)
  | ["C", l, r] => do let l ← st.term l; let r ← st.term r; pure (.concat l r)
  | ["L", e, lo, hi] => do
    let e ← st.term e
    let lo ← rNat lo
    if hi == "inf" then pure (.loop e ⟨lo, none⟩) else do let h ← rNat hi; pure (.loop e ⟨lo, some h⟩)
  | ["N", e] => do let e ← st.term e; pure (.compl e)
  | ["U", l] => do let l ← (l.splitOn ",").mapM st.term; pure (.union l)
  | ["I", l] => do let l ← (l.splitOn ",").mapM st.term; pure (.inter l)
  | _ => none

/-- table discipline checked per node (C07): next id, not a duplicate, and
    the odd partner of an even node is its complement -/
def addNode (st : ReSt) (id : Nat) (t : RE) : ReSt × String :=
  if id != st.terms.size then (st, "BAD-ID-ORDER")
  else if st.ids.contains t then (st, "DUPLICATE-NODE")
  else
    let okPair :=
      if id % 2 == 1 then
        match st.terms[id - 1]? with
        | some x => decide (x.complement = t) && decide (t.complement = x)
        | none => false
      else true
    let okInit := match id with
      | 0 => decide (t = sigma)
      | 2 => decide (t = .empty)
      | 3 => decide (t = sigmaStar)
      | 4 => decide (t = .epsilon)
      | 5 => decide (t = sigmaPlus)
      | _ => true
    -- flat table (C19Mgr `FlatTbl`): a stored union/intersection has pairwise distinct operands,
    -- none of which is itself a union/intersection of the same kind
    let okFlat := match t with
      | .union l => l.eraseDups.length == l.length && l.all (fun x => match x with | .union _ => false | _ => true)
      | .inter l => l.eraseDups.length == l.length && l.all (fun x => match x with | .inter _ => false | _ => true)
      | _ => true
    let st' := { st with terms := st.terms.push t, ids := st.ids.insert t id }
    (st', if !(okPair && okInit) then "BAD-PAIR" else if !okFlat then "BAD-FLAT" else "ok")

/-- first test string on which two membership predicates differ -/
def firstDiff (st : ReSt) (f g : List Nat → Bool) : Option (List Nat) :=
  st.strings.find? (fun w => f w != g w)

/-- `specCheck` for an operation returning a term id: the implementation's result term must
    denote `lang` on every test string -/
def langCheck (st : ReSt) (lang : List Nat → Bool) : Option (String → Option String) :=
  some fun impl =>
    if impl == "PANIC" then none
    else match st.term impl with
      | none => some s!"result-id-not-in-table:{impl}"
      | some t =>
        match firstDiff st (refMatch t) lang with
        | none => none
        | some w => some s!"LANG-DIFF:string={pNats w}:expected={pBool (lang w)}"

def withLang (st : ReSt) (model : String) (lang : List Nat → Bool) : Option Reply :=
  some { model := model, specCheck := langCheck st lang }

def concatLang (f g : List Nat → Bool) (w : List Nat) : Bool :=
  (splits w).any fun (p, r) => f p && g r

def concatListLang : List (List Nat → Bool) → List Nat → Bool
  | [], w => w.isEmpty
  | f :: fs, w => concatLang f (concatListLang fs) w

def loopLang (f : List Nat → Bool) (lo : Nat) (hi : Option Nat) (w : List Nat) : Bool :=
  loopMatch f w.length lo hi w

def boolCheck (expected : Option Bool) : Option (String → Option String) :=
  match expected with
  | none => none
  | some b => some fun impl => if impl == pBool b || impl == "PANIC" then none else some s!"expected={pBool b}"

/-- shortest test string in the language, if any -/
def witness (st : ReSt) (t : RE) : Option (List Nat) := st.strings.find? (refMatch t)

/-- specification of the search: least `(i, j)` (lexicographically) with `k ≤ i ≤ j ≤ |s|`,
    `s[i..j] ∈ L(t)`, and `i < j` if `nonempty` -/
def specFirstMatch (t : RE) (s : List Nat) (k : Nat) (nonempty : Bool) : Option (Nat × Nat) :=
  let n := s.length
  (List.range (n + 1 - k)).findSome? fun di =>
    let i := k + di
    (List.range (n + 1 - i)).findSome? fun dj =>
      let j := i + dj
      if (nonempty && dj == 0) then none
      else if refMatch t ((s.drop i).take dj) then some (i, j) else none

def specReplaceRe (t : RE) (s r : List Nat) : List Nat :=
  match specFirstMatch t s 0 false with
  | none => s
  | some (i, j) => s.take i ++ r ++ s.drop j

def specReplaceReAll (t : RE) (r : List Nat) : Nat → List Nat → List Nat
  | 0, s => s
  | fuel + 1, s =>
    match specFirstMatch t s 0 true with
    | none => s
    | some (i, j) => s.take i ++ r ++ specReplaceReAll t r fuel (s.drop j)

/-- C02 on a printed automaton: total `next` at every test character from every state, one state
    per distinct derivative, and `accepts` agrees with `refMatch` on every test string -/
def autCheck (st : ReSt) (e : RE) (impl : String) : Option String :=
  if impl == "PANIC" then none
  else match FamAutomaton.rAut impl with
    | none => some "unparsable-automaton"
    | some A =>
      let badStep := A.states.findSome? fun s =>
        (st.chars ++ [0, MAX_CHAR]).findSome? fun c =>
          match A.next s c with
          | some _ => none
          | none => some s!"next-undefined:state={s.id}:char={c}"
      match badStep with
      | some m => some m
      | none =>
        match st.strings.find? (fun w => A.accepts w != some (refMatch e w)) with
        | some w => some s!"LANG-DIFF:string={pNats w}:expected={pBool (refMatch e w)}"
        | none =>
          match iterDerivatives st.ord FUEL e with
          | .ok l => if l.length == A.numStates then none else some s!"num-states={A.numStates}:closure-size={l.length}"
          | _ => none

def handle (st : ReSt) (op : String) (args : List String) : ReSt × Option Reply :=
  let ord := st.ord
  let pure' (r : Option Reply) := (st, r)
  match op, args with
  | "begin", [] => ({}, ok "ok")
  | "node", [id, enc] =>
    match rNat id, decodeNode st enc with
    | some id, some t => let (st', r) := addNode st id t; (st', ok r)
    | _, _ => (st, none)
  | "strings", [cs, n] =>
    match rNats cs, rNat n with
    | some cs, some n =>
      -- all strings up to length n, plus powers c^k (k ≤ 7) of every test character and powers
      -- (c d)^k (k ≤ 4) of the first two: loop rewrites differ only on words with many factors
      let powers := cs.flatMap (fun c => (List.range 8).map (fun k => List.replicate k c))
      let pairs := match cs with
        | c :: d :: _ => (List.range 5).map (fun k => (List.replicate k [c, d]).flatten)
        | _ => []
      ({ st with chars := cs, strings := dedupStrings (allStrings cs n ++ powers ++ pairs) }, ok "ok")
    | _, _ => (st, none)
  -- ---------- constants
  | "empty", [] => pure' <| withLang st (st.pId .empty) (fun _ => false)
  | "full", [] => pure' <| withLang st (st.pId sigmaStar) (fun _ => true)
  | "epsilon", [] => pure' <| withLang st (st.pId .epsilon) (fun w => w.isEmpty)
  | "sigma_plus", [] => pure' <| withLang st (st.pId sigmaPlus) (fun w => !w.isEmpty)
  | "all_chars", [] => pure' <| withLang st (st.pId sigma) (fun w => w.length == 1)
  -- ---------- atoms
  | "char_set", [s] => pure' do
      let s ← FamCharSet.rCS s
      withLang st (st.pId (.range s)) (fun w => match w with | [c] => s.contains c | _ => false)
  | "range", [a, b] => pure' do
      let a ← rNat a; let b ← rNat b
      match range? a b with
      | none => ok "PANIC"
      | some t => withLang st (st.pId t) (fun w => match w with | [c] => a ≤ c && c ≤ b | _ => false)
  | "char", [x] => pure' do
      let x ← rNat x
      match char? x with
      | none => ok "PANIC"
      | some t => withLang st (st.pId t) (fun w => w == [x])
  | "smt_range", [s1, s2] => pure' do
      let s1 ← rNats s1; let s2 ← rNats s2
      withLang st (st.pId (smtRange s1 s2)) (fun w =>
        match s1, s2, w with
        | [c1], [c2], [c] => c1 ≤ c && c ≤ c2
        | _, _, _ => false)
  | "str", [s] => pure' do
      let s ← rNats s
      match str? s with
      | none => ok "PANIC"
      | some t => withLang st (st.pId t) (fun w => w == s)
  -- ---------- constructors
  | "concat", [a, b] => pure' do
      let a ← st.term a; let b ← st.term b
      withLang st (st.pId (mkConcat a b)) (concatLang (refMatch a) (refMatch b))
  | "concat_list", [l] => pure' do
      let l ← st.termList l
      withLang st (st.pId (concatList l)) (concatListLang (l.map refMatch))
  | "union", [a, b] => pure' do
      let a ← st.term a; let b ← st.term b
      withLang st (st.pId (mkUnion ord a b)) (fun w => refMatch a w || refMatch b w)
  | "union_list", [l] => pure' do
      let l ← st.termList l
      withLang st (st.pId (mkUnionList ord l)) (fun w => l.any (refMatch · w))
  | "inter", [a, b] => pure' do
      let a ← st.term a; let b ← st.term b
      withLang st (st.pId (mkInter ord a b)) (fun w => refMatch a w && refMatch b w)
  | "inter_list", [l] => pure' do
      let l ← st.termList l
      withLang st (st.pId (mkInterList ord l)) (fun w => l.all (refMatch · w))
  | "comp", [a] => pure' do
      let a ← st.term a
      withLang st (st.pId a.complement) (fun w => !refMatch a w)
  | "diff", [a, b] => pure' do
      let a ← st.term a; let b ← st.term b
      withLang st (st.pId (mkDiff ord a b)) (fun w => refMatch a w && !refMatch b w)
  | "diff_list", [a, l] => pure' do
      let a ← st.term a; let l ← st.termList l
      withLang st (st.pId (mkDiffList ord a l)) (fun w => refMatch a w && l.all (fun b => !refMatch b w))
  | "star", [a] => pure' do
      let a ← st.term a
      withLang st (st.pId (star a)) (loopLang (refMatch a) 0 none)
  | "plus", [a] => pure' do
      let a ← st.term a
      withLang st (st.pId (plus a)) (loopLang (refMatch a) 1 none)
  | "opt", [a] => pure' do
      let a ← st.term a
      withLang st (st.pId (opt a)) (fun w => w.isEmpty || refMatch a w)
  | "exp", [a, k] => pure' do
      let a ← st.term a; let k ← rNat k
      withLang st (st.pId (exp a k)) (loopLang (refMatch a) k (some k))
  | "smt_loop", [a, i, j] => pure' do
      let a ← st.term a; let i ← rNat i; let j ← rNat j
      withLang st (st.pId (smtLoop a i j)) (fun w => decide (i ≤ j) && loopLang (refMatch a) i (some j) w)
  | "mk_loop", [a, r] => pure' do
      let a ← st.term a; let r ← rRange r
      withLang st (st.pId (mkLoop a r)) (loopLang (refMatch a) r.start r.stop)
  -- ---------- attributes
  | "nullable", [a] => pure' do
      let a ← st.term a
      some { model := pBool a.nullable, spec := some (pBool (refMatch a [])) }
  | "deriv_class", [a] => pure' do
      let a ← st.term a
      ok (pPartition a.derivClass)
  | "class_ids", [a] => pure' do
      let a ← st.term a
      ok (pList pCid a.derivClass.classIds)
  | "is_empty_syn", [a] => pure' do let a ← st.term a; ok (pBool a.isEmpty)
  | "included_in", [a, b] => pure' do
      let a ← st.term a; let b ← st.term b
      let m := includedIn a b
      -- spec: `true` is only allowed if no test string is in a but not in b
      let bad := st.strings.find? (fun w => refMatch a w && !refMatch b w)
      some { model := pBool m,
             specCheck := some fun impl =>
               match impl, bad with
               | "1", some w => some s!"claims-inclusion-but:{pNats w}:in-left-not-in-right"
               | _, _ => none }
  -- ---------- derivatives
  | "char_deriv", [a, c] => pure' do
      let a ← st.term a; let c ← rNat c
      withLang st (st.pId (charDerivative ord a c)) (fun w => refMatch a (c :: w))
  | "str_deriv", [a, s] => pure' do
      let a ← st.term a; let s ← rNats s
      -- the language check runs the exponential reference matcher on s ++ w: short prefixes only
      if s.length ≤ 8 then withLang st (st.pId (strDerivative ord a s)) (fun w => refMatch a (s ++ w))
      else ok (st.pId (strDerivative ord a s))
  | "str_in_re", [a, s] => pure' do
      let a ← st.term a; let s ← rNats s
      -- short strings: the independent reference matcher; long ones: the model's value, which
      -- C01 `str_in_re_iff` / C03 `str_in_re_iff_lang` prove equal to the specification
      let m := pBool (strInRe ord s a)
      some { model := m, spec := some (if s.length ≤ 7 then pBool (refMatch a s) else m) }
  | "class_deriv", [a, cid] => pure' do
      let a ← st.term a; let cid ← rCid cid
      match classDerivative ord a cid with
      | none => ok "PANIC"
      | some (.error e) => okSpec (pErr e) (if a.derivClass.validClassId cid then "valid-class-id-must-not-fail" else "Err:BadClassId")
      | some (.ok d) =>
        -- the derivative w.r.t. *every* character of the class: check both end points
        let reps : List Nat := match cid with
          | .interval i => match a.derivClass.list[i]? with | some s => [s.start, s.stop] | none => []
          | .complement => st.chars.filter (fun c => a.derivClass.classOfChar c == .complement)
        some { model := st.pId d, specCheck := some fun impl =>
          if impl == "PANIC" then none
          else match st.term impl with
            | none => some s!"result-not-a-term:{impl}"
            | some t =>
              match reps.findSome? (fun c => (firstDiff st (refMatch t) (fun w => refMatch a (c :: w))).map (fun w => (c, w))) with
              | none => none
              | some (c, w) => some s!"LANG-DIFF:char={c}:string={pNats w}" }
  | "class_deriv_unchecked", [a, cid] => pure' do
      let a ← st.term a; let cid ← rCid cid
      ok (pPanic st.pId (classDerivativeUnchecked ord a cid))
  | "set_deriv", [a, s] => pure' do
      let a ← st.term a; let s ← FamCharSet.rCS s
      -- spec: defined iff all characters of s (among the known cut points) have the same derivative language
      let m := match setDerivative ord a s with
        | none => "PANIC"
        | some (.error e) => pErr e
        | some (.ok d) => st.pId d
      let inS := (st.chars ++ [s.start, s.stop]).filter (fun c => s.contains c)
      some { model := m, specCheck := some fun impl =>
        if impl == "PANIC" then none
        else match st.term impl with
          | none =>
            -- an error is only legitimate if the set meets more than one class: model decides (C11)
            none
          | some t =>
            match inS.findSome? (fun c => (firstDiff st (refMatch t) (fun w => refMatch a (c :: w))).map (fun w => (c, w))) with
            | none => none
            | some (c, w) => some s!"LANG-DIFF:char={c}:string={pNats w}" }
  | "set_deriv_unchecked", [a, s] => pure' do
      let a ← st.term a; let s ← FamCharSet.rCS s
      ok (pPanic st.pId (setDerivativeUnchecked ord a s))
  -- ---------- closure
  | "iter_derivs", [a] => pure' do
      let a ← st.term a
      ok (pRes (pList st.pId) (iterDerivatives ord FUEL a))
  | "is_empty_re", [a] => pure' do
      let a ← st.term a
      let m := pRes pBool (isEmptyRe ord FUEL a)
      -- spec: a witness among the test strings refutes emptiness
      -- C05 `is_empty_iff` proves the model's answer is the specification's (when the fuel sufficed)
      some { model := m, spec := (if m == "0" || m == "1" then some m else none), specCheck := some fun impl =>
        match impl, witness st a with
        | "1", some w => some s!"claims-empty-but-contains:{pNats w}"
        | _, _ => none }
  | "get_string", [a] => pure' do
      let a ← st.term a
      let m := pRes (pOpt pNats) (getString ord FUEL a)
      some { model := m, specCheck := some fun impl =>
        if impl == "none" then
          match witness st a with
          | some w => some s!"returns-none-but-contains:{pNats w}"
          | none => none
        else if impl.startsWith "some:" then
          match rNats (sDrop impl 5) with
          | none => some "unparsable-result"
          | some w =>
            if !(goodString w) then some "witness-not-a-good-string"
            else if w.length ≤ 8 && !refMatch a w then some s!"witness-not-in-language:{pNats w}"
            else none
        else none }
  | "start_char", [a, c] => pure' do
      let a ← st.term a; let c ← rNat c
      let m := pRes pBool (startChar ord FUEL a c)
      let ex := st.strings.find? (fun w => refMatch a (c :: w))
      -- C18 `start_char_iff` proves the model's answer is the specification's (when the fuel sufficed)
      some { model := m, spec := (if m == "0" || m == "1" then some m else none), specCheck := some fun impl =>
        match impl, ex with
        | "0", some w => some s!"claims-no-string-starts-with-{c}-but:{pNats (c :: w)}"
        | _, _ => none }
  | "start_class", [a, cid] => pure' do
      let a ← st.term a; let cid ← rCid cid
      let m := pRes (fun r => match r with | .ok b => pBool b | .error e => pErr e) (startClass ord FUEL a cid)
      -- C18 `start_class_spec`
      some { model := m, spec := (if m == "OUTOFFUEL" then none else some m) }
  -- ---------- replace
  | "replace_re", [s, a, t] => pure' do
      let s ← rNats s; let a ← st.term a; let t ← rNats t
      -- long subjects: the model's value (C10 `replace_re_spec` proves model = specification)
      let m := pNats (strReplaceRe ord s a t)
      okSpec m (if s.length ≤ 10 then pNats (specReplaceRe a s t) else m)
  | "replace_re_all", [s, a, t] => pure' do
      let s ← rNats s; let a ← st.term a; let t ← rNats t
      let m := pPanic pNats (strReplaceReAll ord s a t)
      okSpec m (if s.length ≤ 10 then pNats (specReplaceReAll a t (s.length + 1) s) else m)
  | "re_search", [a, s, k, allow] => pure' do
      let a ← st.term a; let s ← rNats s; let k ← rNat k; let allow ← rBool allow
      okSpec (pOpt (fun (i, j) => s!"{i}:{j}") (naiveReSearch ord a s k allow))
        (pOpt (fun (i, j) => s!"{i}:{j}")
          (if allow && refMatch a [] then some (k, k)
           else if k > s.length then none else specFirstMatch a s k true))
  -- ---------- history independence (C07): the same program on a manager with a different history
  -- denotes the same language (`language_history_independent`), so the second signature must equal the first
  | "twin", [_, sigA] => (st, okProved sigA)
  -- every term handed out is the manager's own node; built-in constants are shared (`make_stable`)
  | "ptr_in_table", [_] => (st, okProved "1")
  -- ---------- compilation to a DFA (C02, C19)
  | "compile", [a] => pure' do
      let a ← st.term a
      let m := pRes FamAutomaton.pAut (compile ord FUEL a)
      some { model := m, specCheck := some (autCheck st a) }
  | "try_compile", [a, n] => pure' do
      let a ← st.term a; let n ← rNat n
      let m := pRes (pOpt FamAutomaton.pAut) (tryCompile ord FUEL a n)
      -- spec: Some iff the number of distinct derivatives is ≤ n (and n ≠ 0); then language-equal
      let closure := match iterDerivatives ord FUEL a with | .ok l => some l.length | _ => none
      some { model := m, specCheck := some fun impl =>
        if impl == "PANIC" then none
        else if impl == "none" then
          match closure with
          | some k => if n ≠ 0 && k ≤ n then some s!"returns-none-but-closure-size={k}<=bound={n}" else none
          | none => none
        else if impl.startsWith "some:" then
          match closure with
          | some k =>
            if n == 0 || k > n then some s!"returns-automaton-but-closure-size={k}>bound={n}"
            else autCheck st a (sDrop impl 5)
          | none => autCheck st a (sDrop impl 5)
        else some "unparsable" }
  -- C19: number of states = number of distinct derivatives; Some iff that number ≤ n and n ≠ 0
  -- (`try_compile_iff`, `compile_num_states`: the model's value is the specification's)
  | "compile_size", [a] => pure' do
      let a ← st.term a
      let m := pRes (fun A => toString A.numStates) (compile ord FUEL a)
      some { model := m, spec := (if m == "OUTOFFUEL" then none else some m) }
  | "try_compile_size", [a, n] => pure' do
      let a ← st.term a; let n ← rNat n
      let m := pRes (pOpt (fun A => toString A.numStates)) (tryCompile ord FUEL a n)
      some { model := m, spec := (if m == "OUTOFFUEL" then none else some m) }
  | _, _ => (st, none)

end Driver.FamRe
