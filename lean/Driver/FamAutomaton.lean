/-
  Family `aut`: AutomatonBuilder, Automaton, CompactTable (C13, C14; the automaton encoding is
  reused by the regex family for `compile`).

  Encodings (one token each, no spaces)
  * automaton   `n|init|nfinal|state;state;...`   (n = num_states(), init = initial_state().id(),
                nfinal = num_final_states(), states in array order)
    state       `id:final:[a-b,c-d]:w:[succ,...]:default`
                final 0/1; the interval list is `char_ranges()`; `w` = the witness of the
                complementary class (last element of `char_picks()`), or `-` when that class is
                empty (`State` exposes no accessor for the stored `comp_witness`; `-` is read back
                as `MAX_CHAR + 1`); `succ` = `class_next(s, Interval(i)).id()` for
                i < number of ranges; default = `-` or `default_successor()`.
                When an automaton token is *read back* (ops below taking `<A>`), `succ`/`default`/
                `init` are taken as indices into the state array (id = index in every automaton the
                crate hands out).
  * op sequence `N<k0>,<op>,<op>,...` with op = `T<k>:<a>-<b>:<k'>` (add_transition),
                `D<k>:<k'>` (set_default_successor), `F<k>` (mark_final),
                `B` (call build() here and drop the result: build takes &mut self but leaves the
                builder unchanged, so the model treats `B` as a no-op),
                `U` (the same for build_unchecked(); its result or panic is dropped)
  * table       `size|alpha|[e00,e01,..];[e10,..];...`  (size(), alphabet_size(), eval(s,c) rows)
  * ctb script  `-` (empty) or `;`-joined `D<i>:<d>` (set_default) / `S<i>:[c>v,c>v,...]`
                (set_successors)
  * partition   `[a-b,...]|w`
  * edges       `[I0>3,I1>2,C>4]`  (class id > id of the successor state)

  ops:  build / build_unchecked <opseq>            -> automaton | Err:<kind> | PANIC
        build_verdict <opseq>                      -> ok | Err:<kind> | PANIC      (spec: BuilderSpec.verdict)
        build_delta <opseq> <key> <char>           -> id of next(state(key), char) (spec: specDelta)
        build_final <opseq> <key>                  -> 0/1                          (spec: marked final)
        next <A> <s> <c> | char_set_next <A> <s> <a-b> | str_next <A> <s> <w> | accepts <A> <w>
        edges <A> <s> | final_states <A> | num_states <A> | num_final_states <A>
        remove_unreachable <A> | combined_char_partition <A> | pick_alphabet <A>
        compile_successors <A> | ctb <n> <alpha> <script>
        compile_eval <A>                           -> rows `[..];[..]` of eval(s,i)  (spec: id(next(s, alphabet[i])))
-/
import Driver.Proto
import SmtModel.Model.Automaton
import SmtModel.Model.Spec.Builder

namespace Driver.FamAutomaton
open Smt Driver

/-! ### parsing -/

def rCS (s : String) : Option CharSet :=
  match s.splitOn "-" with
  | [a, b] => do let x ← rNat a; let y ← rNat b; pure ⟨x, y⟩
  | _ => none

/-- `none` inside = the `B` / `U` pseudo-ops -/
def rOp (s : String) : Option (Option BuilderOp) :=
  if s == "B" || s == "U" then some none
  else
    let body := sDrop s 1
    match s.front, body.splitOn ":" with
    | 'T', [k, set, k'] => do
        let k ← rNat k; let set ← rCS set; let k' ← rNat k'
        pure (some (.addTransition k set k'))
    | 'D', [k, k'] => do let k ← rNat k; let k' ← rNat k'; pure (some (.setDefault k k'))
    | 'F', [k] => do let k ← rNat k; pure (some (.markFinal k))
    | _, _ => none

def rOpSeq (s : String) : Option (Nat × List (Option BuilderOp)) :=
  match s.splitOn "," with
  | [] => none
  | first :: rest =>
    if first.front != 'N' then none
    else do
      let k0 ← rNat (sDrop first 1)
      let ops ← rest.mapM rOp
      pure (k0, ops)

def rState (s : String) : Option State :=
  match s.splitOn ":" with
  | [id, fin, ivs, w, succ, dflt] => do
      let id ← rNat id; let fin ← rBool fin
      let ivs ← rListWith rCS ivs
      let w ← if w == "-" then some (MAX_CHAR + 1) else rNat w
      let succ ← rNats succ
      let d ← if dflt == "-" then some none else (rNat dflt).map some
      pure { id, isFinal := fin, classes := ⟨ivs, w⟩, successor := succ, defaultSuccessor := d }
  | _ => none

def rAut (s : String) : Option Automaton :=
  match s.splitOn "|" with
  | [n, init, nf, sts] => do
      let n ← rNat n; let init ← rNat init; let nf ← rNat nf
      let sts ← (sts.splitOn ";").mapM rState
      pure { numStates := n, numFinalStates := nf, initialState := init, states := sts }
  | _ => none

def rPair (s : String) : Option (Nat × Nat) :=
  match s.splitOn ">" with
  | [c, v] => do let c ← rNat c; let v ← rNat v; pure (c, v)
  | _ => none

inductive CtbOp where
  | dflt (i d : Nat)
  | succ (i : Nat) (row : List (Nat × Nat))

def rCtbOp (s : String) : Option CtbOp :=
  let body := sDrop s 1
  match s.front, body.splitOn ":" with
  | 'D', [i, d] => do let i ← rNat i; let d ← rNat d; pure (.dflt i d)
  | 'S', [i, row] => do let i ← rNat i; let row ← rListWith rPair row; pure (.succ i row)
  | _, _ => none

def rCtbScript (s : String) : Option (List CtbOp) :=
  if s == "-" then some [] else (s.splitOn ";").mapM rCtbOp

/-! ### printing -/

def pCS (c : CharSet) : String := s!"{c.start}-{c.stop}"
def pErr : Err → String
  | .UndefinedDerivative => "Err:UndefinedDerivative"
  | .EmptyComplementaryClass => "Err:EmptyComplementaryClass"
  | .AmbiguousCharSet => "Err:AmbiguousCharSet"
  | .BadClassId => "Err:BadClassId"
  | .NonDisjointCharSets => "Err:NonDisjointCharSets"
  | .MissingDefaultSuccessor => "Err:MissingDefaultSuccessor"

def pPart (p : CharPartition) : String := pList pCS p.list ++ "|" ++ pNat p.compWitness

def pState (A : Automaton) (s : State) : Option String := do
  let succ ← mapOpt (fun i => (A.classNext s (.interval i)).map (·.id)) (List.range s.numSuccessors)
  let d := match s.defaultSuccessor with | none => "-" | some d => pNat d
  let w := if s.classes.emptyComplement then "-" else pNat s.classes.pickComplement
  pure s!"{s.id}:{pBool s.isFinal}:{pList pCS s.classes.list}:{w}:{pNats succ}:{d}"

def pAut (A : Automaton) : String :=
  match A.initial, mapOpt (pState A) A.states with
  | some s0, some sts => s!"{A.numStates}|{s0.id}|{A.numFinalStates}|{";".intercalate sts}"
  | _, _ => "PANIC"

def pCid : ClassId → String
  | .interval i => s!"I{i}"
  | .complement => "C"

def pTable (t : CompactTable) : String :=
  let rows := (List.range t.numStates).map (fun s =>
    mapOpt (fun c => t.eval s c) (List.range t.alphabetSize))
  match mapOpt id rows with
  | none => "PANIC"
  | some rows => s!"{t.size}|{t.alphabetSize}|{";".intercalate (rows.map pNats)}"

/-! ### evaluation -/

def runOps (k0 : Nat) (ops : List (Option BuilderOp)) : Builder :=
  ops.foldl (fun b op => match op with | some op => b.step op | none => b) (Builder.new k0)

/-- the calls other than `build()`: the C13 specification of a sequence with intermediate builds
    is that of the sequence without them (Props/C13 `build_any_sequence`) -/
def pureOps (ops : List (Option BuilderOp)) : Option (List BuilderOp) := some (ops.filterMap id)

def pBuild : Option (Except Err Automaton) → String
  | none => "PANIC"
  | some (.error e) => pErr e
  | some (.ok A) => pAut A

def pVerdict : Option (Except Err Automaton) → String
  | none => "PANIC"
  | some (.error e) => pErr e
  | some (.ok _) => "ok"

def runCtb (n alpha : Nat) (script : List CtbOp) : Option CompactTable := do
  let b ← CompactTableBuilder.new n alpha
  let b ← script.foldlM (fun b op => match op with
    | .dflt i d => b.setDefault i d
    | .succ i row => b.setSuccessors i row) b
  b.build

def withState (A : Automaton) (s : Nat) (f : State → String) : String :=
  match A.states[s]? with
  | none => "PANIC"
  | some st => f st

def handle (op : String) (args : List String) : Option Reply :=
  match op, args with
  | "build", [ops] => do
      let (k0, ops) ← rOpSeq ops
      ok (pBuild (runOps k0 ops).build)
  | "build_unchecked", [ops] => do
      let (k0, ops) ← rOpSeq ops
      ok (match (runOps k0 ops).buildUnchecked with | none => "PANIC" | some A => pAut A)
  | "build_verdict", [ops] => do
      let (k0, ops) ← rOpSeq ops
      let m := pVerdict (runOps k0 ops).build
      match pureOps ops with
      | none => ok m
      | some pops =>
        okSpec m (match BuilderSpec.verdict k0 pops with | none => "ok" | some e => pErr e)
  | "build_delta", [ops, key, c] => do
      let (k0, ops) ← rOpSeq ops; let key ← rNat key; let c ← rNat c
      let b := runOps k0 ops
      let m := match b.build with
        | some (.ok A) =>
          (match b.idMap.lookup key with
           | none => "PANIC"
           | some i => withState A i (fun s => pPanic (fun t => pNat t.id) (A.next s c)))
        | r => pVerdict r
      match pureOps ops with
      | none => ok m
      | some pops =>
        okSpec m (pPanic pNat ((BuilderSpec.specDelta pops key c).bind (BuilderSpec.idOf k0 pops)))
  | "build_final", [ops, key] => do
      let (k0, ops) ← rOpSeq ops; let key ← rNat key
      let b := runOps k0 ops
      let m := match b.build with
        | some (.ok A) =>
          (match b.idMap.lookup key with
           | none => "PANIC"
           | some i => withState A i (fun s => pBool s.isFinal))
        | r => pVerdict r
      match pureOps ops with
      | none => ok m
      | some pops => okSpec m (pBool (BuilderSpec.final pops key))
  | "next", [A, s, c] => do
      let A ← rAut A; let s ← rNat s; let c ← rNat c
      ok (withState A s (fun st => pPanic (fun t => pNat t.id) (A.next st c)))
  | "char_set_next", [A, s, set] => do
      let A ← rAut A; let s ← rNat s; let set ← rCS set
      ok (withState A s (fun st => match A.charSetNext st set with
        | none => "PANIC"
        | some (.error e) => pErr e
        | some (.ok t) => pNat t.id))
  | "str_next", [A, s, w] => do
      let A ← rAut A; let s ← rNat s; let w ← rNats w
      ok (withState A s (fun st => pPanic (fun t => pNat t.id) (A.strNext st w)))
  | "accepts", [A, w] => do
      let A ← rAut A; let w ← rNats w
      ok (pPanic pBool (A.accepts w))
  | "edges", [A, s] => do
      let A ← rAut A; let s ← rNat s
      ok (withState A s (fun st =>
        pPanic (pList (fun (e : ClassId × State) => pCid e.1 ++ ">" ++ pNat e.2.id)) (A.edges st)))
  | "final_states", [A] => do
      let A ← rAut A
      ok (pNats (A.finalStates.map (·.id)))
  | "num_states", [A] => do
      let A ← rAut A
      okSpec (pNat A.numStates) (pNat A.states.length)
  | "num_final_states", [A] => do
      let A ← rAut A
      okSpec (pNat A.numFinalStates) (pNat (A.states.filter (·.isFinal)).length)
  | "remove_unreachable", [A] => do
      let A ← rAut A
      ok (match A.removeUnreachableStates with | none => "PANIC" | some A' => pAut A')
  | "combined_char_partition", [A] => do
      let A ← rAut A
      ok (pPart A.combinedCharPartition)
  | "pick_alphabet", [A] => do
      let A ← rAut A
      ok (pNats A.pickAlphabet)
  | "compile_successors", [A] => do
      let A ← rAut A
      ok (match A.compileSuccessors with | none => "PANIC" | some t => pTable t)
  | "compile_eval", [A] => do
      -- the table cells only; spec column: id(next(s, alphabet[i])) computed without any table
      let A ← rAut A
      let m := match A.compileSuccessors with
        | none => "PANIC"
        | some t =>
          (match mapOpt (fun s => mapOpt (fun c => t.eval s c) (List.range t.alphabetSize))
              (List.range t.numStates) with
           | none => "PANIC"
           | some rows => ";".intercalate (rows.map pNats))
      let sp := match mapOpt (fun (s : State) =>
          mapOpt (fun c => (A.next s c).map (·.id)) A.pickAlphabet) A.states with
        | none => "PANIC"
        | some rows => ";".intercalate (rows.map pNats)
      okSpec m sp
  | "ctb", [n, alpha, script] => do
      let n ← rNat n; let alpha ← rNat alpha; let script ← rCtbScript script
      ok (match runCtb n alpha script with | none => "PANIC" | some t => pTable t)
  | _, _ => none

end Driver.FamAutomaton
