/-
  Family `store`: the hash-consing discipline of `ReManager` (C07, store level).

  Table encoding (ONE token, no spaces): the nodes of ids 0,1,2,… separated by `;`, each node
      E              Empty
      e              Epsilon
      R:<a>:<b>      Range(CharSet [a,b])
      C:<l>:<r>      Concat(id l, id r)
      L:<e>:<lo>:<hi>  Loop(id e, LoopRange(lo, hi)),  hi = `inf` or a number
      N:<e>          Complement(id e)
      U:<i>,<j>,…    Union of the ids (in stored order; `U:` = empty list)
      I:<i>,<j>,…    Inter of the ids
  all numbers decimal.

  ops
    table <enc>        => 1          model: `1` iff `checkTable`, else `0:<first failing conjunct>`
                                     (init | even | dup | pairs | children)
    ids <n>            => 1          harness: `verif_term(i).verif_id() == i` for all `i < n`;
                                     model: constant `1` (C07Store.id2re_identity)
    same_ptr <k>       => 1          harness: construction no. k re-issued after more history is
                                     pointer-identical, `==`, has the same id as the first result
                                     and the re-issue allocated no term;
                                     model: constant `1` (C07Store.make_stable)
    prefix <k>         => 1          harness: mid-session dump no. k is a prefix of the session's final
                                     dump (ids keep their keys); model: constant `1` (C07Store.table_grows)
    compl_invol <id> <session>  => 1 harness: complement(complement(e)) ptr-eq e and complement(e) != e;
                                     model: constant `1` (C07Store.complement_involutive / _no_fixpoint)
    complement <id> <session> => <id'>   id of `complement(e)`; model: `id xor 1`
-/
import Driver.Proto
import SmtModel.Model.Store

namespace Driver.FamStore
open Smt Driver

def rHi (s : String) : Option (Option Nat) :=
  if s == "inf" then some none else (rNat s).map some

def rIds (s : String) : Option (List Nat) :=
  if s.isEmpty then some [] else (s.splitOn ",").mapM rNat

def rNode (s : String) : Option Node :=
  match s.splitOn ":" with
  | ["E"] => some .empty
  | ["e"] => some .epsilon
  | ["R", a, b] => do let a ← rNat a; let b ← rNat b; pure (.range a b)
  | ["C", l, r] => do let l ← rNat l; let r ← rNat r; pure (.concat l r)
  | ["L", e, lo, hi] => do let e ← rNat e; let lo ← rNat lo; let hi ← rHi hi; pure (.loop e lo hi)
  | ["N", e] => do let e ← rNat e; pure (.compl e)
  | ["U", l] => do let l ← rIds l; pure (.union l)
  | ["I", l] => do let l ← rIds l; pure (.inter l)
  | _ => none

def rTable (s : String) : Option (Array Node) :=
  if s.isEmpty then some #[] else ((s.splitOn ";").mapM rNode).map List.toArray

def handle (op : String) (args : List String) : Option Reply :=
  match op, args with
  | "table", [enc] => do
      let t ← rTable enc
      match Table.firstFailure t with
      | none => okProved (pBool (checkTable t))
      | some why => okProved ("0:" ++ why)
  | "ids", [n] => do let _ ← rNat n; okProved "1"
  | "same_ptr", [k] => do let _ ← rNat k; okProved "1"
  | "prefix", [k] => do let _ ← rNat k; okProved "1"
  | "compl_invol", [i, _] => do let _ ← rNat i; okProved "1"
  | "complement", [i, _] => do let i ← rNat i; okProved (pNat (complementId i))
  | _, _ => none

end Driver.FamStore
