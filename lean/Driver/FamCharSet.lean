/-
  Family `cs`: CharSet operations (C20).  Every op is `okProved`: Props/C20.lean proves that the
  model's value is the set-theoretic one, so a deviation of the implementation is a SPECDIFF.
-/
import Driver.Proto
import SmtModel.Model.CharSet

namespace Driver.FamCharSet
open Smt Driver

def rCS (s : String) : Option CharSet :=
  match s.splitOn "-" with
  | [a, b] => do let x ← rNat a; let y ← rNat b; pure ⟨x, y⟩
  | _ => none

def pCS (c : CharSet) : String := s!"{c.start}-{c.stop}"

def pOrd : Option Ordering → String
  | some .lt => "some:Less"
  | some .eq => "some:Equal"
  | some .gt => "some:Greater"
  | none => "none"

def handle (op : String) (args : List String) : Option Reply :=
  match op, args with
  | "contains", [s, x] => do let s ← rCS s; let x ← rNat x; okProved (pBool (s.contains x))
  | "covers", [s, t] => do let s ← rCS s; let t ← rCS t; okProved (pBool (s.covers t))
  | "is_before", [s, x] => do let s ← rCS s; let x ← rNat x; okProved (pBool (s.isBefore x))
  | "is_after", [s, x] => do let s ← rCS s; let x ← rNat x; okProved (pBool (s.isAfter x))
  | "size", [s] => do let s ← rCS s; okProved (pNat s.size)
  | "is_singleton", [s] => do let s ← rCS s; okProved (pBool s.isSingleton)
  | "is_alphabet", [s] => do let s ← rCS s; okProved (pBool s.isAlphabet)
  | "pick", [s] => do let s ← rCS s; okProved (pNat s.pick)
  | "inter", [s, t] => do let s ← rCS s; let t ← rCS t; okProved (pOpt pCS (s.inter t))
  | "inter_list", [l] => do let l ← rListWith rCS l; okProved (pOpt pCS (CharSet.interList l))
  | "union", [s, t] => do
      let s ← rCS s; let t ← rCS t
      -- the checked variant: `PANIC` if a subtraction site underflows
      okProved (pPanic (pOpt pCS) (s.unionChecked t))
  | "partial_cmp", [s, t] => do let s ← rCS s; let t ← rCS t; okProved (pOrd (s.partialCmp t))
  -- `<`, `<=`, `>`, `>=`, `==`: the provided methods of `PartialOrd`/`PartialEq`, i.e. derived from `partial_cmp`
  | "lt", [s, t] => do let s ← rCS s; let t ← rCS t; okProved (pBool (s.partialCmp t == some .lt))
  | "le", [s, t] => do let s ← rCS s; let t ← rCS t; okProved (pBool (s.partialCmp t == some .lt || s.partialCmp t == some .eq))
  | "gt", [s, t] => do let s ← rCS s; let t ← rCS t; okProved (pBool (s.partialCmp t == some .gt))
  | "ge", [s, t] => do let s ← rCS s; let t ← rCS t; okProved (pBool (s.partialCmp t == some .gt || s.partialCmp t == some .eq))
  | "eq", [s, t] => do let s ← rCS s; let t ← rCS t; okProved (pBool (s == t))
  | _, _ => none

end Driver.FamCharSet
