/-
  Family `lr`: LoopRange operations (C15).

  Encoding: a range is `i..j` (finite `[i,j]`) or `i..inf` (`[i,+infinity)`); results that are
  ranges use the same encoding; `PANIC` = the arithmetic-overflow panic (`none` in the model);
  booleans `0/1`; `start` prints a natural.

  Every op is `okProved`: Props/C15.lean proves, for all well-formed ranges, that the model's value
  is the one the set-theoretic specification determines (contains_spec, includes_spec, add_spec +
  add_none_iff, add_point, scale_spec + scale_none_iff, shift_spec, mul_is_hull + mul_none_iff,
  right_mul_exact_iff + right_mul_none_iff, is_*_spec, start_least), so a deviation of the
  implementation is reported as SPECDIFF with the input as replay.
-/
import Driver.Proto
import SmtModel.Model.LoopRange

namespace Driver.FamLoopRange
open Smt Driver

def rLR (s : String) : Option LoopRange :=
  match s.splitOn ".." with
  | [a, b] => do
      let x ← rNat a
      if b == "inf" then pure ⟨x, none⟩
      else do let y ← rNat b; pure ⟨x, some y⟩
  | _ => none

def pLR (r : LoopRange) : String :=
  match r.stop with
  | none => s!"{r.start}..inf"
  | some j => s!"{r.start}..{j}"

def handle (op : String) (args : List String) : Option Reply :=
  match op, args with
  | "contains", [r, x] => do let r ← rLR r; let x ← rNat x; okProved (pBool (r.contains x))
  | "includes", [r, s] => do let r ← rLR r; let s ← rLR s; okProved (pBool (r.includes s))
  | "add", [r, s] => do let r ← rLR r; let s ← rLR s; okProved (pPanic pLR (r.add s))
  | "add_point", [r, x] => do let r ← rLR r; let x ← rNat x; okProved (pPanic pLR (r.addPoint x))
  | "scale", [r, k] => do let r ← rLR r; let k ← rNat k; okProved (pPanic pLR (r.scale k))
  | "mul", [r, s] => do let r ← rLR r; let s ← rLR s; okProved (pPanic pLR (r.mul s))
  | "right_mul_is_exact", [r, s] => do
      let r ← rLR r; let s ← rLR s; okProved (pPanic pBool (r.rightMulIsExact s))
  | "shift", [r] => do let r ← rLR r; okProved (pLR r.shift)
  | "is_point", [r] => do let r ← rLR r; okProved (pBool r.isPoint)
  | "is_zero", [r] => do let r ← rLR r; okProved (pBool r.isZero)
  | "is_one", [r] => do let r ← rLR r; okProved (pBool r.isOne)
  | "is_all", [r] => do let r ← rLR r; okProved (pBool r.isAll)
  | "is_finite", [r] => do let r ← rLR r; okProved (pBool r.isFinite)
  | "is_infinite", [r] => do let r ← rLR r; okProved (pBool r.isInfinite)
  | "start", [r] => do let r ← rLR r; okProved (pNat r.start)
  | _, _ => none

end Driver.FamLoopRange
