/-
  Family `min`: `Automaton::minimize` validated by the verified checker, the Hopcroft `Minimizer`
  on abstract DFAs, and `BasePartition` / `Partition` driven directly (C04).

  Encodings (one token each, no spaces)
  * automaton   as in family `aut` (Driver/FamAutomaton.lean): `n|init|nfinal|state;state;...`
  * script      `-` (empty) or `;`-joined steps
                  `R<i>:[x,y,..]`          refine_block(i, p)   with p(x) = "x is in the list"
                  `F<i>:<b>:[f0,f1,..]`    refine_block_with_fun(i, f, b) with f(y) = the y-th entry
                                           (an out-of-range y or entry makes the closure panic)
  * dump        `nb|index|size|[elems of block 0];[elems of block 1];...|[size of block i,..]|
                 [pick_element(i) for i in 1..nb]|[block_id(x) for x in 0..size]|[b1>b2,...]`
                (the last list = the pair returned by every step; `BasePartition` has no block_id:
                 that field is `-`)
  * dfa         `<n> <k> [final flags] rows` with rows = `;`-joined `[δ(s,0),…,δ(s,k-1)]`

  ops   minimize <A> <A'>          -> ok                 `A'` is what the real `minimize()` produced
                                                          from `A` (`PANIC` if it panicked).  The
                                                          block numbering of Hopcroft is an
                                                          implementation artefact, so the result is
                                                          not predicted but CHECKED: the model value
                                                          is `ok` iff `checkMinimized A A'`
                                                          (Props/C04 `check_minimized_sound`), else
                                                          `REJECTED:<first failing clause>`.
        minimize_num_states <A>    -> num_states() after minimize(); model: number of blocks of
                                      `moore A` (= number of distinct residual languages of the
                                      states of A, Props/C04 `moore_sound`/`moore_complete`)
        quotient_check <A>         -> 1      specification self-test (implementation not involved):
                                             the model's own quotient passes the checker
                                             (Props/C04 `quotient_passes_check`, executed)
        hopcroft <n> <k> <fin> <rows> <ids> -> ok   `ids` = block_id of every state after
                                             `Minimizer::refine()`; model: `ok` iff it is the Moore
                                             partition up to renumbering
        bpart <n> <script>         -> dump   BasePartition (only `R` steps)
        part <n> <script>          -> dump   Partition
-/
import Driver.Proto
import Driver.FamAutomaton
import SmtModel.Model.Minimize
import SmtModel.Model.Partition

namespace Driver.FamMinimize
open Smt Driver Smt.Minimize
open Driver.FamAutomaton (rAut pAut)

/-! ### minimize -/

/-- all strings over `alphabet` of length ≤ `len`, shortest first -/
def stringsUpTo (alphabet : List Nat) : Nat → List (List Nat)
  | 0 => [[]]
  | len + 1 =>
    let prev := stringsUpTo alphabet len
    prev ++ ((prev.filter (fun w => w.length == len)).flatMap fun w => alphabet.map (fun c => w ++ [c]))

/-- a short string on which the two automata disagree (diagnostic only) -/
def langDiff (A A' : Automaton) : Option (List Nat) :=
  let alphabet := alphabetOf2 A A'
  let len := if alphabet.length ≤ 3 then 6 else if alphabet.length ≤ 6 then 4 else 3
  (stringsUpTo alphabet len).find? (fun w => A.accepts w != A'.accepts w)

/-- first failing clause of `checkMinimized` (diagnostic; the verdict itself is `checkMinimized`) -/
def rejectReason (A A' : Automaton) : String :=
  if !wfAut A then "input-not-a-wellformed-complete-dfa"
  else if !wfAut A' then "result-not-a-wellformed-complete-dfa"
  else
    let diff := match langDiff A A' with
      | some w => s!":language-differs-on={pNats w}"
      | none => ""
    match findHom A A' with
    | none => "no-homomorphism:some-state-of-A-has-no-equivalent-state-in-result" ++ diff
    | some h =>
      if !checkHom A A' h (alphabetOf2 A A') then "homomorphism-check-failed" ++ diff
      else if !isDiscrete (moore A') then s!"result-not-minimal:equivalent-states-blocks={pNats (moore A')}"
      else if !countsOk A' then "num_final_states-inconsistent"
      else "unknown"

def verdict (A A' : Automaton) : String :=
  if checkMinimized A A' then "ok" else "REJECTED:" ++ rejectReason A A'

/-! ### abstract DFA for the `Minimizer` hook -/

def rRows (s : String) : Option (List (List Nat)) := (s.splitOn ";").mapM rNats

def tableDelta (rows : Array (Array Nat)) (s c : Nat) : Nat := (rows.getD s #[]).getD c 0

/-! ### partitions -/

inductive PStep where
  | refine (i : Nat) (set : List Nat)
  | withFun (i b : Nat) (f : List Nat)

def rStep (s : String) : Option PStep :=
  let body := sDrop s 1
  match s.front, body.splitOn ":" with
  | 'R', [i, set] => do let i ← rNat i; let set ← rNats set; pure (.refine i set)
  | 'F', [i, b, f] => do let i ← rNat i; let b ← rNat b; let f ← rNats f; pure (.withFun i b f)
  | _, _ => none

def rScript (s : String) : Option (List PStep) :=
  if s == "-" then some [] else (s.splitOn ";").mapM rStep

def pPair (r : Nat × Nat) : String := s!"{r.1}>{r.2}"

def dumpBase (p : BasePartition) (ids : String) (results : List (Nat × Nat)) : Option String := do
  let nb := p.numBlocks
  let idx ← p.index
  let blocks ← mapOpt p.blockElements (List.range nb)
  let sizes ← mapOpt p.blockSize (List.range nb)
  let picks ← mapOpt p.pickElement ((List.range nb).drop 1)
  pure s!"{nb}|{idx}|{p.sizeOf}|{";".intercalate (blocks.map pNats)}|{pNats sizes}|{pNats picks}|{ids}|{pList pPair results}"

def runBase (n : Nat) (script : List PStep) : Option String := do
  let (p, rs) ← script.foldlM (fun (acc : BasePartition × List (Nat × Nat)) st =>
    match st with
    | .refine i set => do
        let (p', r) ← acc.1.refineBlock i (fun x => set.contains x)
        pure (p', acc.2 ++ [r])
    | .withFun .. => none) (BasePartition.new n, [])
  dumpBase p "-" rs

def runPart (n : Nat) (script : List PStep) : Option String := do
  let (p, rs) ← script.foldlM (fun (acc : Partition × List (Nat × Nat)) st =>
    match st with
    | .refine i set => do
        let (p', r) ← acc.1.refineBlock i (fun x => set.contains x)
        pure (p', acc.2 ++ [r])
    | .withFun i b f => do
        -- the closure `f` indexes its table: out of range = the real closure panics; the model's
        -- `refineBlockWithFun` takes a total `f`, so an out-of-range `y` is mapped to an index
        -- that is out of range for `block_id` as well (same observable: PANIC)
        let (p', r) ← acc.1.refineBlockWithFun i (fun y => (f[y]?).getD acc.1.blockId.length) b
        pure (p', acc.2 ++ [r])) (Partition.new n, [])
  let ids ← mapOpt p.blockIdOf (List.range p.sizeOf)
  dumpBase p.base (pNats ids) rs

/-! ### dispatch -/

def handle (op : String) (args : List String) : Option Reply :=
  match op, args with
  | "minimize", [A, A'] => do
      let A ← rAut A
      if A' == "PANIC" then
        let v := if wfAut A then "REJECTED:minimize-panics-on-a-wellformed-complete-dfa" else "ok"
        okSpec v v
      else
        let A' ← rAut A'
        let v := verdict A A'
        okSpec v v
  | "minimize_num_states", [A] => do
      let A ← rAut A
      okProved (pNat (numBlocks (moore A)))
  | "quotient_check", [A] => do
      let A ← rAut A
      -- Props/C04 `quotient_passes_check`: always `1` for a well-formed complete DFA
      okProved (pBool (match quotient A (moore A) with
        | some Q => checkMinimized A Q && Q.numStates == numBlocks (moore A)
        | none => false))
  | "hopcroft", [n, k, fin, rows, ids] => do
      let n ← rNat n; let k ← rNat k; let fin ← rListWith rBool fin
      let rows ← rRows rows
      if ids == "PANIC" then
        let v := "REJECTED:refine-panics"
        return { model := v, spec := some v }
      let ids ← rNats ids
      let tbl : Array (Array Nat) := (rows.map List.toArray).toArray
      let finA := fin.toArray
      let m := mooreAbs n (fun s => finA.getD s false) (tableDelta tbl) (List.range k)
      let v := if ids.length == n && canon ids == m then "ok"
               else s!"REJECTED:moore-partition={pNats m}"
      okSpec v v
  | "bpart", [n, script] => do
      let n ← rNat n; let script ← rScript script
      ok (pPanic id (runBase n script))
  | "part", [n, script] => do
      let n ← rNat n; let script ← rScript script
      ok (pPanic id (runPart n script))
  | _, _ => none

end Driver.FamMinimize
