/-
  Family `min`: `Automaton::minimize` validated by the verified checker, the Hopcroft `Minimizer`
  on abstract DFAs, and `BasePartition` / `Partition` driven directly (C04).

  Encodings (one token each, no spaces)
  * automaton   as in family `aut` (Driver/FamAutomaton.lean): `n|init|nfinal|state;state;...`
  * script      `-` (empty) or `;`-joined steps
                  `R<i>:[x,y,..]`          refine_block(i, p)   with p(x) = "x is in the list"
                  `F<i>:<b>:[f0,f1,..]`    refine_block_with_fun(i, f, b) with f(y) = the y-th entry
                                           (an out-of-range y or entry makes the closure panic)
  * dump        `nb|index|size|[elems of block 0];[elems of block 1];...|[size of block i,..]|
                 [pick_element(i) for i in 1..nb]|[block_id(x) for x in 0..size]|[b1>b2,...]`
                (the last list = the pair returned by every step; `BasePartition` has no block_id:
                 that field is `-`)
  * dfa         `<n> <k> [final flags] rows` with rows = `;`-joined `[δ(s,0),…,δ(s,k-1)]`
                (`-` if there is no state)

  ops   minimize <A> <A'>          -> ok                 `A'` is what the real `minimize()` produced
                                                          from `A` (`PANIC` if it panicked).  The
                                                          block numbering of Hopcroft is an
                                                          implementation artefact, so the result is
                                                          not predicted but CHECKED: the model value
                                                          is `ok` iff `checkMinimized A A'`
                                                          (Props/C04 `check_minimized_sound`), else
                                                          `REJECTED:<first failing clause>`.
        minimize_num_states <A>    -> num_states() after minimize(); model: number of blocks of
                                      `moore A` (= number of distinct residual languages of the
                                      states of A, Props/C04 `moore_sound`/`moore_complete`)
        quotient_check <A>         -> 1      specification self-test (implementation not involved):
                                             the model's own quotient passes the checker
                                             (Props/C04 `quotient_passes_check`, executed)
        hopcroft <n> <k> <fin> <rows> <ids> -> ok   `ids` = block_id of every state after
                                             `Minimizer::refine()`; model: `ok` iff it is the Moore
                                             partition up to renumbering
        bpart <n> <script>         -> dump   BasePartition (only `R` steps)
        part <n> <script>          -> dump   Partition

  LITERAL comparison with the line-by-line model of `minimizer.rs` / `fast_sets.rs` /
  `StateMapping::from_partition` / `Automaton::minimize` (Model/Hopcroft.lean, Model/FastSet.lean):
        hopcroft_blocks <n> <k> <fin> <rows> -> `[block_id(s) for s in 0..n]|[elems of block 0];[block 1];..`
                                             the `Partition` returned by `Minimizer::new(..).refine()`,
                                             every block in stored (segment) order; `PANIC`
        hopcroft_state <n> <k> <fin> <rows>  -> `<state after new>#<state after refine>` with
                                             state = `M<blocks 1..>|P<pc 0>/<pc 1>/..|A<active>|I<inactive>`
                                             (everything `impl Display for Minimizer` prints: main
                                             partition, `pred_classes[c]` for every letter as `;`-joined
                                             element lists of blocks 1.., the active / inactive splitters
                                             `[block:char:class,..]` in the order of the splitter lists)
        hopcroft_trace <n> <k> <fin> <rows>  -> `<blocks 1.. initially>#<round>#<round>..`,
                                             round = `S<block>:<char>:<class>|[pred(B,c) in stored order]|<blocks 1.. after>`
                                             (what `refine_and_trace` prints: the splitter picked in
                                             every round, its pred class, the partition afterwards)
        minimize_literal <A>       -> A'     the automaton after the real `minimize()`, literally
                                             (state numbering, representatives, counts) = the model's
                                             `Automaton.minimize`
        fastset <max> <script>     -> `card|[iter()]|[results of the C steps]|[contains(x) for x in 0..max]`
                                             script = `-` or `;`-joined `I<x>` insert, `R<x>` remove,
                                             `C<x>` contains, `Z` reset
-/
import Driver.Proto
import Driver.FamAutomaton
import SmtModel.Model.Minimize
import SmtModel.Model.Partition
import SmtModel.Model.Hopcroft

namespace Driver.FamMinimize
open Smt Driver Smt.Minimize
open Driver.FamAutomaton (rAut pAut)

/-! ### minimize -/

/-- all strings over `alphabet` of length ≤ `len`, shortest first -/
def stringsUpTo (alphabet : List Nat) : Nat → List (List Nat)
  | 0 => [[]]
  | len + 1 =>
    let prev := stringsUpTo alphabet len
    prev ++ ((prev.filter (fun w => w.length == len)).flatMap fun w => alphabet.map (fun c => w ++ [c]))

/-- a short string on which the two automata disagree (diagnostic only) -/
def langDiff (A A' : Automaton) : Option (List Nat) :=
  let alphabet := alphabetOf2 A A'
  let len := if alphabet.length ≤ 3 then 6 else if alphabet.length ≤ 6 then 4 else 3
  (stringsUpTo alphabet len).find? (fun w => A.accepts w != A'.accepts w)

/-- first failing clause of `checkMinimized` (diagnostic; the verdict itself is `checkMinimized`) -/
def rejectReason (A A' : Automaton) : String :=
  if !wfAut A then "input-not-a-wellformed-complete-dfa"
  else if !wfAut A' then "result-not-a-wellformed-complete-dfa"
  else
    let diff := match langDiff A A' with
      | some w => s!":language-differs-on={pNats w}"
      | none => ""
    match findHom A A' with
    | none => "no-homomorphism:some-state-of-A-has-no-equivalent-state-in-result" ++ diff
    | some h =>
      if !checkHom A A' h (alphabetOf2 A A') then "homomorphism-check-failed" ++ diff
      else if !isDiscrete (moore A') then s!"result-not-minimal:equivalent-states-blocks={pNats (moore A')}"
      else if !countsOk A' then "num_final_states-inconsistent"
      else "unknown"

def verdict (A A' : Automaton) : String :=
  if checkMinimized A A' then "ok" else "REJECTED:" ++ rejectReason A A'

/-! ### abstract DFA for the `Minimizer` hook -/

def rRows (s : String) : Option (List (List Nat)) :=
  if s == "-" then some [] else (s.splitOn ";").mapM rNats

def tableDelta (rows : Array (Array Nat)) (s c : Nat) : Nat := (rows.getD s #[]).getD c 0

/-! ### partitions -/

inductive PStep where
  | refine (i : Nat) (set : List Nat)
  | withFun (i b : Nat) (f : List Nat)

def rStep (s : String) : Option PStep :=
  let body := sDrop s 1
  match s.front, body.splitOn ":" with
  | 'R', [i, set] => do let i ← rNat i; let set ← rNats set; pure (.refine i set)
  | 'F', [i, b, f] => do let i ← rNat i; let b ← rNat b; let f ← rNats f; pure (.withFun i b f)
  | _, _ => none

def rScript (s : String) : Option (List PStep) :=
  if s == "-" then some [] else (s.splitOn ";").mapM rStep

def pPair (r : Nat × Nat) : String := s!"{r.1}>{r.2}"

def dumpBase (p : BasePartition) (ids : String) (results : List (Nat × Nat)) : Option String := do
  let nb := p.numBlocks
  let idx ← p.index
  let blocks ← mapOpt p.blockElements (List.range nb)
  let sizes ← mapOpt p.blockSize (List.range nb)
  let picks ← mapOpt p.pickElement ((List.range nb).drop 1)
  pure s!"{nb}|{idx}|{p.sizeOf}|{";".intercalate (blocks.map pNats)}|{pNats sizes}|{pNats picks}|{ids}|{pList pPair results}"

def runBase (n : Nat) (script : List PStep) : Option String := do
  let (p, rs) ← script.foldlM (fun (acc : BasePartition × List (Nat × Nat)) st =>
    match st with
    | .refine i set => do
        let (p', r) ← acc.1.refineBlock i (fun x => set.contains x)
        pure (p', acc.2 ++ [r])
    | .withFun .. => none) (BasePartition.new n, [])
  dumpBase p "-" rs

def runPart (n : Nat) (script : List PStep) : Option String := do
  let (p, rs) ← script.foldlM (fun (acc : Partition × List (Nat × Nat)) st =>
    match st with
    | .refine i set => do
        let (p', r) ← acc.1.refineBlock i (fun x => set.contains x)
        pure (p', acc.2 ++ [r])
    | .withFun i b f => do
        -- the closure `f` indexes its table: out of range = the real closure panics; the model's
        -- `refineBlockWithFun` takes a total `f`, so an out-of-range `y` is mapped to an index
        -- that is out of range for `block_id` as well (same observable: PANIC)
        let (p', r) ← acc.1.refineBlockWithFun i (fun y => (f[y]?).getD acc.1.blockId.length) b
        pure (p', acc.2 ++ [r])) (Partition.new n, [])
  let ids ← mapOpt p.blockIdOf (List.range p.sizeOf)
  dumpBase p.base (pNats ids) rs

/-! ### Hopcroft, literally (Model/Hopcroft.lean) -/

/-- the closures the harness passes: `|s, c| rows[s][c]` and `|s| fin[s]` (panic = `none`) -/
def absDelta (rows : Array (Array Nat)) (s c : Nat) : Option Nat :=
  match rows[s]? with
  | none => none
  | some r => r[c]?

def absFinal (fin : Array Bool) (s : Nat) : Option Bool := fin[s]?

/-- `;`-joined element lists of the blocks `from ..` of a `BasePartition` (as its `Display`) -/
def pBlocks (p : BasePartition) (start : Nat) : Option String := do
  let bs ← mapOpt p.blockElements ((List.range p.numBlocks).drop start)
  pure (";".intercalate (bs.map pNats))

def pPartitionLit (p : Partition) : Option String := do
  let ids ← mapOpt p.blockIdOf (List.range p.sizeOf)
  let bs ← pBlocks p.base 0
  pure s!"{pNats ids}|{bs}"

def pSplitter (s : Hopcroft.Splitter) : String := s!"{s.block}:{s.char}:{s.cls}"

/-- mirror of `impl Display for Minimizer` -/
def pMinimizerState (m : Hopcroft.Minimizer) : Option String := do
  let main ← pBlocks m.mainPartition.base 1
  let pcs ← mapOpt (fun p => pBlocks p 1) m.predClasses
  let all : List Hopcroft.Splitter :=
    (m.splitters.list.zipIdx.map (fun (l, i) => l.items.map (fun s => s.toSplitter i))).flatten
  let act := all.filter (·.active)
  let inact := all.filter (fun s => !s.active)
  pure s!"M{main}|P{"/".intercalate pcs}|A{pList pSplitter act}|I{pList pSplitter inact}"

/-- mirror of `refine_and_trace` (the same loop as `refine`, printing every round) -/
def traceLoop (δ : Nat → Nat → Option Nat) : Nat → Hopcroft.Minimizer → List String → Option (List String)
  | 0, _, _ => none
  | fuel + 1, m, acc => do
    let idx ← m.mainPartition.index
    if idx < m.numStates then
      match ← Hopcroft.pickSplitter m with
      | (none, _) => pure acc
      | (some s, m') =>
        let pc ← m'.predClasses[s.char]?
        let pre ← pc.blockElements s.cls
        let m'' ← Hopcroft.refineWithSplitter δ m' s
        let after ← pBlocks m''.mainPartition.base 1
        traceLoop δ fuel m'' (acc ++ [s!"S{pSplitter s}|{pNats pre}|{after}"])
    else pure acc

/-! ### FastSet scripts -/

inductive FStep where
  | ins (x : Nat) | rem (x : Nat) | has (x : Nat) | reset

def rFStep (s : String) : Option FStep :=
  let body := sDrop s 1
  match s.front with
  | 'I' => (rNat body).map .ins
  | 'R' => (rNat body).map .rem
  | 'C' => (rNat body).map .has
  | 'Z' => if body.isEmpty then some .reset else none
  | _ => none

def rFScript (s : String) : Option (List FStep) :=
  if s == "-" then some [] else (s.splitOn ";").mapM rFStep

def runFastSet (max : Nat) (script : List FStep) : Option String := do
  let (set, rs) ← script.foldlM (fun (acc : FastSet × List Bool) st =>
    match st with
    | .ins x => do let s ← acc.1.insert x; pure (s, acc.2)
    | .rem x => do let s ← acc.1.remove x; pure (s, acc.2)
    | .has x => do let b ← acc.1.contains x; pure (acc.1, acc.2 ++ [b])
    | .reset => pure (acc.1.reset, acc.2)) (FastSet.new max, [])
  let it ← set.iter
  let all ← mapOpt set.contains (List.range max)
  pure s!"{set.card}|{pNats it}|{pList pBool rs}|{pList pBool all}"

/-! ### dispatch -/

def handle (op : String) (args : List String) : Option Reply :=
  match op, args with
  | "minimize", [A, A'] => do
      let A ← rAut A
      if A' == "PANIC" then
        let v := if wfAut A then "REJECTED:minimize-panics-on-a-wellformed-complete-dfa" else "ok"
        okSpec v v
      else
        let A' ← rAut A'
        let v := verdict A A'
        okSpec v v
  | "minimize_num_states", [A] => do
      let A ← rAut A
      okProved (pNat (numBlocks (moore A)))
  | "quotient_check", [A] => do
      let A ← rAut A
      -- Props/C04 `quotient_passes_check`: always `1` for a well-formed complete DFA
      okProved (pBool (match quotient A (moore A) with
        | some Q => checkMinimized A Q && Q.numStates == numBlocks (moore A)
        | none => false))
  | "hopcroft", [n, k, fin, rows, ids] => do
      let n ← rNat n; let k ← rNat k; let fin ← rListWith rBool fin
      let rows ← rRows rows
      if ids == "PANIC" then
        let v := "REJECTED:refine-panics"
        return { model := v, spec := some v }
      let ids ← rNats ids
      let tbl : Array (Array Nat) := (rows.map List.toArray).toArray
      let finA := fin.toArray
      let m := mooreAbs n (fun s => finA.getD s false) (tableDelta tbl) (List.range k)
      let v := if ids.length == n && canon ids == m then "ok"
               else s!"REJECTED:moore-partition={pNats m}"
      okSpec v v
  | "hopcroft_blocks", [n, k, fin, rows] => do
      let n ← rNat n; let k ← rNat k; let fin ← rListWith rBool fin
      let rows ← rRows rows
      let tbl : Array (Array Nat) := (rows.map List.toArray).toArray
      ok (pPanic id ((Hopcroft.run (absDelta tbl) (absFinal fin.toArray) n k).bind pPartitionLit))
  | "hopcroft_state", [n, k, fin, rows] => do
      let n ← rNat n; let k ← rNat k; let fin ← rListWith rBool fin
      let rows ← rRows rows
      let tbl : Array (Array Nat) := (rows.map List.toArray).toArray
      ok (pPanic id (do
        let m ← Hopcroft.new (absDelta tbl) (absFinal fin.toArray) n k
        let s0 ← pMinimizerState m
        let m' ← Hopcroft.refine (absDelta tbl) m
        let s1 ← pMinimizerState m'
        pure s!"{s0}#{s1}"))
  | "hopcroft_trace", [n, k, fin, rows] => do
      let n ← rNat n; let k ← rNat k; let fin ← rListWith rBool fin
      let rows ← rRows rows
      let tbl : Array (Array Nat) := (rows.map List.toArray).toArray
      ok (pPanic id (do
        let m ← Hopcroft.new (absDelta tbl) (absFinal fin.toArray) n k
        let p0 ← pBlocks m.mainPartition.base 1
        let rounds ← traceLoop (absDelta tbl) (Hopcroft.refineFuel n k) m []
        pure ("#".intercalate (p0 :: rounds))))
  | "minimize_literal", [A] => do
      let A ← rAut A
      ok (match A.minimize with
        | some A' => pAut A'
        | none => "PANIC")
  | "minimize_then_prune", [A] => do
      let A ← rAut A
      ok (match A.minimize with
        | some A' => (match A'.removeUnreachableStates with | some B => pAut B | none => "PANIC")
        | none => "PANIC")
  | "fastset", [max, script] => do
      let max ← rNat max; let script ← rFScript script
      ok (pPanic id (runFastSet max script))
  | "bpart", [n, script] => do
      let n ← rNat n; let script ← rScript script
      ok (pPanic id (runBase n script))
  | "part", [n, script] => do
      let n ← rNat n; let script ← rScript script
      ok (pPanic id (runPart n script))
  | _, _ => none

end Driver.FamMinimize
