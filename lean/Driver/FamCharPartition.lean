/-
  Family `cp`: CharPartition (C11) and merge_partitions / merge_partition_list (C12).

  Encodings (no spaces inside a token):
    interval            `a-b`
    interval list       `[a-b,c-d]`            (`[]` empty)
    partition  P        `[a-b,c-d]|w`          interval list as stored + `comp_witness`; `[]|0` = new()
    partition list      `{P1;P2;P3}`           (`{}` empty)
    ClassId             `Interval:i` | `Complement`
    CoverResult         `CoveredBy:i` | `DisjointFromAll` | `Overlaps`
    pair (u32,u32)      `a-b`                  (`get`; the sentinel is `196608-196608`)

  Operations (`cp <op> <args> => <result>`):
    new                          => P
    from_set a-b                 => P
    try_from_list [a-b,..]       => P | Err:NonDisjointCharSets      (input order as given)
    try_from_iter [a-b,..]       => same
    push_seq [a-b,..]            => P | PANIC     new() then push(a,b).. ; PANIC = a debug_assert of push (dev profile)
    len P                        => n
    is_empty P                   => 0/1
    ranges P                     => [a-b,..]
    get P i                      => a-b           (out of range: 196608-196608)
    start P i | end P i          => n             (out of range: 196608)
    interval P i                 => a-b | PANIC
    pick P i                     => n | PANIC
    empty_complement P           => 0/1
    pick_complement P            => n
    valid_class_id P cid         => 0/1
    num_classes P                => n
    pick_in_class P cid          => n | PANIC
    class_ids P                  => [cid,..]
    picks P                      => [n,..]
    class_of_char P x            => cid
    interval_cover P a-b         => CoverResult | PANIC (debug_assert, dev profile)
    class_of_set P a-b           => cid | Err:AmbiguousCharSet
    good_char_set P a-b          => 0/1
    merge P1 P2                  => P
    merge_list {P1;P2;..}        => P
    merge_list_iter kind {..}    => P             the same list through a filter / from_fn / chain iterator
    clone P | clone_from Q P     => P             (Q = the overwritten target)
    class_ids_nth P k j          => cid | none    k calls of next, then nth(j)
    picks_nth P k j              => n | none
    class_ids_step P s           => [cid,..]      class_ids().step_by(s)
    picks_skip P k               => [n,..]        picks().skip(k)

  Spec column: `class_of_char`, `interval_cover`, `class_of_set`, `good_char_set`, `try_from_list`
  are printed with the independent linear-scan specification of Model/Spec/CharPartition.lean
  (Props/C11 proves model = spec for well-formed partitions); the accessors are `okProved`
  (theorems of Props/C11); `merge`, `merge_list` are `okProved` by Props/C12 (`FUEL` would mean
  the model's iteration bound did not suffice: proved impossible for well-formed inputs).
-/
import Driver.Proto
import Driver.FamCharSet
import SmtModel.Model.CharPartition
import SmtModel.Model.Spec.CharPartition

namespace Driver.FamCharPartition
open Smt Driver Driver.FamCharSet

def pCSs (l : List CharSet) : String := pList pCS l

def pCP (p : CharPartition) : String := s!"{pCSs p.list}|{p.compWitness}"

def rCP (s : String) : Option CharPartition :=
  match s.splitOn "|" with
  | [l, w] => do let l ← rListWith rCS l; let w ← rNat w; pure ⟨l, w⟩
  | _ => none

def rCPs (s : String) : Option (List CharPartition) :=
  if s.length < 2 || s.front != '{' || s.back != '}' then none
  else
    let inner := sInner s
    if inner.isEmpty then some [] else (inner.splitOn ";").mapM rCP

def pCid : ClassId → String
  | .interval i => s!"Interval:{i}"
  | .complement => "Complement"

def rCid (s : String) : Option ClassId :=
  if s == "Complement" then some .complement
  else if s.startsWith "Interval:" then (rNat (sDrop s 9)).map ClassId.interval
  else none

def pCover : CoverResult → String
  | .coveredBy i => s!"CoveredBy:{i}"
  | .disjointFromAll => "DisjointFromAll"
  | .overlaps => "Overlaps"

def pErr : Err → String
  | .UndefinedDerivative => "Err:UndefinedDerivative"
  | .EmptyComplementaryClass => "Err:EmptyComplementaryClass"
  | .AmbiguousCharSet => "Err:AmbiguousCharSet"
  | .BadClassId => "Err:BadClassId"
  | .NonDisjointCharSets => "Err:NonDisjointCharSets"
  | .MissingDefaultSuccessor => "Err:MissingDefaultSuccessor"

def pExcept {α} (f : α → String) : Except Err α → String
  | .ok v => f v
  | .error e => pErr e

def pPair (x : Nat × Nat) : String := s!"{x.1}-{x.2}"

/-- `merge_partition_list` with the fuel channel visible (`none` = the model ran out of fuel) -/
def mergeList? (l : List CharPartition) : Option CharPartition :=
  l.foldlM (fun acc p => mergePartitions? acc p) CharPartition.new

def handle (op : String) (args : List String) : Option Reply :=
  match op, args with
  | "new", [] => okProved (pCP CharPartition.new)
  | "from_set", [c] => do let c ← rCS c; okProved (pCP (CharPartition.fromSet c))
  | "try_from_list", [l] | "try_from_iter", [l] => do
      let l ← rListWith rCS l
      okSpec (pExcept pCP (CharPartition.tryFromList l)) (pExcept pCP (CPSpec.tryFromList l))
  | "push_seq", [l] => do
      let l ← rListWith rCS l
      okProved (pPanic pCP (CharPartition.pushSeqChecked CharPartition.new l))
  | "len", [p] => do let p ← rCP p; okProved (pNat p.len)
  | "is_empty", [p] => do let p ← rCP p; okProved (pBool p.isEmpty)
  | "ranges", [p] => do let p ← rCP p; okProved (pCSs p.list)
  | "get", [p, i] => do let p ← rCP p; let i ← rNat i; okProved (pPair (p.get i))
  | "start", [p, i] => do let p ← rCP p; let i ← rNat i; okProved (pNat (p.startOf i))
  | "end", [p, i] => do let p ← rCP p; let i ← rNat i; okProved (pNat (p.endOf i))
  | "interval", [p, i] => do let p ← rCP p; let i ← rNat i; okProved (pPanic pCS (p.interval i))
  | "pick", [p, i] => do let p ← rCP p; let i ← rNat i; okProved (pPanic pNat (p.pick i))
  | "empty_complement", [p] => do let p ← rCP p; okProved (pBool p.emptyComplement)
  | "pick_complement", [p] => do let p ← rCP p; okProved (pNat p.pickComplement)
  | "valid_class_id", [p, c] => do let p ← rCP p; let c ← rCid c; okProved (pBool (p.validClassId c))
  | "num_classes", [p] => do let p ← rCP p; okProved (pNat p.numClasses)
  | "pick_in_class", [p, c] => do
      let p ← rCP p; let c ← rCid c; okProved (pPanic pNat (p.pickInClass c))
  | "class_ids", [p] => do let p ← rCP p; okProved (pList pCid p.classIds)
  | "picks", [p] => do let p ← rCP p; okProved (pNats p.picks)
  | "class_of_char", [p, x] => do
      let p ← rCP p; let x ← rNat x
      okSpec (pCid (p.classOfChar x)) (pCid (CPSpec.classOfChar p.list x))
  | "interval_cover", [p, s] => do
      let p ← rCP p; let s ← rCS s
      okSpec (pPanic pCover (p.intervalCoverChecked s)) (pCover (CPSpec.intervalCover p.list s))
  | "class_of_set", [p, s] => do
      let p ← rCP p; let s ← rCS s
      okSpec (pExcept pCid (p.classOfSet s)) (pExcept pCid (CPSpec.classOfSet p.list s))
  | "good_char_set", [p, s] => do
      let p ← rCP p; let s ← rCS s
      okSpec (pBool (p.goodCharSet s)) (pBool (CPSpec.goodCharSet p.list s))
  | "merge", [p, q] => do
      let p ← rCP p; let q ← rCP q
      -- Props/C12 `merge_fuel_sufficient`: never `FUEL` for well-formed inputs
      okProved (match mergePartitions? p q with | some r => pCP r | none => "FUEL")
  | "merge_list", [l] => do
      let l ← rCPs l
      -- Props/C12 `merge_list_fuel_sufficient`
      okProved (match mergeList? l with | some r => pCP r | none => "FUEL")
  -- the list argument is `impl Iterator`: the result may not depend on the iterator's shape
  | "merge_list_iter", [_, l] => do
      let l ← rCPs l
      okProved (match mergeList? l with | some r => pCP r | none => "FUEL")
  -- copies are the partition copied (intervals and complement witness)
  | "clone", [p] => do let p ← rCP p; okProved (pCP p)
  | "clone_from", [_, p] => do let p ← rCP p; okProved (pCP p)
  -- `Iterator::nth(j)` after k calls of `next`: element k+j of the enumeration (Props/C11 `class_ids_get`, `picks_get`:
  -- the list element at index i is what `next` computes with its counter at i)
  | "class_ids_nth", [p, k, j] => do
      let p ← rCP p; let k ← rNat k; let j ← rNat j
      okProved (match p.classIds[k + j]? with | some c => pCid c | none => "none")
  | "picks_nth", [p, k, j] => do
      let p ← rCP p; let k ← rNat k; let j ← rNat j
      okProved (match p.picks[k + j]? with | some c => pNat c | none => "none")
  | "class_ids_step", [p, st] => do
      let p ← rCP p; let st ← rNat st
      if st == 0 then none else
      okProved (pList pCid (((List.range p.classIds.length).filter (· % st == 0)).filterMap (p.classIds[·]?)))
  | "picks_skip", [p, k] => do
      let p ← rCP p; let k ← rNat k
      okProved (pNats (p.picks.drop k))
  -- the alphabet tiled by blocks of width w: pairwise disjoint, so `try_from_iter` succeeds
  -- (`try_from_list_ok_iff`) with the blocks in increasing order (`wf_try_from_list`: sorted
  -- permutation of the input) and an empty complementary class (`empty_complement_iff`); the
  -- expected summary is computed arithmetically instead of running the model's insertion sort on
  -- 196608 elements
  | "tiling", [w] => do
      let w ← rNat w
      if w == 0 then none else
      let n := (MAX_CHAR + 1 + w - 1) / w
      let mid := (MAX_CHAR / 2 / w)
      okSpec s!"Ok:{n}:1:Interval:{n - 1}:Interval:0:Interval:{mid}:1" s!"Ok:{n}:1:Interval:{n - 1}:Interval:0:Interval:{mid}:1"
  | _, _ => none

end Driver.FamCharPartition
