/-
  `smtdriver <trace-file>`: re-evaluates every operation of a trace with the Lean model and
  compares with what the implementation printed.

  output:  MISMATCH <line-no> <lhs> model=<m> impl=<i>
           SPECDIFF <line-no> <lhs> spec=<s> impl=<i>      (implementation ≠ specification)
           UNKNOWN  <line-no> <line>                        (unparsable: counts as failure)
           OPCOUNT  <fam> <op> <n>
           SUMMARY  lines=<n> ok=<k> mismatch=<m> specdiff=<d> unknown=<u>
-/
import Driver.Proto
import Driver.FamCharSet
import Driver.FamStore
import Driver.FamRe
import Driver.FamAutomaton
import Driver.FamLoopRange
import Driver.FamCharPartition
import Driver.FamLiteral
import Driver.FamMinimize
import Driver.FamStrings
import Driver.FamMgr

open Driver

structure DState where
  lines : Nat := 0
  okc : Nat := 0
  mismatch : Nat := 0
  specdiff : Nat := 0
  unknown : Nat := 0
  counts : List (String × Nat) := []
  re : Driver.FamRe.ReSt := {}
  mgr : Smt.Mgr := Smt.Mgr.new

def bump (cs : List (String × Nat)) (k : String) : List (String × Nat) :=
  match cs with
  | [] => [(k, 1)]
  | (k', n) :: rest => if k' == k then (k', n + 1) :: rest else (k', n) :: bump rest k

def dispatch (fam op : String) (args : List String) : Option Reply :=
  match fam with
  | "cs" => FamCharSet.handle op args
  | "store" => FamStore.handle op args
  | "aut" => FamAutomaton.handle op args
  | "lr" => FamLoopRange.handle op args
  | "cp" => FamCharPartition.handle op args
  | "lit" => FamLiteral.handle op args
  | "min" => FamMinimize.handle op args
  | "str" => FamStrings.handle op args
  | _ => none

def splitArrow (line : String) : Option (String × String) :=
  match line.splitOn " => " with
  | [l, r] => some (l, r)
  | _ => none

def step (st : DState) (lineNo : Nat) (line : String) : DState × List String :=
  let st := { st with lines := st.lines + 1 }
  match splitArrow line with
  | none => ({ st with unknown := st.unknown + 1 }, [s!"UNKNOWN {lineNo} {line}"])
  | some (lhs, impl) =>
    match lhs.splitOn " " with
    | fam :: op :: args =>
      let st := { st with counts := bump st.counts (fam ++ " " ++ op) }
      -- stateful family `re` (term table); all others are pure
      let (st, reply) :=
        if fam == "re" then
          let (re', r) := Driver.FamRe.handle st.re op args
          ({ st with re := re' }, r)
        else if fam == "mgr" then
          -- stateful manager model replayed from a fresh `Mgr` (no table oracle)
          let (m', r) := Driver.FamMgr.handle st.mgr op args
          ({ st with mgr := m' }, r)
        else (st, dispatch fam op args)
      match reply with
      | none => ({ st with unknown := st.unknown + 1 }, [s!"UNKNOWN {lineNo} {line}"])
      | some r =>
        let out1 := if r.model == impl then [] else [s!"MISMATCH {lineNo} {lhs} model={r.model} impl={impl}"]
        let out2 := match r.spec with
          | some sp => if sp == impl then [] else [s!"SPECDIFF {lineNo} {lhs} spec={sp} impl={impl}"]
          | none => []
        let out3 := match r.specCheck with
          | some f => match f impl with
            | some msg => [s!"SPECDIFF {lineNo} {lhs} spec={msg} impl={impl}"]
            | none => []
          | none => []
        let out2 := out2 ++ out3
        let st := if r.model == impl then { st with okc := st.okc + 1 } else { st with mismatch := st.mismatch + 1 }
        let st := if out2.isEmpty then st else { st with specdiff := st.specdiff + 1 }
        (st, out1 ++ out2)
    | _ => ({ st with unknown := st.unknown + 1 }, [s!"UNKNOWN {lineNo} {line}"])

partial def loop (h : IO.FS.Stream) (st : DState) (lineNo : Nat) : IO DState := do
  let line ← h.getLine
  if line.isEmpty then return st
  let line := sStripEol line
  if line.isEmpty || line.startsWith "#" then loop h st (lineNo + 1)
  else
    let (st', outs) := step st lineNo line
    for o in outs do IO.println o
    loop h st' (lineNo + 1)

def main (args : List String) : IO UInt32 := do
  let h ← match args with
    | [path] => do
        let hd ← IO.FS.Handle.mk path IO.FS.Mode.read
        pure (IO.FS.Stream.ofHandle hd)
    | _ => IO.getStdin
  let st ← loop h {} 1
  for (k, n) in st.counts do IO.println s!"OPCOUNT {k} {n}"
  IO.println s!"SUMMARY lines={st.lines} ok={st.okc} mismatch={st.mismatch} specdiff={st.specdiff} unknown={st.unknown}"
  return (if st.mismatch == 0 && st.unknown == 0 && st.specdiff == 0 then 0 else 1)
