/-
  Family `lit`: string literals and constructors (C08, C17).

  Encoding: texts (contents of a Rust `&str`), SMT strings and printed bodies are lists of code
  points `[c1,c2,…]`; a single character / u32 is a decimal number; a constructor result is
  `<code points>;<is_good 0/1>`; a panic is `PANIC`.

    lit parse <text>               => <string>            spec column: `specParse` (Props/C08 parse_eq_spec)
    lit display <string>           => <body>              body = `to_string()` without the two outer quotes
    lit char_to_smt <x>            => <text>
    lit smt_char_as_string <x>     => <text>
    lit roundtrip <string>         => <string>            parse(undouble(body)); spec column: the input (good strings)
    lit from_str <text>            => <string>;<good>     spec column: element-wise replacement, good
    lit from_string <text>         => <string>;<good>
    lit from_char <x>              => <string>;<good>
    lit from_u32 <x>               => <string>;<good>
    lit from_slice <vector>        => <string>;<good>
    lit from_vec <vector>          => <string>;<good>
    lit is_good <string>           => 0/1                 (only reachable strings: constructor results)
    lit is_unicode <string>        => 0/1                 spec column: no surrogate, <= 0x10FFFF
    lit to_unicode <string>        => <text>              chars of `to_unicode_string()`
    lit uni_roundtrip <string>     => <string>;<good>     `SmtString::from(s.to_unicode_string().as_str())`; spec: the input (good Unicode strings)
    lit re_str_ok <string>         => 1                   `ReManager::new().str(&s)` returned (PANIC otherwise)
-/
import Driver.Proto
import SmtModel.Model.Literal
import SmtModel.Model.Spec.Literal

namespace Driver.FamLiteral
open Smt Smt.Literal Smt.LiteralSpec Driver

def pStr (o : Option (List Nat)) : String := pPanic pNats o

def pCtor : Option (List Nat) → String
  | none => "PANIC"
  | some r => pNats r ++ ";" ++ pBool (isGood r)

/-- the specification of the constructors (C17): > 0x2FFFF ↦ 0xFFFD, others unchanged; good -/
def ctorSpec (a : List Nat) : String :=
  pNats (a.map (fun x => if x ≤ 0x2FFFF then x else 0xFFFD)) ++ ";1"

/-- independent statement of "Unicode scalar value" (not a surrogate, at most 0x10FFFF) -/
def uniSpec (x : Nat) : Bool := x ≤ 1114111 && !(55296 ≤ x && x ≤ 57343)

def handle (op : String) (args : List String) : Option Reply :=
  match op, args with
  | "parse", [t] => do
      let t ← rNats t
      okSpec (pStr (parseSmtLiteral t)) (pNats (specParse t))
  | "display", [s] => do let s ← rNats s; ok (pStr (displayBody s))
  | "char_to_smt", [x] => do let x ← rNat x; ok (pStr (charToSmt x))
  | "smt_char_as_string", [x] => do let x ← rNat x; ok (pStr (smtCharAsString x))
  | "roundtrip", [s] => do
      let s ← rNats s
      let m := pStr ((displayBody s).bind (fun b => parseSmtLiteral (undouble b)))
      if goodString s then okSpec m (pNats s) else ok m
  | "from_str", [a] => do let a ← rNats a; okSpec (pCtor (fromStr a)) (ctorSpec a)
  | "from_string", [a] => do let a ← rNats a; okSpec (pCtor (fromString a)) (ctorSpec a)
  | "from_char", [x] => do let x ← rNat x; okSpec (pCtor (fromChar x)) (ctorSpec [x])
  | "from_u32", [x] => do let x ← rNat x; okSpec (pCtor (fromU32 x)) (ctorSpec [x])
  | "from_slice", [a] => do let a ← rNats a; okSpec (pCtor (fromSlice a)) (ctorSpec a)
  | "from_vec", [a] => do let a ← rNats a; okSpec (pCtor (fromVec a)) (ctorSpec a)
  | "is_good", [s] => do let s ← rNats s; ok (pBool (isGood s))
  | "is_unicode", [s] => do
      let s ← rNats s
      okSpec (pBool (isUnicode s)) (pBool (s.all uniSpec))
  | "to_unicode", [s] => do
      let s ← rNats s
      okSpec (pNats (toUnicodeString s)) (pNats (s.map (fun x => if uniSpec x then x else 65533)))
  | "uni_roundtrip", [s] => do
      let s ← rNats s
      let m := pCtor (fromStr (toUnicodeString s))
      -- Props/C17Uni roundtrip: a good Unicode string comes back unchanged
      if goodString s && s.all uniSpec then okSpec m (pNats s ++ ";1") else ok m
  | "re_str_ok", [s] => do
      let s ← rNats s
      okProved (if reStrAsserts s then "1" else "PANIC")
  | _, _ => none

end Driver.FamLiteral
