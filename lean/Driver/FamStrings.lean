/-
  Family `str`: the SMT-LIB string functions of src/smt_strings.rs and `matcher::naive_search`
  (C06, C09).  Strings are lists of code points `[97,98]`; i32 arguments are decimal integers.

    str search <pattern> <string> <k>   => none | found:<i>:<j>      (naive_search)
    str concat <s1> <s2>                => <string>
    str len <s>                         => <int>
    str at <s> <i>                      => <string>
    str substr <s> <i> <n>              => <string>
    str lt|le|prefixof|suffixof|contains <s1> <s2>  => 0|1
    str indexof <s1> <s2> <i>           => <int>
    str replace|replace_all <s> <p> <r> => <string>
    str is_digit <s>                    => 0|1
    str to_code <s>                     => <int>
    str from_code <x>                   => <string>
    str to_int <s>                      => <int>
    str from_int <x>                    => <string>
  A panic of the implementation is the token `PANIC`; the model's `none` prints the same.

  Every op is `okProved`: Props/C06.lean and Props/C09.lean prove that the model's value is the
  SMT-LIB one for all inputs, so a deviation of the implementation is a SPECDIFF.
  `to_int` is evaluated in both `Profile`s of the model (they are proved equal); should they ever
  differ the driver prints `PROFILE-DEPENDENT`, which matches nothing.
-/
import Driver.Proto
import SmtModel.Model.Strings

namespace Driver.FamStrings
open Smt Smt.Str Driver

def pSearch : SearchResult → String
  | .notFound => "none"
  | .found i j => s!"found:{i}:{j}"

def handle (op : String) (args : List String) : Option Reply :=
  match op, args with
  | "search", [p, s, k] => do
      let p ← rNats p; let s ← rNats s; let k ← rNat k
      okProved (pPanic pSearch (naiveSearch p s k))
  | "concat", [a, b] => do let a ← rNats a; let b ← rNats b; okProved (pPanic pNats (strConcat a b))
  | "len", [s] => do let s ← rNats s; okProved (pInt (strLen s))
  | "at", [s, i] => do let s ← rNats s; let i ← rInt i; okProved (pPanic pNats (strAt s i))
  | "substr", [s, i, n] => do
      let s ← rNats s; let i ← rInt i; let n ← rInt n
      okProved (pPanic pNats (strSubstr s i n))
  | "lt", [a, b] => do let a ← rNats a; let b ← rNats b; okProved (pPanic pBool (strLt a b))
  | "le", [a, b] => do let a ← rNats a; let b ← rNats b; okProved (pPanic pBool (strLe a b))
  | "prefixof", [a, b] => do let a ← rNats a; let b ← rNats b; okProved (pPanic pBool (strPrefixof a b))
  | "suffixof", [a, b] => do let a ← rNats a; let b ← rNats b; okProved (pPanic pBool (strSuffixof a b))
  | "contains", [a, b] => do let a ← rNats a; let b ← rNats b; okProved (pPanic pBool (strContains a b))
  | "indexof", [a, b, i] => do
      let a ← rNats a; let b ← rNats b; let i ← rInt i
      okProved (pPanic pInt (strIndexof a b i))
  | "replace", [s, p, r] => do
      let s ← rNats s; let p ← rNats p; let r ← rNats r
      okProved (pPanic pNats (strReplace s p r))
  | "replace_all", [s, p, r] => do
      let s ← rNats s; let p ← rNats p; let r ← rNats r
      okProved (pPanic pNats (strReplaceAll s p r))
  | "is_digit", [s] => do let s ← rNats s; okProved (pPanic pBool (strIsDigit s))
  | "to_code", [s] => do let s ← rNats s; okProved (pPanic pInt (strToCode s))
  | "from_code", [x] => do let x ← rInt x; okProved (pPanic pNats (strFromCode x))
  | "to_int", [s] => do
      let s ← rNats s
      let a := strToInt .checked s
      let b := strToInt .wrapping s
      if a == b then okProved (pPanic pInt a) else okProved "PROFILE-DEPENDENT"
  | "from_int", [x] => do let x ← rInt x; okProved (pPanic pNats (strFromInt x))
  | _, _ => none

end Driver.FamStrings
