/-
  Line protocol shared by all families (DESIGN.md §4).

  trace line:   <fam> <op> <arg> ... => <result>
  values:       naturals / integers in decimal; booleans 0/1; lists `[a,b,c]`;
                options `none` / `some:<v>`; intervals `a-b`; errors `Err:<Variant>`;
                a caught panic is `PANIC`.
-/

namespace Driver

/-- what a family handler returns for one operation -/
structure Reply where
  /-- the model's canonical result (compared with the implementation's) -/
  model : String
  /-- the specification's verdict, when it is executable and directly comparable -/
  spec  : Option String := none
  /-- alternatively: a validation of the implementation's printed result against the
      specification; `some msg` = the implementation contradicts the specification -/
  specCheck : Option (String → Option String) := none

def ok (s : String) : Option Reply := some { model := s }
/-- the model's value is also the specification's: a theorem in Props proves model = spec for this op -/
def okProved (s : String) : Option Reply := some { model := s, spec := some s }
def okSpec (s sp : String) : Option Reply := some { model := s, spec := some sp }

/-! ### printers -/

def pBool (b : Bool) : String := if b then "1" else "0"
def pNat (n : Nat) : String := toString n
def pInt (n : Int) : String := toString n
def pList {α} (f : α → String) (l : List α) : String := "[" ++ ",".intercalate (l.map f) ++ "]"
def pNats (l : List Nat) : String := pList pNat l
def pOpt {α} (f : α → String) : Option α → String
  | none => "none"
  | some v => "some:" ++ f v
/-- `none` = the real code panics -/
def pPanic {α} (f : α → String) : Option α → String
  | none => "PANIC"
  | some v => f v

/-! ### string helpers (list-based, to stay independent of the `String.Slice` API) -/

def sDrop (s : String) (n : Nat) : String := String.ofList (s.toList.drop n)
def sDropEnd (s : String) (n : Nat) : String := String.ofList (s.toList.dropLast.take (s.length - n))
def sInner (s : String) : String := String.ofList ((s.toList.drop 1).dropLast)
def sStripEol (s : String) : String :=
  String.ofList (s.toList.reverse.dropWhile (fun c => c == '\n' || c == '\r')).reverse

/-! ### parsers (all return `Option`; a malformed token makes the line `UNKNOWN`) -/

def rNat (s : String) : Option Nat := s.toNat?
def rInt (s : String) : Option Int := s.toInt?
def rBool (s : String) : Option Bool :=
  if s == "1" then some true else if s == "0" then some false else none

/-- split the inside of `[...]` at top-level commas (no nesting needed: nested lists use `;`) -/
def rListWith {α} (f : String → Option α) (s : String) : Option (List α) :=
  if s.length < 2 || s.front != '[' || s.back != ']' then none
  else
    let inner := sInner s
    if inner.isEmpty then some []
    else (inner.splitOn ",").mapM f

def rNats (s : String) : Option (List Nat) := rListWith rNat s

def rOptWith {α} (f : String → Option α) (s : String) : Option (Option α) :=
  if s == "none" then some none
  else if s.startsWith "some:" then (f (sDrop s 5)).map some
  else none

end Driver
