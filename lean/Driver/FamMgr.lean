/-
  Family `mgr`: the STATEFUL manager model (SmtModel/Model/Manager.lean) replayed from a fresh
  `Mgr` — no dumped term table is used as an oracle.  Every constructor / derivative call of the
  session is executed on the model's own table (ids allocated by the model's `make`, operands
  sorted by the model's actual ids, derivatives through the model's cache) and the returned id is
  compared LITERALLY with the id the real `ReManager` returned; `table` compares the complete term
  table (every node over child ids, in allocation order) with `verif_term(0..n)`.
  So the allocation order itself is mirrored, not only the terms.

  (Props/C07Refine.lean proves that this stateful model refines the tree model used by family `re`.)

    mgr begin                              => ok          fresh manager
    mgr empty | full | epsilon | sigma_plus | all_chars   => <id>
    mgr range <a> <b> | char <x>           => <id> | PANIC
    mgr char_set <a>-<b>                   => <id>
    mgr smt_range [s1] [s2] | str [s]      => <id>
    mgr concat|union|inter|diff <a> <b>    => <id>
    mgr comp|star|plus|opt <a>             => <id>
    mgr exp <a> <k> | smt_loop <a> <i> <j> | mk_loop <a> <lo>..<hi|inf>   => <id>
    mgr concat_list|union_list|inter_list [ids] | diff_list <a> [ids]    => <id>
    mgr char_deriv <a> <c> | str_deriv <a> [s]           => <id>
    mgr class_deriv <a> <I<k>|C>           => <id> | Err:BadClassId
    mgr str_in_re <a> [s]                  => 0|1
    -- operations of Model/ManagerOps.lean (state threaded through every derivative call; a panic
    -- leaves the state of the moment of the panic; fuel FUEL for the searches)
    mgr class_deriv_unchecked <a> <I<k>|C> => <id> | PANIC
    mgr set_deriv <a> <lo>-<hi>            => <id> | Err:<kind> | PANIC
    mgr set_deriv_unchecked <a> <lo>-<hi>  => <id> | PANIC
    mgr iter_derivs <a>                    => [ids]            (BFS order)
    mgr is_empty_re <a>                    => 0|1
    mgr get_string <a>                     => none | some:[s]
    mgr start_char <a> <c>                 => 0|1
    mgr start_class <a> <I<k>|C>           => 0|1 | Err:BadClassId
    mgr compile <a>                        => <automaton>      (encoding of family `aut`)
    mgr try_compile <a> <n>                => none | some:<automaton>
    mgr re_search <a> [s] <k> <0|1>        => none | some:<i>:<j>
    mgr replace_re [s] <a> [t] | replace_re_all [s] <a> [t]   => [s']
    mgr nullable <a>                       => 0|1
    mgr size                               => <number of terms>
    mgr table                              => <enc>       encoding of family `store`
-/
import Driver.Proto
import Driver.FamAutomaton
import SmtModel.Model.Manager
import SmtModel.Model.ManagerOps

namespace Driver.FamMgr
open Smt Driver

def pHi : Option Nat → String
  | none => "inf"
  | some n => toString n

def pIds (l : List Nat) : String := ",".intercalate (l.map toString)

def pNode : Node → String
  | .empty => "E"
  | .epsilon => "e"
  | .range a b => s!"R:{a}:{b}"
  | .concat l r => s!"C:{l}:{r}"
  | .loop e lo hi => s!"L:{e}:{lo}:{pHi hi}"
  | .compl e => s!"N:{e}"
  | .union l => "U:" ++ pIds l
  | .inter l => "I:" ++ pIds l

def pTable (t : List Node) : String := ";".intercalate (t.map pNode)

def rCid (s : String) : Option ClassId :=
  if s == "C" then some .complement
  else if s.startsWith "I" then (rNat (sDrop s 1)).map ClassId.interval
  else none

def rRange (s : String) : Option LoopRange :=
  match s.splitOn ".." with
  | [a, b] => do
    let lo ← rNat a
    if b == "inf" then pure ⟨lo, none⟩ else do let hi ← rNat b; pure ⟨lo, some hi⟩
  | _ => none

def rCS (s : String) : Option CharSet :=
  match s.splitOn "-" with
  | [a, b] => do let a ← rNat a; let b ← rNat b; pure ⟨a, b⟩
  | _ => none

def pErr : Err → String
  | .UndefinedDerivative => "Err:UndefinedDerivative"
  | .EmptyComplementaryClass => "Err:EmptyComplementaryClass"
  | .AmbiguousCharSet => "Err:AmbiguousCharSet"
  | .BadClassId => "Err:BadClassId"
  | .NonDisjointCharSets => "Err:NonDisjointCharSets"
  | .MissingDefaultSuccessor => "Err:MissingDefaultSuccessor"

def pRes {α} (f : α → String) : RE.Res α → String
  | .ok a => f a
  | .panic => "PANIC"
  | .outOfFuel => "OUTOFFUEL"

/-- fuel of the searches (number of terms popped) -/
def FUEL : Nat := 20000

/-- a search: (new state, result) -/
def retR {α} (f : α → String) (r : Mgr × RE.Res α) : Mgr × Option Reply := (r.1, ok (pRes f r.2))

/-- a derivative entry point with an error channel -/
def retE (st : Mgr) (r : Option (Mgr × Except Err Nat)) : Mgr × Option Reply :=
  match r with
  | some (m, .ok i) => (m, ok (toString i))
  | some (m, .error e) => (m, ok (pErr e))
  | none => (st, ok "PANIC")

/-- a call that returns (new state, id) -/
def ret (r : Mgr × Nat) : Mgr × Option Reply := (r.1, ok (toString r.2))

/-- a call that may panic: the state is unchanged by a panic (the assertion is the first statement) -/
def retO (st : Mgr) (r : Option (Mgr × Nat)) : Mgr × Option Reply :=
  match r with
  | some r => (r.1, ok (toString r.2))
  | none => (st, ok "PANIC")

def handle (st : Mgr) (op : String) (args : List String) : Mgr × Option Reply :=
  let bad : Mgr × Option Reply := (st, none)
  match op, args with
  | "begin", [] => (Mgr.new, ok "ok")
  | "empty", [] => ret (st, Mgr.emptyId)
  | "full", [] => ret (st, Mgr.sigmaStarId)
  | "epsilon", [] => ret (st, Mgr.epsilonId)
  | "sigma_plus", [] => ret (st, Mgr.sigmaPlusId)
  | "all_chars", [] => ret (st, Mgr.sigmaId)
  | "range", [a, b] =>
    match rNat a, rNat b with
    | some a, some b => retO st (st.rangeM a b)
    | _, _ => bad
  | "char", [x] =>
    match rNat x with
    | some x => retO st (st.charM x)
    | _ => bad
  | "char_set", [s] =>
    match rCS s with
    | some s => ret (st.charSetM s)
    | _ => bad
  | "smt_range", [s1, s2] =>
    match rNats s1, rNats s2 with
    | some s1, some s2 => ret (st.smtRangeM s1 s2)
    | _, _ => bad
  | "str", [s] =>
    match rNats s with
    | some s => retO st (st.strM s)
    | _ => bad
  | "concat", [a, b] =>
    match rNat a, rNat b with
    | some a, some b => ret (st.concatM a b)
    | _, _ => bad
  | "union", [a, b] =>
    match rNat a, rNat b with
    | some a, some b => ret (st.unionM a b)
    | _, _ => bad
  | "inter", [a, b] =>
    match rNat a, rNat b with
    | some a, some b => ret (st.interM a b)
    | _, _ => bad
  | "diff", [a, b] =>
    match rNat a, rNat b with
    | some a, some b => ret (st.diffM a b)
    | _, _ => bad
  | "comp", [a] =>
    match rNat a with
    | some a => ret (st.complementM a)
    | _ => bad
  | "star", [a] =>
    match rNat a with
    | some a => ret (st.starM a)
    | _ => bad
  | "plus", [a] =>
    match rNat a with
    | some a => ret (st.plusM a)
    | _ => bad
  | "opt", [a] =>
    match rNat a with
    | some a => ret (st.optM a)
    | _ => bad
  | "exp", [a, k] =>
    match rNat a, rNat k with
    | some a, some k => ret (st.expM a k)
    | _, _ => bad
  | "smt_loop", [a, i, j] =>
    match rNat a, rNat i, rNat j with
    | some a, some i, some j => ret (st.smtLoopM a i j)
    | _, _, _ => bad
  | "mk_loop", [a, r] =>
    match rNat a, rRange r with
    | some a, some r => ret (st.mkLoopM a r)
    | _, _ => bad
  | "concat_list", [l] =>
    match rNats l with
    | some l => ret (st.concatListM l)
    | _ => bad
  | "union_list", [l] =>
    match rNats l with
    | some l => ret (st.unionListM l)
    | _ => bad
  | "inter_list", [l] =>
    match rNats l with
    | some l => ret (st.interListM l)
    | _ => bad
  | "diff_list", [a, l] =>
    match rNat a, rNats l with
    | some a, some l => ret (st.diffListM a l)
    | _, _ => bad
  | "char_deriv", [a, c] =>
    match rNat a, rNat c with
    | some a, some c => ret (st.charDerivativeM a c)
    | _, _ => bad
  | "str_deriv", [a, s] =>
    match rNat a, rNats s with
    | some a, some s => ret (st.strDerivativeM a s)
    | _, _ => bad
  | "class_deriv", [a, cid] =>
    match rNat a, rCid cid with
    | some a, some cid =>
      -- `class_derivative`: `if e.valid_class_id(cid) { Ok(cached_deriv) } else { Err(BadClassId) }`
      if (st.derivClass a).validClassId cid then retO st (st.cachedDerivM a cid)
      else (st, ok "Err:BadClassId")
    | _, _ => bad
  | "class_deriv_unchecked", [a, cid] =>
    match rNat a, rCid cid with
    | some a, some cid => retO st (st.classDerivativeUncheckedM a cid)
    | _, _ => bad
  | "set_deriv", [a, s] =>
    match rNat a, rCS s with
    | some a, some s => retE st (st.setDerivativeM a s)
    | _, _ => bad
  | "set_deriv_unchecked", [a, s] =>
    match rNat a, rCS s with
    | some a, some s => retO st (st.setDerivativeUncheckedM a s)
    | _, _ => bad
  | "iter_derivs", [a] =>
    match rNat a with
    | some a => retR pNats (st.iterDerivativesM FUEL a)
    | _ => bad
  | "is_empty_re", [a] =>
    match rNat a with
    | some a => retR pBool (st.isEmptyReM FUEL a)
    | _ => bad
  | "get_string", [a] =>
    match rNat a with
    | some a => retR (pOpt pNats) (st.getStringM FUEL a)
    | _ => bad
  | "start_char", [a, c] =>
    match rNat a, rNat c with
    | some a, some c => retR pBool (st.startCharM FUEL a c)
    | _, _ => bad
  | "start_class", [a, cid] =>
    match rNat a, rCid cid with
    | some a, some cid =>
      retR (fun r => match r with | .ok b => pBool b | .error e => pErr e) (st.startClassM FUEL a cid)
    | _, _ => bad
  | "compile", [a] =>
    match rNat a with
    | some a => retR FamAutomaton.pAut (st.compileM FUEL a)
    | _ => bad
  | "try_compile", [a, n] =>
    match rNat a, rNat n with
    | some a, some n => retR (pOpt FamAutomaton.pAut) (st.tryCompileM FUEL a n)
    | _, _ => bad
  | "re_search", [a, s, k, allow] =>
    match rNat a, rNats s, rNat k, rBool allow with
    | some a, some s, some k, some allow =>
      let r := st.naiveReSearchM a s k allow
      (r.1, ok (pOpt (fun (i, j) => s!"{i}:{j}") r.2))
    | _, _, _, _ => bad
  | "replace_re", [s, a, t] =>
    match rNats s, rNat a, rNats t with
    | some s, some a, some t => let r := st.strReplaceReM s a t; (r.1, ok (pNats r.2))
    | _, _, _ => bad
  | "replace_re_all", [s, a, t] =>
    match rNats s, rNat a, rNats t with
    | some s, some a, some t => let r := st.strReplaceReAllM s a t; (r.1, ok (pPanic pNats r.2))
    | _, _, _ => bad
  | "str_in_re", [a, s] =>
    match rNat a, rNats s with
    | some a, some s => let r := st.strInReM s a; (r.1, ok (pBool r.2))
    | _, _ => bad
  | "nullable", [a] =>
    match rNat a with
    | some a => (st, ok (pBool (st.nullable a)))
    | _ => bad
  | "size", [] => (st, ok (toString st.size))
  | "table", [] => (st, ok (pTable st.tbl))
  | _, _ => bad

end Driver.FamMgr
