use aws_smt_strings::smt_strings::*;
use aws_smt_strings::smt_regular_expressions as sre;
fn hexv(c:char)->Option<u32>{ c.to_digit(16) }
fn spec(t:&[char])->Vec<u32>{ let mut out=vec![]; let mut i=0; while i<t.len() {
  if t[i]=='\\' && i+1<t.len() && t[i+1]=='u' {
    // \uXXXX
    if i+5<t.len()+0 && i+6<=t.len() && (2..6).all(|k|hexv(t[i+k]).is_some()) { let mut v=0; for k in 2..6 {v=v*16+hexv(t[i+k]).unwrap();} out.push(v); i+=6; continue; }
    if i+2<t.len() && t[i+2]=='{' { let mut j=i+3; let mut v=0u32; let mut nd=0; while j<t.len() && nd<5 && hexv(t[j]).is_some() { v=v*16+hexv(t[j]).unwrap(); j+=1; nd+=1; }
      if nd>=1 && j<t.len() && t[j]=='}' && v<=0x2FFFF { out.push(v); i=j+1; continue; } }
  }
  out.push(t[i] as u32); i+=1; } out }
fn main(){
  let al=['\\','u','{','}','0','2','a','F','g','3'];
  let mut bad=0; let mut total=0u64;
  for len in 0..=8usize { let n=al.len().pow(len as u32); if len==8 { // sample
      let mut x=88172645463325252u64; for _ in 0..3_000_000 { x^=x<<13; x^=x>>7; x^=x<<17; let mut k=x; let t:Vec<char>=(0..11).map(|_|{let c=al[(k%10) as usize]; k/=10; c}).collect(); total+=1; let s:String=t.iter().collect(); if parse_smt_literal(&s)!=SmtString::from(spec(&t)) { bad+=1; if bad<=5 {println!("PARSE {:?} got {:?} want {:?}",s,parse_smt_literal(&s),spec(&t));} } } continue; }
    for mut k in 0..n { let t:Vec<char>=(0..len).map(|_|{let c=al[k%al.len()]; k/=al.len(); c}).collect(); total+=1; let s:String=t.iter().collect();
      if parse_smt_literal(&s)!=SmtString::from(spec(&t)) { bad+=1; if bad<=5 {println!("PARSE {:?} got {:?} want {:?}",s,parse_smt_literal(&s),spec(&t));} } } }
  println!("parser: {} texts, {} mismatches",total,bad);
  // printer round trip on strings over tricky chars
  let cs=[92u32,117,123,125,48,52,49,34,0,31,127,128,0xFFFF,0x10000,0x2FFFF,97];
  let mut rb=0; let mut tot=0;
  for len in 0..=4usize { let n=cs.len().pow(len as u32); for mut k in 0..n { let v:Vec<u32>=(0..len).map(|_|{let c=cs[k%cs.len()]; k/=cs.len(); c}).collect(); tot+=1;
    let s=SmtString::from(v.clone()); let d=s.to_string(); let body=&d[1..d.len()-1]; let un=body.replace("\"\"","\"");
    if !d.chars().all(|c|(' '..='~').contains(&c)) || parse_smt_literal(&un)!=s { rb+=1; if rb<=3 {println!("PRINT {:?} -> {} -> {:?}",v,d,parse_smt_literal(&un));} } } }
  println!("printer: {} strings, {} roundtrip failures",tot,rb);
  // replace_re vs spec with brute-force membership through str_in_re
  let a=sre::str_to_re(&"a".into()); let b=sre::str_to_re(&"b".into());
  let res=vec![sre::re_star(a), sre::re_plus(a), sre::re_concat(a,b), sre::re_union(sre::re_concat(a,a),b), sre::re_none(), sre::re_all(), sre::re_comp(a), sre::re_opt(sre::re_concat(a,b)), sre::re_inter(sre::re_allchar(), sre::re_comp(a)), sre::re_loop(sre::re_union(a,b),2,3)];
  let al=[97u32,98,99]; let mut ws:Vec<Vec<u32>>=vec![vec![]]; let mut last=ws.clone(); for _ in 0..5 { let mut nx=vec![]; for w in &last { for &ch in &al { let mut v=w.clone(); v.push(ch); nx.push(v);} } ws.extend(nx.iter().cloned()); last=nx; }
  let t:Vec<u32>=vec![88,89]; let st=SmtString::from(t.clone()); let mut rbad=0;
  for &r in &res { for w in &ws { let m=|i:usize,j:usize| sre::str_in_re(&SmtString::from(w[i..j].to_vec()),r);
    // replace_re spec: leftmost i (0..=len) with some j>=i matching; shortest j
    let mut want=w.clone(); 'o: for i in 0..=w.len() { for j in i..=w.len() { if m(i,j) { want=[&w[..i],&t[..],&w[j..]].concat(); break 'o; } } }
    if sre::str_replace_re(&SmtString::from(w.clone()),r,&st)!=SmtString::from(want.clone()) { rbad+=1; if rbad<=5 {println!("REPLACE_RE {} {:?} want {:?} got {}",r,w,want,sre::str_replace_re(&SmtString::from(w.clone()),r,&st));} }
    // replace_re_all: non-empty leftmost shortest repeatedly
    let mut out=vec![]; let mut i=0; loop { let mut found=None; 'p: for s in i..w.len() { for j in s+1..=w.len() { if m(s,j) {found=Some((s,j)); break 'p;} } } match found {None=>{out.extend_from_slice(&w[i..]);break;},Some((s,j))=>{out.extend_from_slice(&w[i..s]);out.extend_from_slice(&t);i=j;}} }
    if sre::str_replace_re_all(&SmtString::from(w.clone()),r,&st)!=SmtString::from(out.clone()) { rbad+=1; if rbad<=5 {println!("REPLACE_RE_ALL {} {:?} want {:?}",r,w,out);} }
  }}
  println!("replace_re mismatches {}",rbad);
}
