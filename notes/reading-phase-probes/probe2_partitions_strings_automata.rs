use aws_smt_strings::character_sets::*;
use aws_smt_strings::loop_ranges::*;
use aws_smt_strings::smt_strings::*;
use aws_smt_strings::automata::*;
use std::collections::BTreeMap;
struct Rng(u64);
impl Rng { fn next(&mut self)->u64{ self.0 ^= self.0<<13; self.0 ^= self.0>>7; self.0 ^= self.0<<17; self.0 } fn below(&mut self,n:u64)->u64{ self.next()%n } }
const M: u32 = 40; // small universe for brute force, plus MAX boundary mapping
fn mapc(x:u32)->u32{ if x>=M-2 { MAX_CHAR-(M-1-x) } else {x} } // top 2 values map to MAX-1, MAX
fn unis()->Vec<u32>{ (0..M).map(mapc).collect() }
fn gen_part(r:&mut Rng)->Vec<(u32,u32)>{ let mut v=vec![]; let mut x=0u32; while x<M { if r.below(3)==0 { let len=r.below(4) as u32; let e=(x+len).min(M-1); v.push((mapc(x),mapc(e))); x=e+1+ r.below(2) as u32; } else { x+=1+r.below(3) as u32; } } v }
fn mk(v:&[(u32,u32)])->CharPartition{ let mut p=CharPartition::new(); for &(a,b) in v {p.push(a,b);} p }
fn cls(v:&[(u32,u32)],x:u32)->Option<usize>{ v.iter().position(|&(a,b)|a<=x&&x<=b) }
fn main(){
  let seed: u64 = std::env::args().nth(1).map(|s|s.parse().unwrap()).unwrap_or(7);
  let mut r=Rng(seed|1); let u=unis();
  let mut bad=BTreeMap::<&str,usize>::new();
  macro_rules! rep { ($k:expr,$($a:tt)*) => {{ let c=bad.entry($k).or_default(); *c+=1; if *c<=3 { println!("[{}] {}",$k,format!($($a)*)); } }} }
  for _ in 0..3000 {
    let v1=gen_part(&mut r); let v2=gen_part(&mut r); let p1=mk(&v1); let p2=mk(&v2);
    // witness
    let w=u.iter().copied().find(|&x|cls(&v1,x).is_none());
    // true least non-member over the whole alphabet: candidates 0 or end+1
    let mut tw=0u32; for &(a,b) in &v1 { if a<=tw {tw=b+1;} }
    if p1.pick_complement()!=tw { rep!("witness","{:?} got {} want {}",v1,p1.pick_complement(),tw); }
    let _=w;
    for &x in &u { let c=p1.class_of_char(x); let e=match cls(&v1,x){Some(i)=>ClassId::Interval(i),None=>ClassId::Complement}; if c!=e {rep!("class_of_char","{:?} {}",v1,x);} }
    // cover
    for _ in 0..20 { let a=r.below(M as u64) as u32; let b=a+r.below((M-a) as u64) as u32; let s=CharSet::range(mapc(a),mapc(b));
      let got=p1.interval_cover(&s);
      let inside=v1.iter().position(|&(x,y)|x<=mapc(a)&&mapc(b)<=y);
      let meets=v1.iter().any(|&(x,y)| !(y<mapc(a)||mapc(b)<x));
      let want= if let Some(i)=inside {CoverResult::CoveredBy(i)} else if !meets {CoverResult::DisjointFromAll} else {CoverResult::Overlaps};
      if got!=want {rep!("cover","{:?} [{},{}] got {} want {}",v1,mapc(a),mapc(b),got,want);} }
    // merge
    let m=merge_partitions(&p1,&p2); let vm:Vec<(u32,u32)>=m.ranges().map(|s|{let s=format!("{:?}",s); let n:Vec<u32>=s.split(|c:char|!c.is_ascii_digit()).filter(|t|!t.is_empty()).map(|t|t.parse().unwrap()).collect(); (n[0],n[1])}).collect();
    // sorted disjoint
    for k in 1..vm.len() { if vm[k-1].1>=vm[k].0 {rep!("merge-wf","{:?}",vm);} }
    for &x in &u { for &y in &u { if x<y {
      let same_m = cls(&vm,x).is_some() && cls(&vm,x)==cls(&vm,y);
      let same12 = cls(&v1,x)==cls(&v1,y) && cls(&v2,x)==cls(&v2,y);
      if same_m && !same12 {rep!("merge-unsound","{:?} {:?} -> {:?} {} {}",v1,v2,vm,x,y);}
      // maximality: contiguous run in same joint class and not both-complement
      let contiguous = u.iter().filter(|&&z|x<=z&&z<=y).all(|&z| cls(&v1,z)==cls(&v1,x)&&cls(&v2,z)==cls(&v2,x));
      let bothc = cls(&v1,x).is_none()&&cls(&v2,x).is_none();
      // contiguity in u is only approximate across the mapc jump; skip pairs straddling the jump
      let straddle = x< M-2 && y>=MAX_CHAR-1;
      if contiguous && !bothc && !straddle && !same_m {rep!("merge-notmax","{:?} {:?} -> {:?} {} {}",v1,v2,vm,x,y);}
    }}}
    for &x in &u { let cm=cls(&vm,x).is_none(); let c12=cls(&v1,x).is_none()&&cls(&v2,x).is_none(); if cm!=c12 {rep!("merge-comp","{:?} {:?} -> {:?} {}",v1,v2,vm,x);} }
    let mut tw=0u32; for &(a,b) in &vm { if a<=tw {tw=b+1;} } if m.pick_complement()!=tw {rep!("merge-witness","{:?}",vm);}
    // try_from_iter on shuffled
    let mut sh:Vec<CharSet>=v1.iter().map(|&(a,b)|CharSet::range(a,b)).collect(); for i in (1..sh.len()).rev(){ let j=r.below(i as u64+1) as usize; sh.swap(i,j);} 
    match CharPartition::try_from_list(&sh) { Ok(q)=> if q!=p1 {rep!("from_list-neq","{:?}",v1);}, Err(_)=>rep!("from_list-err","{:?}",v1) }
    if !v1.is_empty() { let k=r.below(v1.len() as u64) as usize; let (a,b)=v1[k]; sh.push(CharSet::range(a.max(b.saturating_sub(1)).min(b),b)); if CharPartition::try_from_list(&sh).is_ok() {rep!("from_list-overlap-ok","{:?}",v1);} }
    // charset union/inter
    let a=r.below(M as u64) as u32; let b=a+r.below((M-a) as u64) as u32; let c=r.below(M as u64) as u32; let d=c+r.below((M-c) as u64) as u32;
    let (a,b,c,d)=(a,b,c,d); let s=CharSet::range(a,b); let t=CharSet::range(c,d);
    let un:Vec<u32>=(0..M).filter(|&x|(a<=x&&x<=b)||(c<=x&&x<=d)).collect(); let isint=un.windows(2).all(|w|w[1]==w[0]+1);
    match s.union(&t){ Some(q)=>{ if !isint || q!=CharSet::range(un[0],*un.last().unwrap()) {rep!("cs-union","[{},{}] [{},{}]",a,b,c,d);} }, None=> if isint {rep!("cs-union-none","[{},{}] [{},{}]",a,b,c,d);} }
    let it:Vec<u32>=(0..M).filter(|&x|(a<=x&&x<=b)&&(c<=x&&x<=d)).collect();
    match s.inter(&t){ Some(q)=> if it.is_empty()||q!=CharSet::range(it[0],*it.last().unwrap()) {rep!("cs-inter","")}, None=> if !it.is_empty(){rep!("cs-inter-none","")} }
  }
  // loop ranges
  let mk=|lo:u32,hi:Option<u32>| match hi {Some(h)=>LoopRange::finite(lo,h),None=>LoopRange::infinite(lo)};
  let memr=|lo:u32,hi:Option<u32>,n:u32| lo<=n && hi.map_or(true,|h|n<=h);
  const B:u32=60; // brute bound; treat infinity as beyond
  for a in 0..5u32 { for b in (a..a+4).map(Some).chain([None]) { for c in 0..5u32 { for d in (c..c+4).map(Some).chain([None]) {
    let r1=mk(a,b); let r2=mk(c,d);
    // K = union_{y in r2} y*[a,b]  restricted to < B
    let mut k=vec![false;B as usize];
    for y in 0..B { if memr(c,d,y) { for n in 0..B { // n in y-fold sum of r1: y*a<=n<=y*b
        let lo=y*a; let ok= n>=lo && b.map_or(y>0||n==0, |bb| n<=y*bb); if ok {k[n as usize]=true;} } } }
    let pm=r1.mul(&r2);
    let exact_ref=(0..B/2).all(|n| k[n as usize]==pm.contains(n));
    if r1.right_mul_is_exact(&r2)!=exact_ref { rep!("mul-exact","{} {} got {} ref {}",r1,r2,r1.right_mul_is_exact(&r2),exact_ref); }
    for n in 0..B/2 { if k[n as usize] && !pm.contains(n) {rep!("mul-notcontain","{} {} {}",r1,r2,n);} }
    let ad=r1.add(&r2); for n in 0..B/2 { let want=(0..=n).any(|x|memr(a,b,x)&&memr(c,d,n-x)); if ad.contains(n)!=want {rep!("add","{} {} {}",r1,r2,n);} }
    let sh=r1.shift(); for n in 0..B/2 { let want=(0..B).any(|x|memr(a,b,x)&&x.saturating_sub(1)==n); if sh.contains(n)!=want {rep!("shift","{} {}",r1,n);} }
    let inc=r1.includes(&r2); let want=(0..B*2).all(|n| !memr(c,d,n)||memr(a,b,n)); if inc!=want {rep!("includes","{} {}",r1,r2);}
  }}}}
  // strings vs spec
  let al=[97u32,98];
  let mut ws:Vec<Vec<u32>>=vec![vec![]]; let mut last=ws.clone(); for _ in 0..4 { let mut nx=vec![]; for w in &last { for &ch in &al { let mut v=w.clone(); v.push(ch); nx.push(v);} } ws.extend(nx.iter().cloned()); last=nx; }
  let occ=|w:&[u32],p:&[u32],n:usize| n+p.len()<=w.len() && w[n..n+p.len()]==*p;
  for w in &ws { for p in &ws { if p.len()>3 {continue;}
    let sw=SmtString::from(w.clone()); let sp=SmtString::from(p.clone());
    for i in -2i32..=(w.len() as i32+2) {
      let want = if i<0 || i as usize>w.len() {-1} else { (i as usize..=w.len()).find(|&n|occ(w,p,n)).map_or(-1,|n|n as i32) };
      let got=str_indexof(&sw,&sp,i); if got!=want {rep!("indexof","{:?} {:?} {} got {} want {}",w,p,i,got,want);}
      for n in -1i32..=(w.len() as i32+1) { let want:Vec<u32>= if i<0||i as usize>=w.len()||n<=0 {vec![]} else { let j=(i as usize+n as usize).min(w.len()); w[i as usize..j].to_vec() }; if str_substr(&sw,i,n)!=SmtString::from(want) {rep!("substr","");} }
    }
    for t in [vec![],vec![99u32],vec![97,97]] { let st=SmtString::from(t.clone());
      let want= match (0..=w.len()).find(|&n|occ(w,p,n)) {None=>w.clone(),Some(n)=>[&w[..n],&t[..],&w[n+p.len()..]].concat()};
      if str_replace(&sw,&sp,&st)!=SmtString::from(want) {rep!("replace","{:?} {:?} {:?}",w,p,t);}
      let mut want=vec![]; if p.is_empty(){want=w.clone();} else { let mut i=0; loop { match (i..=w.len()).find(|&n|occ(w,p,n)) {None=>{want.extend_from_slice(&w[i..]);break;},Some(n)=>{want.extend_from_slice(&w[i..n]);want.extend_from_slice(&t);i=n+p.len();}} } }
      if str_replace_all(&sw,&sp,&st)!=SmtString::from(want) {rep!("replace_all","{:?} {:?} {:?}",w,p,t);}
    }
    if str_prefixof(&sp,&sw)!=(p.len()<=w.len()&&w[..p.len()]==p[..]) {rep!("prefixof","");}
    if str_suffixof(&sp,&sw)!=(p.len()<=w.len()&&w[w.len()-p.len()..]==p[..]) {rep!("suffixof","");}
    if str_contains(&sw,&sp)!=(0..=w.len()).any(|n|occ(w,p,n)) {rep!("contains","");}
    if str_lt(&sw,&sp)!=(w<p) {rep!("lt","");} if str_le(&sw,&sp)!=(w<=p) {rep!("le","");}
  }}
  // builder + compile_successors + minimize + unreachable on random DFAs over keys
  for it in 0..3000 {
    let n=1+r.below(6) as u32; let mut b=AutomatonBuilder::new(&0u32);
    let mut spec:Vec<(Vec<(u32,u32,u32)>,Option<u32>,bool)>=vec![];
    for s in 0..n { let v=gen_part(&mut r); let mut tr=vec![]; for &(x,y) in &v { let t=r.below(n as u64) as u32; tr.push((x,y,t)); }
      let covered=u.iter().all(|&x|cls(&v,x).is_some()) ;
      let def= if !covered || false {Some(r.below(n as u64) as u32)} else {None};
      let fin=r.below(3)==0; spec.push((tr,def,fin)); let _=s; }
    // note: coverage over the sampled universe only approximates coverage of the real alphabet; force a gap by never covering char 20000
    for (s,(tr,def,fin)) in spec.iter().enumerate() { let s=s as u32; for &(x,y,t) in tr { b.add_transition(&s,&CharSet::range(x,y),&t);} let d=def.unwrap_or(r.below(n as u64) as u32); b.set_default_successor(&s,&d); if *fin {b.mark_final(&s);} }
    // here every state gets a default (real alphabet always has gaps since universe is sparse)
    let a=match b.build(){Ok(a)=>a,Err(e)=>{rep!("build-err","{} {:?}",e,spec);continue}};
    let _=it;
    // ids: builder assigns ids in order of first mention; recover mapping by exploring? keys: state 0 first. We only check language-level facts from initial state.
    // compile_successors vs next
    let alpha=a.pick_alphabet(); let tbl=a.compile_successors();
    for s in a.states() { for (i,&c) in alpha.iter().enumerate() { if tbl.eval(s.id() as u32,i as u32) as usize != a.next(s,c).id() {rep!("compact","state {} idx {}",s.id(),i);} } }
    let cp=a.combined_char_partition();
    for &x in &u { for &y in &u { if cp.class_of_char(x)==cp.class_of_char(y) { for s in a.states() { if a.next(s,x).id()!=a.next(s,y).id() {rep!("combined","");} } } } }
    // words
    let al2=[u[0],u[5],u[17],u[39],20000u32];
    let mut ws2:Vec<Vec<u32>>=vec![vec![]]; let mut last=ws2.clone(); for _ in 0..4 { let mut nx=vec![]; for w in &last { for &ch in &al2 { let mut v=w.clone(); v.push(ch); nx.push(v);} } ws2.extend(nx.iter().cloned()); last=nx; }
    let acc:Vec<bool>=ws2.iter().map(|w|a.accepts(&SmtString::from(w.clone()))).collect();
    let mut a2=match {let mut b2=b; b2.build()} {Ok(x)=>x,Err(_)=>continue};
    let n0=a2.num_states();
    a2.remove_unreachable_states();
    for (w,&x) in ws2.iter().zip(&acc) { if a2.accepts(&SmtString::from(w.clone()))!=x {rep!("unreach-lang","");break;} }
    a2.minimize();
    for (w,&x) in ws2.iter().zip(&acc) { if a2.accepts(&SmtString::from(w.clone()))!=x {rep!("min-lang","n0={}",n0);break;} }
    // reducedness approx: no two states agree on all words up to len 4 over al2 (necessary condition only if distinguishing words are short; with <=6 states, length<=5 suffices over the full class alphabet; approximate)
    let fcount=a2.states().filter(|s|s.is_final()).count(); if fcount!=a2.num_final_states(){rep!("finalcount","");}
  }
  println!("summary {:?}",bad);
}
