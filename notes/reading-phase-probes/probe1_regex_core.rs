use aws_smt_strings::regular_expressions::*;
use aws_smt_strings::loop_ranges::*;
use aws_smt_strings::smt_strings::*;

// construction program AST
#[derive(Clone, Debug)]
enum P { Empty, Eps, Full, AllChar, Range(u32,u32), Str(Vec<u32>), Concat(Box<P>,Box<P>), Union(Box<P>,Box<P>), Inter(Box<P>,Box<P>),
  Comp(Box<P>), Diff(Box<P>,Box<P>), Star(Box<P>), Plus(Box<P>), Opt(Box<P>), Pow(Box<P>,u32), Loop(Box<P>,u32,u32), LoopInf(Box<P>,u32) }

struct Rng(u64);
impl Rng { fn next(&mut self)->u64{ self.0 ^= self.0<<13; self.0 ^= self.0>>7; self.0 ^= self.0<<17; self.0 } fn below(&mut self,n:u64)->u64{ self.next()%n } }

const AL: [u32;4] = [97,98,99,100];
fn gen(r:&mut Rng, d:u32)->P{
  let k = if d==0 { r.below(6) } else { r.below(17) };
  let b=|r:&mut Rng| Box::new(gen(r,d-1));
  match k {0=>P::Empty,1=>P::Eps,2=>P::Full,3=>P::AllChar,
   4=>{let a=AL[r.below(4) as usize]; let c=AL[r.below(4) as usize]; if a<=c {P::Range(a,c)} else {P::Range(c,a)}},
   5=>{let n=r.below(3); P::Str((0..n).map(|_|AL[r.below(3) as usize]).collect())},
   6=>P::Concat(b(r),b(r)),7=>P::Union(b(r),b(r)),8=>P::Inter(b(r),b(r)),9=>P::Comp(b(r)),10=>P::Diff(b(r),b(r)),
   11=>P::Star(b(r)),12=>P::Plus(b(r)),13=>P::Opt(b(r)),14=>P::Pow(b(r),r.below(4) as u32),
   15=>{let i=r.below(3) as u32; let j=r.below(4) as u32; P::Loop(b(r),i,j)}, _=>P::LoopInf(b(r),r.below(3) as u32)}
}
fn build(re:&mut ReManager,p:&P)->RegLan{ match p {
  P::Empty=>re.empty(),P::Eps=>re.epsilon(),P::Full=>re.full(),P::AllChar=>re.all_chars(),P::Range(a,b)=>re.range(*a,*b),
  P::Str(s)=>re.str(&SmtString::from(s.clone())),
  P::Concat(a,b)=>{let x=build(re,a);let y=build(re,b);re.concat(x,y)},
  P::Union(a,b)=>{let x=build(re,a);let y=build(re,b);re.union(x,y)},
  P::Inter(a,b)=>{let x=build(re,a);let y=build(re,b);re.inter(x,y)},
  P::Comp(a)=>{let x=build(re,a);re.complement(x)},
  P::Diff(a,b)=>{let x=build(re,a);let y=build(re,b);re.diff(x,y)},
  P::Star(a)=>{let x=build(re,a);re.star(x)},P::Plus(a)=>{let x=build(re,a);re.plus(x)},P::Opt(a)=>{let x=build(re,a);re.opt(x)},
  P::Pow(a,k)=>{let x=build(re,a);re.exp(x,*k)},P::Loop(a,i,j)=>{let x=build(re,a);re.smt_loop(x,*i,*j)},
  P::LoopInf(a,i)=>{let x=build(re,a);re.mk_loop(x,LoopRange::infinite(*i))}}}
// reference membership
fn mem(p:&P,w:&[u32])->bool{ match p {
  P::Empty=>false,P::Eps=>w.is_empty(),P::Full=>true,P::AllChar=>w.len()==1,P::Range(a,b)=>w.len()==1&&*a<=w[0]&&w[0]<=*b,
  P::Str(s)=>s[..]==*w,
  P::Concat(a,b)=>(0..=w.len()).any(|i|mem(a,&w[..i])&&mem(b,&w[i..])),
  P::Union(a,b)=>mem(a,w)||mem(b,w),P::Inter(a,b)=>mem(a,w)&&mem(b,w),P::Comp(a)=>!mem(a,w),P::Diff(a,b)=>mem(a,w)&&!mem(b,w),
  P::Star(a)=>memloop(a,w,0,None),P::Plus(a)=>memloop(a,w,1,None),P::Opt(a)=>w.is_empty()||mem(a,w),
  P::Pow(a,k)=>memloop(a,w,*k,Some(*k)),P::Loop(a,i,j)=> if i<=j {memloop(a,w,*i,Some(*j))} else {false},P::LoopInf(a,i)=>memloop(a,w,*i,None)}}
// w in a^k for some k in [lo,hi]
fn memloop(a:&P,w:&[u32],lo:u32,hi:Option<u32>)->bool{
  // exact power membership: powk(k): w in a^k ; cap k at w.len()+1 using eps-handling
  let n=w.len();
  let eps=mem(a,&[]);
  // reach[k][i]: prefix i is in a^k using only nonempty pieces = exactly k nonempty pieces
  // w in a^k iff exists m<=k nonempty pieces with (m==k or eps in a)
  let mut cur=vec![false;n+1]; cur[0]=true; // m=0
  let mut m=0u32;
  loop {
    if cur[n] { // w is product of m nonempty pieces
      // need k in [lo,hi], k>=m, and (k==m or eps)
      let ok = if eps { match hi {Some(h)=>h>=m && h>=lo, None=>true} } else { m>=lo && hi.map_or(true,|h|m<=h) };
      if ok {return true;}
    }
    if m as usize>=n {break;}
    let mut nx=vec![false;n+1];
    for i in 0..=n { if cur[i] { for j in i+1..=n { if mem(a,&w[i..j]) {nx[j]=true;} } } }
    cur=nx; m+=1;
  }
  false
}
fn words(maxlen:usize)->Vec<Vec<u32>>{ let al=[97u32,98,99,101]; let mut out=vec![vec![]]; let mut last=vec![vec![]];
  for _ in 0..maxlen { let mut nx=vec![]; for w in &last { for &c in &al { let mut v:Vec<u32>=w.clone(); v.push(c); nx.push(v);} } out.extend(nx.iter().cloned()); last=nx;} out}
fn main(){
  let seed: u64 = std::env::args().nth(1).map(|s|s.parse().unwrap()).unwrap_or(12345);
  let n: usize = std::env::args().nth(2).map(|s|s.parse().unwrap()).unwrap_or(2000);
  let mut r=Rng(seed|1);
  let ws=words(4);
  let re=&mut ReManager::new();
  let mut bad=std::collections::BTreeMap::<&str,usize>::new();
  let mut terms: Vec<(P,RegLan)>=vec![];
  for it in 0..n {
    let p=gen(&mut r, 3 + (it as u32 % 3));
    let e=match std::panic::catch_unwind(std::panic::AssertUnwindSafe(||build(re,&p))) {Ok(e)=>e,Err(_)=>{*bad.entry("panic-build").or_default()+=1;continue}};
    let mut report=|k:&'static str,msg:String|{ let c=bad.entry(k).or_default(); *c+=1; if *c<=3 {println!("[{}] it={} {:?} => {} :: {}",k,it,p,e,msg);} };
    if e.nullable!=mem(&p,&[]) {report("nullable",String::new());}
    let mut nonempty=false;
    for w in &ws { let m=mem(&p,w); if m {nonempty=true;} if re.str_in_re(&SmtString::from(w.clone()),e)!=m {report("member",format!("{:?} ref={}",w,m)); break;} }
    // derivative count with cap
    let cnt=re.iter_derivatives(e).take(3000).count(); if cnt>=3000 {report("deriv-diverge",String::new()); continue;}
    let emp=re.is_empty_re(e);
    if nonempty && emp {report("empty-wrong",String::new());}
    match re.get_string(e) { None=> if !emp {report("getstring-none",String::new());}, Some(s)=>{ if emp {report("getstring-some",String::new());} let v:Vec<u32>=s.iter().copied().collect(); if !mem(&p,&v) {report("getstring-notmember",format!("{:?}",v));} if !s.is_good(){report("getstring-bad",String::new());} } }
    let mut a=re.compile(e);
    if a.num_states()!=cnt {report("compile-count",format!("{} vs {}",a.num_states(),cnt));}
    for w in &ws { if a.accepts(&SmtString::from(w.clone()))!=mem(&p,w) {report("compile-accept",format!("{:?}",w)); break;} }
    a.minimize();
    for w in &ws { if a.accepts(&SmtString::from(w.clone()))!=mem(&p,w) {report("min-accept",format!("{:?}",w)); break;} }
    for &c in &[97u32,98,99,100,101,0,0x2FFFF] { let sc=re.start_char(e,c); let d=re.char_derivative(e,c); let ex=!re.is_empty_re(d); if sc!=ex {report("start_char",format!("c={} got {} want {}",c,sc,ex)); break;} }
    if try_compile_bad(re,e,cnt) {report("try_compile",String::new());}
    terms.push((p.clone(),e));
  }
  // included_in soundness on pairs
  let m=terms.len().min(400);
  for i in 0..m { for j in 0..m { let (p,e)=&terms[i]; let (q,f)=&terms[j]; if e.included_in(f) { for w in &ws { if mem(p,w)&&!mem(q,w) { let c=bad.entry("included_in").or_default(); *c+=1; if *c<=3 {println!("[included_in] {} <= {} fails on {:?}",e,f,w);} break; } } } } }
  println!("summary {:?}",bad);
}
fn try_compile_bad(re:&mut ReManager,e:RegLan,cnt:usize)->bool{
  let a=re.try_compile(e,cnt); let b= if cnt>0 {re.try_compile(e,cnt-1)} else {None};
  a.is_none()||b.is_some()
}
